/-
C13 helper lemmas, arithmetic core: bit lengths, the cursor loops of `sieve_block`
(`advance`, `unrollKp`, `stepSkipped`, `stepPair`, `stepSingle`), the recovery tests of
`smooths`, and the lists of offsets registered in the bucket tables (`arith`, `unrolled`,
`largeOffsets`, `vlargeOffsets`).
-/
import Ymq.Model.Sieve
import Mathlib.Tactic.Ring
import Mathlib.Tactic.Linarith
import Mathlib.Data.Nat.ModEq

namespace Ymq.Sieve

/-! ### bit length -/

theorem bitlen_lt_succ_iff (p l : Nat) : bitlen p < l + 1 ↔ p < 2 ^ l := by
  unfold bitlen
  by_cases h : p = 0
  · subst h; simp
  · simp only [h, if_false]
    rw [Nat.add_lt_add_iff_right]
    exact Nat.log2_lt h

theorem bitlen_mono {p q : Nat} (h : p ≤ q) : bitlen p ≤ bitlen q := by
  by_contra hc
  obtain ⟨m, hm⟩ : ∃ m, bitlen p = m + 1 := ⟨bitlen p - 1, by omega⟩
  have h1 : bitlen q < m + 1 := by omega
  have h2 := (bitlen_lt_succ_iff q m).1 h1
  have h3 : bitlen p < m + 1 := (bitlen_lt_succ_iff p m).2 (lt_of_le_of_lt h h2)
  omega

theorem lt_two_pow_bitlen (p : Nat) : p < 2 ^ bitlen p :=
  (bitlen_lt_succ_iff p (bitlen p)).1 (Nat.lt_succ_self _)

theorem two_pow_le_of_bitlen {p l : Nat} (h : l + 1 ≤ bitlen p) : 2 ^ l ≤ p := by
  by_contra hc
  have : bitlen p < l + 1 := (bitlen_lt_succ_iff p l).2 (by omega)
  omega

/-! ### cursor loops -/

/-- `c'` is the cursor of the next block: reduced, and `c' + 32768 ≡ c (mod p)`. -/
def Next (p c c' : Nat) : Prop := c' < p ∧ (c' + BLOCK) % p = c

theorem Next.chain {p c c' B o : Nat} (h : Next p c c') (hc : (c + B * BLOCK) % p = o) :
    (c' + (B + 1) * BLOCK) % p = o := by
  obtain ⟨_, h2⟩ := h
  have : c' + (B + 1) * BLOCK = (c' + BLOCK) + B * BLOCK := by ring
  rw [this, Nat.add_mod, h2, ← hc]
  exact (Nat.add_mod _ _ _).symm ▸ by rw [Nat.mod_mod, ← Nat.add_mod]

theorem advance_spec (p : Nat) (hp : 0 < p) :
    ∀ (f off : Nat), BLOCK ≤ f + off →
      ∃ k, advance p (f + 1) off = some (off + k * p) ∧ BLOCK ≤ off + k * p ∧
        (off < BLOCK → off + k * p < BLOCK + p) ∧ (BLOCK ≤ off → k = 0) := by
  intro f
  induction f with
  | zero =>
    intro off h
    refine ⟨0, ?_, by omega, by omega, fun _ => rfl⟩
    have : ¬ off < BLOCK := by omega
    simp [advance, this]
  | succ f ih =>
    intro off h
    by_cases hlt : off < BLOCK
    · obtain ⟨k, h1, h2, h3, h4⟩ := ih (off + p) (by omega)
      by_cases hlt2 : off + p < BLOCK
      · refine ⟨k + 1, ?_, ?_, ?_, by omega⟩
        · rw [advance]; simp only [hlt, if_true]; rw [h1]; congr 1; ring
        · have : off + (k + 1) * p = off + p + k * p := by ring
          omega
        · intro _
          have : off + (k + 1) * p = off + p + k * p := by ring
          have := h3 hlt2
          omega
      · have hk := h4 (by omega)
        subst hk
        refine ⟨1, ?_, by omega, by omega, by omega⟩
        rw [advance]; simp only [hlt, if_true]; rw [h1]; congr 1; ring
    · refine ⟨0, ?_, by omega, by omega, fun _ => rfl⟩
      rw [advance]; simp [hlt]

theorem unrollKp_spec (p ll : Nat) (hp : 0 < p) :
    ∀ (f kp : Nat), ll ≤ f + kp →
      ∃ j, unrollKp p ll (f + 1) kp = some (kp + j * (2 * p)) ∧ ll ≤ kp + j * (2 * p) ∧
        (j = 0 ∨ kp + j * (2 * p) < ll + 2 * p) := by
  intro f
  induction f with
  | zero =>
    intro kp h
    refine ⟨0, ?_, by omega, Or.inl rfl⟩
    have : ¬ kp < ll := by omega
    simp [unrollKp, this]
  | succ f ih =>
    intro kp h
    by_cases hlt : kp < ll
    · obtain ⟨j, h1, h2, h3⟩ := ih (kp + 2 * p) (by omega)
      refine ⟨j + 1, ?_, ?_, Or.inr ?_⟩
      · rw [unrollKp]; simp only [hlt, if_true]; rw [h1]; congr 1; ring
      · have : kp + (j + 1) * (2 * p) = kp + 2 * p + j * (2 * p) := by ring
        omega
      · have : kp + (j + 1) * (2 * p) = kp + 2 * p + j * (2 * p) := by ring
        rcases h3 with h3 | h3
        · subst h3; omega
        · omega
    · refine ⟨0, ?_, by omega, Or.inl rfl⟩
      rw [unrollKp]; simp [hlt]

/-- `(off + k p - BLOCK)` is the next cursor when it lands in `[BLOCK, BLOCK + p)`. -/
theorem next_of_landing {p c k : Nat} (hc : c < p) (h1 : BLOCK ≤ c + k * p) (h2 : c + k * p < BLOCK + p)
    (hp : p ≤ BLOCK) : (c + k * p) % BLOCK % 65536 = c + k * p - BLOCK ∧ Next p c (c + k * p - BLOCK) := by
  have e1 : (c + k * p) % BLOCK = c + k * p - BLOCK := by
    simp only [BLOCK] at *; omega
  refine ⟨?_, ?_, ?_⟩
  · rw [e1]; simp only [BLOCK] at *; omega
  · omega
  · have : c + k * p - BLOCK + BLOCK = c + k * p := by omega
    rw [this, Nat.add_mul_mod_self_right, Nat.mod_eq_of_lt hc]

theorem stepSingle_next {p c : Nat} (hp : 0 < p) (hpB : p ≤ BLOCK) (hc : c < p) :
    ∃ c', stepSingle p c = some (some c') ∧ Next p c c' := by
  have hB : BLOCK = 32768 := rfl
  have hne : c ≠ NONE := by unfold NONE; omega
  obtain ⟨k, h1, h2, h3, _⟩ := advance_spec p hp BLOCK c (by omega)
  obtain ⟨e, hn⟩ := next_of_landing hc h2 (h3 (by omega)) hpB
  refine ⟨c + k * p - BLOCK, ?_, hn⟩
  simp only [stepSingle, hne, if_false, h1, Option.map_some, e]

theorem stepSkipped_next {p c : Nat} (hp : 0 < p) (hp16 : p < 65536) (hc : c < p) :
    ∃ c', stepSkipped p c = some c' ∧ Next p c c' := by
  have hb : BLOCK % p < p := Nat.mod_lt _ hp
  have hdm := Nat.div_add_mod BLOCK p
  unfold stepSkipped
  have h0 : ¬ c + p < BLOCK % p := by omega
  simp only [h0, if_false]
  by_cases hge : c + p - BLOCK % p ≥ p
  · simp only [hge, if_true]
    have hlt : c + p - BLOCK % p - p < p := by omega
    refine ⟨_, rfl, ?_, ?_⟩
    · rw [Nat.mod_eq_of_lt (by omega)]; exact hlt
    · rw [Nat.mod_eq_of_lt (by omega : c + p - BLOCK % p - p < 65536)]
      have : c + p - BLOCK % p - p + BLOCK = c + p * (BLOCK / p) := by omega
      rw [this, Nat.add_mul_mod_self_left, Nat.mod_eq_of_lt hc]
  · simp only [hge, if_false]
    have hlt : c + p - BLOCK % p < p := by omega
    refine ⟨_, rfl, ?_, ?_⟩
    · rw [Nat.mod_eq_of_lt (by omega)]; exact hlt
    · rw [Nat.mod_eq_of_lt (by omega : c + p - BLOCK % p < 65536)]
      have : c + p - BLOCK % p + BLOCK = c + p * (BLOCK / p + 1) := by
        have : p * (BLOCK / p + 1) = p * (BLOCK / p) + p := by ring
        omega
      rw [this, Nat.add_mul_mod_self_left, Nat.mod_eq_of_lt hc]

/-- one cursor of `stepPair` after the common shift `kp`. -/
theorem pair_cursor {p c kp m : Nat} (hp : 0 < p) (hp4 : p ≤ 4096) (hc : c < p) (hcm : c ≤ m) (hm : m < p)
    (j : Nat) (hkp : kp = j * (2 * p)) (hj : j = 0 ∨ kp < BLOCK - p - m + 2 * p) :
    c + kp ≠ NONE ∧ ∃ c', (advance p (BLOCK + 1) (c + kp)).map (fun o => some (o % BLOCK % 65536)) = some (some c') ∧
      Next p c c' := by
  have hB : BLOCK = 32768 := rfl
  have hlt : c + kp < BLOCK + p := by
    rcases hj with hj | hj
    · subst hj; simp at hkp; subst hkp; rw [hB]; omega
    · rw [hB] at *; omega
  refine ⟨by unfold NONE; rw [hB] at hlt; omega, ?_⟩
  obtain ⟨k, h1, h2, h3, h4⟩ := advance_spec p hp BLOCK (c + kp) (by omega)
  have e : c + kp + k * p = c + (2 * j + k) * p := by subst hkp; ring
  have hland : c + (2 * j + k) * p < BLOCK + p := by
    rw [← e]
    by_cases hb : c + kp < BLOCK
    · exact h3 hb
    · have := h4 (by omega); subst this; simpa using hlt
  obtain ⟨e2, hn⟩ := next_of_landing hc (by rw [← e]; exact h2) hland (by rw [hB]; omega)
  refine ⟨c + (2 * j + k) * p - BLOCK, ?_, hn⟩
  rw [h1, Option.map_some, e, e2]

theorem stepPair_two {p c1 c2 : Nat} (hp : 0 < p) (hp4 : p ≤ 4096) (h1 : c1 < p) (h2 : c2 < p) :
    ∃ w1 w2, stepPair p c1 c2 = some (some w1, some w2) ∧ Next p c1 w1 ∧ Next p c2 w2 := by
  have hB : BLOCK = 32768 := rfl
  have n1 : c1 ≠ NONE := by unfold NONE; omega
  have n2 : c2 ≠ NONE := by unfold NONE; omega
  have hm : max c1 c2 < p := by omega
  have hund : ¬ BLOCK < p + max c1 c2 := by rw [hB]; omega
  obtain ⟨j, hk, _, hj⟩ := unrollKp_spec p (BLOCK - p - max c1 c2) hp BLOCK 0 (by omega)
  simp only [Nat.zero_add] at hk hj
  obtain ⟨a1, w1, e1, g1⟩ := pair_cursor hp hp4 h1 (le_max_left c1 c2) hm j rfl hj
  obtain ⟨a2, w2, e2, g2⟩ := pair_cursor hp hp4 h2 (le_max_right c1 c2) hm j rfl hj
  refine ⟨w1, w2, ?_, g1, g2⟩
  unfold stepPair
  simp only [n1, n2, ne_eq, not_false_eq_true, and_self, if_true, hund, if_false, hk, Option.bind_eq_bind,
    Option.bind_some, a1, a2, e1, e2]

theorem stepPair_one {p c1 : Nat} (hp : 0 < p) (hp4 : p ≤ 4096) (h1 : c1 < p) :
    ∃ w1, stepPair p c1 NONE = some (some w1, none) ∧ Next p c1 w1 := by
  have hB : BLOCK = 32768 := rfl
  have n1 : c1 ≠ NONE := by unfold NONE; omega
  obtain ⟨_, w1, e1, g1⟩ := pair_cursor hp hp4 h1 (le_refl c1) h1 0 rfl (Or.inl rfl)
  simp only [Nat.zero_mul, Nat.add_zero] at e1
  refine ⟨w1, ?_, g1⟩
  unfold stepPair
  simp only [n1, ne_eq, not_false_eq_true, not_true_eq_false, and_false, if_false, if_true,
    Option.bind_eq_bind, Option.bind_some, e1]

/-! ### recovery tests of `smooths` -/

/-- `modu16(r) == off`: for a reduced cursor `c` of block `B` the test is exact. -/
theorem recover_small {p c B o r : Nat} (hc : c < p) (hinv : (c + B * BLOCK) % p = o) :
    r % p = c ↔ (B * BLOCK + r) % p = o := by
  have hp : 0 < p := by omega
  rw [← hinv]
  constructor
  · intro h
    have h1 : r ≡ c [MOD p] := by unfold Nat.ModEq; rw [h, Nat.mod_eq_of_lt hc]
    have h2 := Nat.ModEq.add_right (B * BLOCK) h1
    unfold Nat.ModEq at h2
    rw [Nat.add_comm (B * BLOCK) r]; exact h2
  · intro h
    have h' : (r + B * BLOCK) ≡ (c + B * BLOCK) [MOD p] := by
      unfold Nat.ModEq; rw [Nat.add_comm r]; exact h
    have := Nat.ModEq.add_right_cancel' _ h'
    unfold Nat.ModEq at this
    rw [this, Nat.mod_eq_of_lt hc]

/-- `r == off || r == off + p` for `BLOCK/2 ≤ p`: exact for positions inside the block. -/
theorem recover_mid {p c B o r : Nat} (hc : c < p) (hp : BLOCK ≤ 2 * p) (hr : r < BLOCK)
    (hinv : (c + B * BLOCK) % p = o) :
    (r = c ∨ r = c + p) ↔ (B * BLOCK + r) % p = o := by
  rw [← recover_small hc hinv]
  constructor
  · rintro (h | h)
    · subst h; exact Nat.mod_eq_of_lt hc
    · subst h; rw [Nat.add_mod_right]; exact Nat.mod_eq_of_lt hc
  · intro h
    have hdm := Nat.div_add_mod r p
    rw [h] at hdm
    generalize r / p = q at hdm
    have hq : q < 2 := by
      by_contra hq
      have h2 : 2 ≤ q := Nat.le_of_not_lt hq
      have : p * 2 ≤ p * q := Nat.mul_le_mul_left p h2
      omega
    have : q = 0 ∨ q = 1 := by omega
    rcases this with h0 | h0
    · left; rw [h0] at hdm; omega
    · right; rw [h0] at hdm; omega

/-! ### offsets registered in the bucket tables -/

theorem arith_complete (p bound : Nat) :
    ∀ (f off : Nat) (l : List Nat), arith p bound f off = some l →
      (∀ k, off + k * p < bound → off + k * p ∈ l) ∧ (∀ x ∈ l, x < bound ∧ ∃ k, x = off + k * p) := by
  intro f
  induction f with
  | zero => intro off l h; simp [arith] at h
  | succ f ih =>
    intro off l h
    rw [arith] at h
    by_cases hlt : off < bound
    · simp only [hlt, if_true, Option.map_eq_some_iff] at h
      obtain ⟨l', hl', rfl⟩ := h
      obtain ⟨ih1, ih2⟩ := ih _ _ hl'
      constructor
      · intro k hk
        cases k with
        | zero => simp
        | succ k =>
          have e : off + (k + 1) * p = off + p + k * p := by ring
          rw [e] at hk ⊢
          exact List.mem_cons_of_mem _ (ih1 k hk)
      · intro x hx
        rcases List.mem_cons.1 hx with rfl | hx
        · exact ⟨hlt, 0, by simp⟩
        · obtain ⟨hb, k, rfl⟩ := ih2 x hx
          exact ⟨hb, k + 1, by ring⟩
    · simp only [hlt, if_false, Option.some.injEq] at h
      subst h
      constructor
      · intro k hk
        have : off ≤ off + k * p := Nat.le_add_right _ _
        omega
      · intro x hx; simp at hx

theorem unrolled_spec (interval p o1 o2 rmax : Nat) (h1 : o1 ≤ rmax) (h2 : o2 ≤ rmax) :
    ∀ (f kp : Nat) (l : List Nat) (kp' : Nat), unrolled interval p o1 o2 rmax f kp = some (l, kp') →
      ∃ j, kp' = kp + j * (2 * p) ∧
        (∀ k, k < 2 * j → kp + o1 + k * p ∈ l ∧ kp + o2 + k * p ∈ l) ∧
        (∀ x ∈ l, x < interval ∧ ∃ k, x = kp + o1 + k * p ∨ x = kp + o2 + k * p) := by
  intro f
  induction f with
  | zero => intro kp l kp' h; simp [unrolled] at h
  | succ f ih =>
    intro kp l kp' h
    rw [unrolled] at h
    by_cases hlt : kp + p + rmax < interval
    · simp only [hlt, if_true, Option.map_eq_some_iff] at h
      obtain ⟨⟨l', k'⟩, hl', heq⟩ := h
      simp only [Prod.mk.injEq] at heq
      obtain ⟨rfl, rfl⟩ := heq
      obtain ⟨j, hj, c1, c2⟩ := ih _ _ _ hl'
      refine ⟨j + 1, by rw [hj]; ring, ?_, ?_⟩
      · intro k hk
        match k with
        | 0 => simp
        | 1 =>
          have e1 : kp + o1 + 1 * p = kp + p + o1 := by ring
          have e2 : kp + o2 + 1 * p = kp + p + o2 := by ring
          rw [e1, e2]; simp
        | k + 2 =>
          have := c1 k (by omega)
          have e1 : kp + o1 + (k + 2) * p = kp + 2 * p + o1 + k * p := by ring
          have e2 : kp + o2 + (k + 2) * p = kp + 2 * p + o2 + k * p := by ring
          rw [e1, e2]
          exact ⟨List.mem_cons_of_mem _ (List.mem_cons_of_mem _ (List.mem_cons_of_mem _ (List.mem_cons_of_mem _ this.1))),
            List.mem_cons_of_mem _ (List.mem_cons_of_mem _ (List.mem_cons_of_mem _ (List.mem_cons_of_mem _ this.2)))⟩
      · intro x hx
        simp only [List.mem_cons] at hx
        rcases hx with rfl | rfl | rfl | rfl | hx
        · exact ⟨by omega, 0, Or.inl (by simp)⟩
        · exact ⟨by omega, 0, Or.inr (by simp)⟩
        · exact ⟨by omega, 1, Or.inl (by ring)⟩
        · exact ⟨by omega, 1, Or.inr (by ring)⟩
        · obtain ⟨hb, k, hk⟩ := c2 x hx
          refine ⟨hb, k + 2, ?_⟩
          rcases hk with rfl | rfl
          · left; ring
          · right; ring
    · simp only [hlt, if_false, Option.some.injEq, Prod.mk.injEq] at h
      obtain ⟨rfl, rfl⟩ := h
      exact ⟨0, by simp, by intro k hk; omega, by intro x hx; simp at hx⟩

/-- every `o + k·p` below the interval end is registered by `Sieve::new` (second size class),
and nothing outside the interval is. -/
theorem largeOffsets_spec {interval p o1 o2 : Nat} {l : List Nat}
    (h : largeOffsets interval p o1 o2 = some l) :
    (∀ k, o1 + k * p < interval → o1 + k * p ∈ l) ∧ (∀ k, o2 + k * p < interval → o2 + k * p ∈ l) ∧
    (∀ x ∈ l, x < interval ∧ ∃ k, x = o1 + k * p ∨ x = o2 + k * p) := by
  unfold largeOffsets at h
  simp only [Option.bind_eq_bind, Option.bind_eq_some_iff, Option.some.injEq] at h
  obtain ⟨⟨l0, kp⟩, hu, t1, ht1, t2, ht2, rfl⟩ := h
  obtain ⟨j, hj, c1, c2⟩ := unrolled_spec interval p o1 o2 (max o1 o2) (le_max_left _ _) (le_max_right _ _) _ _ _ _ hu
  simp only [Nat.zero_add] at hj c1 c2
  obtain ⟨a1, b1⟩ := arith_complete p interval _ _ _ ht1
  obtain ⟨a2, b2⟩ := arith_complete p interval _ _ _ ht2
  subst hj
  refine ⟨?_, ?_, ?_⟩
  · intro k hk
    by_cases hk2 : k < 2 * j
    · exact List.mem_append_left _ (List.mem_append_left _ (c1 k hk2).1)
    · have e : o1 + k * p = o1 + j * (2 * p) + (k - 2 * j) * p := by
        have : k = 2 * j + (k - 2 * j) := by omega
        conv_lhs => rw [this]
        ring
      rw [e] at hk ⊢
      exact List.mem_append_left _ (List.mem_append_right _ (a1 _ hk))
  · intro k hk
    by_cases hk2 : k < 2 * j
    · exact List.mem_append_left _ (List.mem_append_left _ (c1 k hk2).2)
    · have e : o2 + k * p = o2 + j * (2 * p) + (k - 2 * j) * p := by
        have : k = 2 * j + (k - 2 * j) := by omega
        conv_lhs => rw [this]
        ring
      rw [e] at hk ⊢
      exact List.mem_append_right _ (a2 _ hk)
  · intro x hx
    simp only [List.mem_append] at hx
    rcases hx with (hx | hx) | hx
    · exact c2 x hx
    · obtain ⟨hb, k, rfl⟩ := b1 x hx
      exact ⟨hb, 2 * j + k, Or.inl (by ring)⟩
    · obtain ⟨hb, k, rfl⟩ := b2 x hx
      exact ⟨hb, 2 * j + k, Or.inr (by ring)⟩

theorem vlargeOffsets_spec {interval p o1 o2 : Nat} {l : List Nat}
    (h : vlargeOffsets interval p o1 o2 = some l) :
    (∀ k, o1 + k * p < interval → o1 + k * p ∈ l) ∧ (∀ k, o2 + k * p < interval → o2 + k * p ∈ l) ∧
    (∀ x ∈ l, x < interval ∧ ∃ k, x = o1 + k * p ∨ x = o2 + k * p) := by
  unfold vlargeOffsets at h
  simp only [Option.bind_eq_bind, Option.bind_eq_some_iff, Option.some.injEq] at h
  obtain ⟨t1, ht1, t2, ht2, rfl⟩ := h
  obtain ⟨a1, b1⟩ := arith_complete p interval _ _ _ ht1
  obtain ⟨a2, b2⟩ := arith_complete p interval _ _ _ ht2
  refine ⟨fun k hk => List.mem_append_left _ (a1 k hk), fun k hk => List.mem_append_right _ (a2 k hk), ?_⟩
  intro x hx
  rcases List.mem_append.1 hx with hx | hx
  · obtain ⟨hb, k, rfl⟩ := b1 x hx; exact ⟨hb, k, Or.inl rfl⟩
  · obtain ⟨hb, k, rfl⟩ := b2 x hx; exact ⟨hb, k, Or.inr rfl⟩

/-- existence (no fuel exhaustion) for the offset lists: `arith` terminates with the fuel used. -/
theorem arith_some (p bound : Nat) (hp : 0 < p) :
    ∀ (f off : Nat), bound ≤ f + off → ∃ l, arith p bound (f + 1) off = some l := by
  intro f
  induction f with
  | zero =>
    intro off h
    have : ¬ off < bound := by omega
    exact ⟨[], by simp [arith, this]⟩
  | succ f ih =>
    intro off h
    by_cases hlt : off < bound
    · obtain ⟨l, hl⟩ := ih (off + p) (by omega)
      exact ⟨off :: l, by rw [arith]; simp [hlt, hl]⟩
    · exact ⟨[], by rw [arith]; simp [hlt]⟩

end Ymq.Sieve
