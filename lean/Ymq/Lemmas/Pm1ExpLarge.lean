/-
`exp_modn_large` on the residues of the model: it commutes with every multiplicative map (`expModnLarge_natural`:
`sqN`, `smallPows`, `largeLoop`), so `exp_modn_large_spec` (over a commutative monoid) transports along `Nat → ZMod m`:
no index of `g_smalls` out of range, value `≡ g^e (mod m)` for every `e < 2^1024`.
-/
import Ymq.Lemmas.Pm1Walk
import Ymq.Lemmas.Stage2ExpLarge

namespace Ymq.Pm1Impl
open Ymq.ExpModn

section nat
variable {α β : Type*} (f : α → β) (mul : α → α → α) (mul' : β → β → β) (hf : ∀ a b, f (mul a b) = mul' (f a) (f b))
include hf

theorem sqN_natural : ∀ (n : Nat) (x : α), f (sqN mul n x) = sqN mul' n (f x)
  | 0, _ => rfl
  | n + 1, x => by rw [sqN, sqN, sqN_natural n, hf]

theorem smallPows_natural (g2 : α) : ∀ (n : Nat) (gk : α),
    (smallPows mul g2 n gk).map f = smallPows mul' (f g2) n (f gk)
  | 0, _ => rfl
  | n + 1, gk => by rw [smallPows, smallPows, List.map_cons, smallPows_natural g2 n, hf]

theorem largeLoop_natural (g : α) (smalls : List α) (exp : Nat) : ∀ (fu rem : Nat) (gk : α),
    (largeLoop mul g smalls exp fu rem gk).map f = largeLoop mul' (f g) (smalls.map f) exp fu rem (f gk)
  | 0, _, _ => rfl
  | fu + 1, rem, gk => by
    unfold largeLoop
    split
    · rfl
    · split
      · rw [largeLoop_natural g smalls exp fu, hf]
      · split
        · simp only [List.getElem?_map]
          cases hs : smalls[expBlock exp (rem - 6) / 2 ^ (tz6 6 (expBlock exp (rem - 6)) + 1)]? with
          | none => rfl
          | some s =>
            simp only [Option.map_some]
            rw [largeLoop_natural g smalls exp fu, sqN_natural f mul mul' hf, hf, sqN_natural f mul mul' hf]
        · rw [largeLoop_natural g smalls exp fu, hf, hf]

theorem expModnLarge_natural (one g : α) (e : Nat) :
    (expModnLarge mul one g e).map f = expModnLarge mul' (f one) (f g) e := by
  unfold expModnLarge
  simp only
  split
  · rfl
  · split
    · rfl
    · split
      · exact expModn_natural f mul mul' hf one g _
      · rw [← hf, ← smallPows_natural f mul mul' hf]
        simp only [List.getElem?_map]
        cases hs : (smallPows mul (mul g g) 32 g)[expBlock e (bitlen e - 6) / 2 ^ (tz6 6 (expBlock e (bitlen e - 6)) + 1)]? with
        | none => rfl
        | some s =>
          simp only [Option.map_some]
          rw [largeLoop_natural f mul mul' hf, sqN_natural f mul mul' hf]

end nat

theorem expModnLarge_mod {m : Nat} (g e : Nat) (he : e < 2 ^ 1024) :
    ∃ x, expModnLarge (mulm m) (onem m) g e = some x ∧ x ≡ g ^ e [MOD m] := by
  have hnat := expModnLarge_natural (fun a : Nat => (a : ZMod m)) (mulm m) (· * ·)
    (by intro a b; simp [mulm]) (onem m) g e
  have h1 : ((onem m : Nat) : ZMod m) = 1 := by simp [onem]
  simp only [h1] at hnat
  rw [expModnLarge_eq (g : ZMod m) e he] at hnat
  cases hx : expModnLarge (mulm m) (onem m) g e with
  | none => rw [hx] at hnat; simp at hnat
  | some x =>
    rw [hx] at hnat
    simp only [Option.map_some, Option.some.injEq] at hnat
    refine ⟨x, rfl, ?_⟩
    rw [← ZMod.natCast_eq_natCast_iff]
    rw [hnat]; push_cast; rfl

end Ymq.Pm1Impl
