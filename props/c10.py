"""C10 — polynomial products, convolutions and multipoint evaluation match the schoolbook definitions.

Request lines: see harness/src/ops_polyfft.rs and lean/Ymq/Drv/PolyFft.lean.
Polynomials are lists of plain integers < n; an operand is an explicit list, `-`, or a generated
one `g:<len>:<seed>:<kind>` (same generator here, in the harness and in the Lean driver).
"""
import math, operator, sys
sys.set_int_max_str_digits(0)
from vlib.pipeline import Case

PID = "C10"
GEN = ["params"]
LEAN = ["Ymq.Props.C10"]
AUDIT = "Ymq.Audit.C10"
THEOREMS = ["Ymq.C10." + t for t in (
    "dispatch_ok pack_unpack cycExact_exact kronecker_cyclic kronecker_old_index_drops_wrap "
    "reduce_spec add_assign_spec add_small_spec sub_assign_spec butterfly_spec shl_spec shr_spec sqrt2_sq twiddle_spec root_pow "
    "root_half crt_unique crt_value crt_q_estimate_partial ntt_table_ok dft_conv "
    "basic_mul_spec karatsuba_spec karatsuba_domain mul_karatsuba_spec mul_karatsuba_zmod "
    "middlemul_spec middlemul_pub_spec inv_mod_xn_spec div_mod_xn_spec div_mod_xn_zmod "
    "product_tree_spec from_roots_spec multi_eval_tree_spec multi_eval_spec multi_eval_zmod roots_eval_direct_spec "
    "mul_spec fft_spec mulfft_spec mulfft_exact kronecker_cyclic_fft roots_eval_spec roots_eval_zmod crt_q_estimate fint_mul_karatsuba crt_spec ntt_roots_spec ntt_inplace_spec ntt_pipeline_spec crt_call_bound from_mint_spec pprods_modn_spec convolve_modn_ntt_spec "
    "mont_ops_hom fft_longmul_refines fft_midmul_refines mul_fft_end_to_end longmul_ntt_end_to_end "
    "middlemul_ntt_end_to_end div_mod_xn_mont multi_eval_mont roots_eval_mont "
    "mont_fin_hom fft_longmul_word_eq fft_midmul_word_eq "
    "roots_eval_unit_spec roots_eval_full_spec roots_eval_full_zmod roots_eval_full_mont").split()]
HYPOTHESES = []
PROFILES = ["release", "chk"]
TIMEOUT = 60.0
W = 1 << 64
M64 = W - 1

RULE = ("moduli: bit lengths {2,3,8,31..33,63..65,127..129,150,151,192,193,245,246,256,257,280,281,310,311,320,321,384,385,"
        "448,449,499,500} (every word count 1..8 and every packing-class boundary of convolve_modn) x styles {2^B-s, 2^(B-1)+s, "
        "random, all ones}; convolution sizes 2..4096 with explicit operands (K: specification model and Kronecker mechanism model; "
        "O: Python), 8192..65536 with generated operands judged on boundary + sampled output indices (thorough: up to 2^19, the "
        "largest size the dispatch table accepts; 2^20 must be refused); every (N, logpack, stride) row of the dispatch also at "
        "small sizes through the hook; offsets {0, 1, A-1, A, size/2, size-len}; operand lengths 1, size/2+-1, size-1, size, "
        "19/20/21, 27/28/29, 2^k-1, 2^k, 2^k+1; coefficient patterns {random, all n-1, all 1, 0/1/n-1 mix, sparse}; "
        "FInt<N>, N in {1,2,3,4,8,16,32,64,128,256}: structured words (0, all-ones, single bit, random), every shift class "
        "(sw = 0, < N, = N, > N; bit part zero / non-zero; s >= 128N), both normal forms; MultiZmodP: values 0, 1, (n-1)^2*2^logk, "
        "random below 2^(2 bits + logk), below P/2 and (compared only) up to P; non-trivial = some operand longer than one "
        "coefficient / non-zero word; distinct by request line")
MODELLED = [
    "schoolbook specifications of every public entry point (Ymq/Model/PolySpec.lean): cyclic convolution with offset window, product, "
    "middle product, power-series quotient/inverse, product of linear factors, (multi)point evaluation",
    "arith_fft::_convolve_modn (Kronecker packing, digit slices, offset window; before and after the fix) with the dispatch table of "
    "convolve_modn translated from the source (Ymq/Model/Kronecker.lean, Ymq/Gen/Params.lean); the transform product is a parameter: the "
    "driver and kronecker_cyclic_fft use cycFft = packed words as FInt<N> with top word 0 + the word-level mulfft + values read back",
    "arith_fft::FInt::{reduce, add, add_assign, add_small, sub, sub_assign, shl (all word-shift branches and both carry-free shortcuts), "
    "shr, twiddle, mul (both top-word shortcuts; the word-level Karatsuba product: mulbasic with its overflow checks, split, carries of "
    "the middle product, the two _sub_slices, carrymid - (carrylo + carryhi), recombination with the carry propagation of b8c535f, both "
    "debug_asserts; scratch only by length since every call zero-fills before reading)}, butterfly, the recursive fft "
    "(strided even/odd recursion, twiddle exponents idx / 2^k - idx, length-1/2 base cases, shr in the inverse direction), mulfft, "
    "word-exact incl. every debug_assert/overflow/index panic site (Ymq/Model/FInt.lean)",
    "arith_fft::MultiZmodP::{new (tables without roots of unity), from_mint, _crt (three quotient-estimate branches, column loop, "
    "carry assert), redc} (Ymq/Model/Crt.lean)",
    "arith_fft::MultiZmodP::{root tables of new (omegas, the 2^logsize powers, packed forward/backward levels, the debug_assert sanity "
    "check of the roots), addsub_inplace, "
    "muladdsub_inplace, mul, div_pow2, ntt_inplace (recursive, bit-reversed input)} and convolve_modn_ntt (from_mint scattered to "
    "bit-reversed positions, two forward transforms, pointwise product, swap loop, inverse transform, redc) on vectors of w-residue "
    "elements with the C07 word models of mg_mul/mg_redc and checked u64 butterflies (Ymq/Model/Ntt.lean)",
    "arith_poly::Poly::{_basic_mul (double loop with the first-term rule), karatsuba (threshold and unbalanced fallback after the fix, "
    "split point, three recursive products, recombination, buffer reuse incl. stale contents), mul_karatsuba, mul_basic} over abstract "
    "coefficient operations, run by the driver on residues mod n (Ymq/Model/PolyMul.lean)",
    "arith_poly::Poly::{_longmul (NTT/Karatsuba switch), _middlemul (base cases, both NTT shortcuts, Hanrot-Quercia-Zimmermann recursion with "
    "its operand slices), _middlemul_xn, _middlemul_1x, _inv_mod_xn and _div_mod_xn (Newton iteration: base cases, precision schedule, "
    "1+xC shortcut conditions after the fix, general branch), middlemul, div_mod_xn} at value level with every assert/slice/index/scratch-"
    "length panic site; convolve_modn_ntt inside them is the exact convolution with its asserts (Ymq/Model/PolySeries.lean)",
    "arith_poly::Poly::{_product_tree (leaves, the three merge forms, zero padding), from_roots, _multi_eval (reversed inverse of the top "
    "node, one _middlemul per node, leaf rule), multi_eval (chunking, padding of a short chunk after the fix, truncation), roots_eval "
    "(both branches: from_roots + _multi_eval; chunk products reduced modulo the top node by three _longmul with the reversed inverse, "
    "all asserts incl. the debug_assert on the high halves)} (Ymq/Model/PolyTree.lean)",
]
UNMODELLED = [
    "ZmodN::{mul, add, sub, redc, redc_large} are exact modular arithmetic on residues on the domain proved in C07 (redc_large_spec, "
    "add_spec, redc_spec); MInt == is equality of residues (MInts are reduced: C07); mg_mul/mg_redc are the word-exact C07 models; "
    "arith::inv_mod64 (C08) is the mathematical inverse",
    "the arith_poly models are generic over coefficient operations; the driver runs them with natOps n (plain residues, pf_* ops) AND "
    "with the Montgomery operations montOps on the raw integers held by the MInts (pfm_* twins of the arith_poly ops, K only: the "
    "harness makes the same call of the real code without from_int/to_int); montFin (the typed variant used by fft_*_word_eq) is not "
    "run, it is montOps restricted to reduced residues (fftLongmul_fin/fftMidmul_fin); the models call the exact step "
    "fftLongmul/fftMidmul by name: that it is the code's _fft_longmul/_fft_midmul over the word-level convolve_modn_ntt is the "
    "extensional equality fft_longmul_word_eq / fft_midmul_word_eq, the models are not re-expressed with the word-level step inside; "
    "pf_convolve_ntt: every K-compared case (explicit operands, sizes 2..4096) is answered by the word-level model; sizes >= 8192 "
    "(generated operands) are judged by the Python oracle only (no K stream, as for pf_convolve at those sizes)",
    "bnum U1024/U2048 operators are modelled as Nat arithmetic; memory safety of get_unchecked is not modelled",
]


# ---------------------------------------------------------------- operands

A64 = 6364136223846793005
B64 = 1442695040888963407


def gen_coef(n, seed, i, kind):
    h = ((seed + i + 1) % W * A64 + B64) % W
    if kind == "r":
        return pow(h, 9) % n
    if kind == "m":
        return n - 1
    if kind == "o":
        return 1 % n
    if kind == "s":
        return pow(h, 9) % n if h % 8 == 0 else 0
    if kind == "b":
        return n - 1 if h % 2 == 0 else 0
    if kind == "t":
        return pow(h, 9) % n if h % 2048 == 0 else 0
    raise ValueError(kind)


def parse_poly(n, s):
    if s == "-":
        return []
    if s.startswith("g:"):
        _, ln, seed, kind = s.split(":")
        return [gen_coef(n, int(seed), i, kind) for i in range(int(ln))]
    return [int(x) for x in s.split(",")]


def fmt(l):
    return ",".join(map(str, l)) if l else "-"


def parse_ans(ans):
    if ans == "-":
        return []
    try:
        return [int(x) for x in ans.split(",")]
    except ValueError:
        return None


# ---------------------------------------------------------------- plain-integer reference (schoolbook + Kronecker for long operands)

def _kron_mul(p, q, n):
    """exact product of two coefficient lists (entries < n) by one big-integer multiplication"""
    if not p or not q:
        return []
    bb = (2 * n.bit_length() + min(len(p), len(q)).bit_length() + 8) // 8 + 1
    P = int.from_bytes(b"".join(c.to_bytes(bb, "little") for c in p), "little")
    Q = int.from_bytes(b"".join(c.to_bytes(bb, "little") for c in q), "little")
    L = len(p) + len(q) - 1
    raw = (P * Q).to_bytes(bb * (L + 1), "little")
    return [int.from_bytes(raw[i * bb:(i + 1) * bb], "little") for i in range(L)]


def _school_mul(p, q):
    if not p or not q:
        return []
    z = [0] * (len(p) + len(q) - 1)
    for a, pa in enumerate(p):
        if pa:
            for b, qb in enumerate(q):
                z[a + b] += pa * qb
    return z


def mul_exact(p, q, n):
    """integer (unreduced) product coefficients"""
    if len(p) * len(q) <= 4096:
        return _school_mul(p, q)
    return _kron_mul(p, q, n)


def mul_ref(n, p, q):
    return [c % n for c in mul_exact(p, q, n)]


def cyc_ref(n, size, p, q):
    z = mul_exact(p, q, n)
    out = [0] * size
    for i, c in enumerate(z):
        out[i % size] += c
    return [c % n for c in out]


def cyc_coef_ref(n, size, p, q, k):
    """one coefficient of the cyclic product, literally Σ p[a]·q[(k-a) mod size]"""
    lp, lq = len(p), len(q)
    s = 0
    # b = k - a, a <= k
    lo, hi = max(0, k - lq + 1), min(k, lp - 1)
    if lo <= hi:
        s += sum(map(operator.mul, p[lo:hi + 1], q[k - hi:k - lo + 1][::-1]))
    # b = k + size - a, a > k
    lo, hi = max(k + 1, k + size - lq + 1), lp - 1
    if lo <= hi:
        s += sum(map(operator.mul, p[lo:hi + 1], q[k + size - hi:k + size - lo + 1][::-1]))
    return s % n


def from_roots_ref(n, roots):
    if not roots:
        return [1 % n]
    if len(roots) == 1:
        return [(-roots[0]) % n, 1 % n]
    h = len(roots) // 2
    return mul_ref(n, from_roots_ref(n, roots[:h]), from_roots_ref(n, roots[h:]))


def eval_ref(n, p, x):
    v = 0
    for c in reversed(p):
        v = (v * x + c) % n
    return v


def _selftest():
    import random
    r = random.Random(5)
    n = (1 << 89) - 1
    p = [r.randrange(n) for _ in range(70)]
    q = [r.randrange(n) for _ in range(75)]
    assert _kron_mul(p, q, n) == _school_mul(p, q)
    c = cyc_ref(n, 128, p, q)
    assert all(cyc_coef_ref(n, 128, p, q, k) == c[k] for k in range(128))
    c = cyc_ref(n, 64, p[:64], q[:64])
    assert all(cyc_coef_ref(n, 64, p[:64], q[:64], k) == c[k] for k in range(64))
    assert from_roots_ref(7, [1, 2, 3]) == [(-6) % 7, 11 % 7, (-6) % 7, 1]


_selftest()


# ---------------------------------------------------------------- moduli and coefficients

BITS = [2, 3, 8, 31, 32, 33, 63, 64, 65, 127, 128, 129, 150, 151, 192, 193, 245, 246, 256, 257, 280, 281, 310, 311,
        320, 321, 384, 385, 448, 449, 499, 500]
BOUNDARY = [150, 151, 245, 246, 280, 281, 310, 311, 500]


def modulus(rng, bits):
    if bits <= 2:
        return 3
    style = rng.randrange(4)
    s = rng.choice([1, 3, 5, 9, 17, 59, 189, 257, rng.getrandbits(16) | 1])
    if style == 0:
        n = (1 << bits) - s
    elif style == 1:
        n = (1 << (bits - 1)) + s
    elif style == 2:
        n = (1 << bits) - 1
    else:
        n = rng.getrandbits(bits) | (1 << (bits - 1)) | 1
    n |= 1
    if n.bit_length() != bits or n < 3:
        n = (1 << (bits - 1)) | 1
    return n


def coeffs(rng, n, length, kind=None):
    kind = kind or rng.choice(["rand", "rand", "max", "one", "mix", "sparse", "near"])
    if kind == "rand":
        return [rng.randrange(n) for _ in range(length)]
    if kind == "max":
        return [n - 1] * length
    if kind == "one":
        return [1] * length
    if kind == "mix":
        return [rng.choice([0, 1, n - 1, n - 2 if n > 2 else 0, rng.randrange(n)]) for _ in range(length)]
    if kind == "near":
        return [(n - 1 - rng.getrandbits(3)) % n for _ in range(length)]
    return [rng.randrange(n) if rng.randrange(6) == 0 else 0 for _ in range(length)]


# dispatch table of convolve_modn, hand-copied for GENERATION and CLASSIFICATION only (the model uses the translated one)
TABLE = [(150, 8192, 16, 1, 5), (500, 4096, 16, 0, 0), (310, 16384, 32, 1, 10), (280, 65536, 64, 2, 9),
         (512, 32768, 64, 1, 17), (245, 262144, 128, 3, 8), (512, 131072, 128, 2, 17), (512, 524288, 256, 3, 17)]


def _table_from_source():
    """class boundaries for GENERATION follow the dispatch table of the tree being checked, so that a
    moved boundary is probed on both sides (the hand copy above is only the fallback)"""
    import os, re
    try:
        src = open(os.path.join(os.environ.get("YMQ_REPO", "/repo"), "src/arith_fft.rs")).read()
        body = src[src.index("let (fsize, logpack, stride) = match (zn.n.bits(), size)"):]
        body = body[:body.index("};")]
        rows = []
        for line in body.splitlines():
            line = line.strip()
            m = re.match(r"\(0\.\.=(\d+), 0\.\.=(\d+)\) => \((\d+), (\d+), (\d+)\),", line)
            if m:
                b, sz, f, lp, st = map(int, m.groups())
                rows.append((b, sz, f // 64, lp, st))
        return rows or None
    except Exception:
        return None


TABLE = _table_from_source() or TABLE


def arm_of(bits, size):
    for i, (b, s, N, lp, st) in enumerate(TABLE):
        if bits <= b and size <= s:
            return i, N, lp, st
    return None


def lengths_for(rng, size):
    c = [1, 2, size // 2, size // 2 + 1, size - 1, size, max(1, size // 2 - 1), 19, 20, 21, 27, 28, 29]
    c = [x for x in c if 1 <= x <= size]
    return rng.choice(c), rng.choice(c + [rng.randrange(1, size + 1)])


def window(rng, size, A):
    off = rng.choice([0, 0, 1, max(A - 1, 0), A, size // 2, size - 1, rng.randrange(size)])
    off = min(off, size - 1)
    reslen = rng.choice([size - off, size - off, 1, max(1, (size - off) // 2), rng.randrange(1, size - off + 1)])
    return off, reslen


def sample_idx(rng, reslen, A, count=24):
    s = set(range(min(reslen, 2 * A + 2))) | set(range(max(0, reslen - A - 2), reslen))
    s |= {reslen // 2, reslen // 2 - 1 if reslen > 1 else 0}
    while len(s) < count + 4 * A and len(s) < reslen:
        s.add(rng.randrange(reslen))
    return sorted(s)


def convolve_cases(rng, tier, extended):
    scale = 1 if tier == "quick" else 6
    if extended:
        scale *= 4
    out = []
    # explicit operands, K + O
    plan = [(2, 50), (4, 50), (8, 70), (16, 70), (32, 50), (64, 30), (128, 16), (256, 10), (512, 6), (1024, 3), (2048, 2), (4096, 1)]
    for size, cnt in plan:
        for c in range(cnt * scale):
            bits = rng.choice(BOUNDARY) if c % 3 == 0 else (rng.choice([x for x in BITS if x <= 150]) if c % 3 == 1 else rng.choice(BITS))
            n = modulus(rng, bits)
            arm = arm_of(bits, size)
            A = 1 << arm[2]
            lp, lq = lengths_for(rng, size)
            kind = rng.choice(["rand", "max", "mix", "sparse", "near", "one"])
            p, q = coeffs(rng, n, lp, kind), coeffs(rng, n, lq, kind if rng.randrange(2) else None)
            off, reslen = window(rng, size, A)
            args = f"{n} {size} {off} {reslen} {fmt(p)} {fmt(q)}"
            heavy = size >= 1024
            out.append(Case("pf_convolve " + args, k=True, o=True))
            if not heavy or c == 0:
                out.append(Case("pf_kron " + args, k=True, o=True))
            logsize = size.bit_length() - 1
            logk = logsize + rng.choice([0, 0, 1, 3])
            out.append(Case(f"pf_convolve_ntt {n} {logk} {size} {off} {reslen} {fmt(p)} {fmt(q)}", k=not heavy or c == 0, o=True))
    # every row of the table at small sizes through the hook (the modulus at the row's limit)
    for (b, smax, N, lpk, st) in TABLE:
        if st == 0:
            continue
        A = 1 << lpk
        for c in range(12 * scale):
            size = A << rng.randrange(0, 4)
            bits = min(b, 500) if c % 2 == 0 else rng.choice([x for x in BITS if x <= min(b, 500)])
            n = modulus(rng, bits)
            lp, lq = lengths_for(rng, size)
            p, q = coeffs(rng, n, lp, rng.choice(["max", "rand", "near"])), coeffs(rng, n, lq, rng.choice(["max", "rand"]))
            off, reslen = window(rng, size, A)
            out.append(Case(f"pf_kron_raw {N} {lpk} {st} {n} {size} {off} {reslen} {fmt(p)} {fmt(q)}", k=True, o=True))
    # large sizes, generated operands, sampled output indices (O only)
    big = [(100, 8192), (150, 8192), (151, 8192), (310, 16384), (500, 8192), (280, 32768), (500, 32768), (280, 65536), (500, 65536)]
    # the limit modulus of every packed row of the table of the tree being checked, at its largest quick-affordable sizes
    for (b, smax, N, lpk, st) in TABLE:
        if st and b < 500:
            for size in (min(smax, 65536), min(smax, 65536) // 2):
                if (b, size) not in big and arm_of(b, size) is not None:
                    big.append((b, size))
    if tier != "quick":
        big += [(281, 65536), (245, 131072), (246, 131072), (245, 262144), (500, 262144), (500, 524288),
                (64, 524288)]
    for bits, size in big:
        n = modulus(rng, bits)
        arm = arm_of(bits, size)
        A = 1 << arm[2]
        # three shapes: (a) dense x dense without wrap-around (|p| + |q| <= size + 1): EVERY coefficient is judged through the
        # checksum Σ c_i x^i = p(x) q(x) mod n at a random point; (b) dense x sparse with wrap-around: the oracle computes the
        # full cyclic product exactly and judges every coefficient through the checksum; (c) dense x dense with wrap-around:
        # boundary + sampled indices only (no quadratic oracle at this size)
        shapes = [("nowrap", "r", "r"), ("sparse", "m", "t"), ("wrap", "m", "r")]
        if tier != "quick" or size <= 8192:
            shapes += [("nowrap", "m", "m"), ("sparse", "r", "t")]
        for shape, k1, k2 in shapes:
            if shape == "sparse" and size > 262144:
                continue
            if shape == "nowrap":
                lp = rng.choice([size // 2, size // 2 + 1, size - 5])
                lq = size + 1 - lp
            elif shape == "sparse":
                lp, lq = rng.choice([size, size - 1]), rng.choice([size, size // 2 + 3])
            else:
                lp, lq = rng.choice([size, size - 1, size // 2 + 1]), rng.choice([size, size // 2 + 3])
            off = 0 if shape != "wrap" else rng.choice([0, 0, A - 1, 1])
            reslen = size - off
            idx = sample_idx(rng, reslen, A)
            x = rng.randrange(2, n)
            tail = fmt(idx) + (f" {x}" if shape != "wrap" else "")
            ops = f"g:{lp}:{rng.getrandbits(32)}:{k1} g:{lq}:{rng.getrandbits(32)}:{k2} {tail}"
            to = 200.0 if size >= 131072 else 60.0
            out.append(Case(f"pf_convolve {n} {size} {off} {reslen} {ops}", k=False, o=True, timeout=to,
                            profiles=None if size <= 32768 else ["release"]))
            if size <= 65536:
                logsize = size.bit_length() - 1
                out.append(Case(f"pf_convolve_ntt {n} {logsize} {size} {off} {reslen} {ops}", k=False, o=True, timeout=to,
                                profiles=None if size <= 16384 else ["release"]))
    if extended:
        # boundary sweep (run when a proof or the translator broke): every bit length around each threshold of the table,
        # maximal coefficients, sizes around the size thresholds: a moved threshold shows up as overlapping digits
        for bnd in sorted({b for (b, _, _, _, st) in TABLE if st} | {150, 245, 280, 310, 500}):
            for bits in range(bnd - 14, min(bnd + 15, 513)):
                n = (1 << bits) - rng.choice([1, 3, 5])
                for size in (16, 4096, 8192, 16384, 32768):
                    if arm_of(bits, size) is None or bits > 500:
                        continue
                    A = 1 << arm_of(bits, size)[2]
                    idx = sample_idx(rng, size, A, count=8)
                    out.append(Case(f"pf_convolve {n} {size} 0 {size} g:{size}:{rng.getrandbits(32)}:m g:{size}:{rng.getrandbits(32)}:m {fmt(idx)}",
                                    k=False, o=True, timeout=120.0, profiles=["release"]))
    # sizes the table refuses: the mechanism model (with the translated table) must predict the panic
    n = modulus(rng, 500)
    out.append(Case(f"pf_kron {n} 1048576 0 1 1 1", k=True, o=False))
    n = modulus(rng, 64)
    out.append(Case(f"pf_kron {n} 1048576 0 1 1 1", k=True, o=False))
    return out


# ---------------------------------------------------------------- Poly entry points

def kara_ok(lp, lq, zlen, tmplen):
    """Does Poly::karatsuba(z, p, q, tmp) stay inside its slices (|z| = zlen, |tmp| = tmplen)?
    Mirrors the slice arithmetic of the routine after commit 5b13664 (unbalanced operands fall back to the
    schoolbook product); used to pick buffer sizes for the raw op and to classify, not to avoid lengths."""
    if lp == 0 or lq == 0:
        return False
    half = (max(lp, lq) + 1) // 2
    if (lp <= 20 and lq <= 20) or lp <= half or lq <= half:
        return lp + lq - 1 <= zlen
    if zlen < lp + lq or tmplen < 4 * half or zlen < 3 * half:
        return False
    return (kara_ok(half, half, 2 * half, zlen) and kara_ok(half, half, 2 * half, tmplen - 2 * half)
            and kara_ok(lp - half, lq - half, zlen - 2 * half, tmplen - 2 * half))


POLY_LENS = [1, 2, 3, 4, 5, 7, 8, 9, 15, 16, 17, 19, 20, 21, 27, 28, 29, 31, 32, 33, 39, 40, 41, 42, 43, 55, 56, 57, 63, 64, 65,
             79, 80, 81, 82, 100, 127, 128, 129, 160, 161, 200, 255, 256, 257]


def poly_modulus(rng):
    return modulus(rng, rng.choice(BITS if rng.randrange(3) else BOUNDARY))


def ring_for(rng, need):
    """ring sizes: none (Karatsuba everywhere), just enough, generous"""
    return rng.choice([1, need, need, 2 * need, max(need, 28)])


def poly_cases(rng, tier, extended):
    scale = 1 if tier == "quick" else 8
    if extended:
        scale *= 4
    out = []
    lens = POLY_LENS + ([300, 511, 512, 513, 640, 1000, 1023, 1024, 1025] if tier != "quick" else [])
    for L in lens:
        reps = (5 if L <= 64 else 2) * scale
        for _ in range(reps):
            n = poly_modulus(rng)
            kind = rng.choice(["rand", "max", "mix", "near"])
            # Karatsuba: equal lengths and EVERY unbalanced shape 1 <= |q| <= |p| (the buffers of mul_karatsuba are
            # sized by |p|); the shapes that panicked before commit 5b13664 (e.g. 64 x 40) included
            p = coeffs(rng, n, L, kind)
            lq = L
            if rng.randrange(3) == 0:
                lq = rng.choice([1, 2, max(1, L // 2 - 1), max(1, L // 2), L // 2 + 1, max(1, L - 1), rng.randrange(1, L + 1)])
            q = coeffs(rng, n, lq, kind)
            out.append(Case(f"pf_mul_karatsuba {n} {fmt(p)} {fmt(q)}"))
            out.append(Case(f"pf_mul_basic {n} {fmt(p[:20])} {fmt(coeffs(rng, n, rng.randrange(1, min(len(p[:20]), 20) + 1)))}"))
            # the recursion with |p| < |q| and other unequal pairs, through the hook (buffers large enough)
            la, lb = rng.choice([(L, L + 1), (L, L + 2), (max(1, L - 2), L), (L, 2 * L - 1), (max(1, L // 2 + 1), L),
                                 (rng.randrange(1, L + 1), L), (L, rng.randrange(1, L + 1))])
            pa, qb = coeffs(rng, n, la, kind), coeffs(rng, n, lb, kind)
            out.append(Case(f"pf_karatsuba_raw {n} {la + lb} {3 * max(la, lb) + rng.choice([0, 1, 7])} {fmt(pa)} {fmt(qb)}"))
            if L > 20 and rng.randrange(4) == 0:
                # |q| > |p|: z (2|p| entries) is too short for the wrapper: the model predicts the checked profile
                out.append(Case(f"pf_mul_karatsuba {n} {fmt(p)} {fmt(coeffs(rng, n, L + rng.randrange(1, L + 1)))}",
                                o=False, profiles=["chk"]))
            # FFT product
            lq = rng.choice([L, L, max(1, L - 1), max(1, L // 2), 1])
            if L == 1:
                lq = rng.choice([2, 3])              # a transform of size 1 is outside the domain of convolve_modn_ntt
            q = coeffs(rng, n, lq)
            out.append(Case(f"pf_mul_fft {n} {max(L, lq, 28)} {fmt(p)} {fmt(q)}"))
            # _longmul as used by the trees: equal lengths, ring with / without NTT
            q = coeffs(rng, n, L)
            out.append(Case(f"pf_longmul {n} {rng.choice([1, L, 2 * L])} {fmt(p)} {fmt(q)}"))
            # middle product: |q| = L, |p| = 2L - 1
            pp = coeffs(rng, n, 2 * L - 1, kind)
            out.append(Case(f"pf_middlemul {n} {rng.choice([1, L, 2 * L, max(28, L)])} {fmt(pp)} {fmt(q)}"))
            # power series quotient / inverse
            g = small_factor(n)
            style = rng.randrange(6)
            qq = coeffs(rng, n, L, "rand")
            if style == 0:
                qq[0] = 1
            elif style == 1:
                qq[0] = n - 1
            elif style == 2 and g:
                qq[0] = g * rng.randrange(1, n // g)          # not invertible: the call must panic (unwrap of None)
            else:
                qq[0] = unit(rng, n)
            pq = coeffs(rng, n, L, kind)
            if rng.randrange(3) == 0:
                pq[0] = 1
            ring = rng.choice([1, L, 2 * L, max(28, L)])
            out.append(Case(f"pf_div_mod_xn {n} {ring} {fmt(pq)} {fmt(qq)}"))
            out.append(Case(f"pf_inv_mod_xn {n} {ring} {fmt(qq)}"))
            # product of linear factors
            roots = coeffs(rng, n, L, rng.choice(["rand", "mix", "near", "one"]))
            out.append(Case(f"pf_from_roots {n} {rng.choice([1, L, 2 * L, max(28, L)])} {fmt(roots)}"))
    # multipoint evaluation: roots_eval(a, b), |a| below / at / above the tree size of b, several chunks
    shapes = [(1, 1), (1, 3), (3, 1), (2, 2), (3, 4), (4, 4), (5, 4), (7, 8), (8, 8), (9, 8), (17, 8), (24, 8), (25, 8), (5, 13),
              (13, 13), (16, 13), (40, 13), (27, 28), (28, 28), (29, 28), (31, 32), (32, 32), (33, 32), (64, 32), (65, 32),
              (100, 33), (20, 64), (63, 64), (64, 64), (128, 64), (129, 64), (200, 100), (100, 200), (300, 128)]
    shapes += [(la, lb) for la in (32, 40, 64, 100) for lb in (17, 20, 21, 27)]
    if tier != "quick":
        shapes += [(255, 256), (256, 256), (257, 256), (1024, 256), (1500, 500), (512, 1024), (2048, 1024), (4097, 1024)]
    for la, lb in shapes:
        for _ in range(2 * scale if lb <= 64 else 1):
            n = poly_modulus(rng)
            a = coeffs(rng, n, la, rng.choice(["rand", "mix", "near"]))
            b = coeffs(rng, n, lb, rng.choice(["rand", "mix", "near"]))
            if rng.randrange(4) == 0 and la and lb:
                b[rng.randrange(lb)] = a[rng.randrange(la)]          # a common root: value 0
            out.append(Case(f"pf_roots_eval {n} {fmt(a)} {fmt(b)}"))
    # Poly::multi_eval(p, pts): every shape; before commit 6f9ca4a a short last chunk was evaluated on a tree smaller
    # than deg p (wrong values / index panic when there are more points than coefficients)
    me_shapes = [(1, 1), (2, 1), (2, 2), (3, 3), (5, 3), (4, 4), (4, 5), (3, 13), (5, 4), (5, 5), (5, 8), (5, 9), (8, 8), (9, 8),
                 (9, 9), (9, 17), (9, 40), (16, 16), (17, 16), (17, 17), (17, 33), (17, 70), (30, 32), (33, 32), (33, 100),
                 (64, 64), (65, 64), (65, 65), (65, 300)]
    for _ in range(60 * scale):
        lp = rng.choice([1, 2, 3, 4, 5, 7, 8, 9, 15, 16, 17, 27, 28, 29, 31, 32, 33, 40, 63, 64, 65, rng.randrange(1, 90)])
        lpts = max(1, rng.choice([lp - 1, lp, lp + 1, 2 * lp, 2 * lp + 1, 3 * lp + 2, rng.randrange(1, 200), rng.randrange(1, 200)]))
        me_shapes.append((lp, lpts))
    for lp, lpts in me_shapes:
        n = poly_modulus(rng)
        p = coeffs(rng, n, lp)
        pts = coeffs(rng, n, lpts, rng.choice(["rand", "mix"]))
        out.append(Case(f"pf_multi_eval {n} {rng.choice([1, max(lp, lpts), 2 * max(lp, lpts)])} {fmt(p)} {fmt(pts)}"))
    return out


def small_factor(n):
    for g in (3, 5, 7, 11, 13, 17):
        if n % g == 0 and n > g:
            return g
    return None


def unit(rng, n):
    while True:
        u = rng.randrange(1, n)
        if math.gcd(u, n) == 1:
            return u


# ---------------------------------------------------------------- FInt

FINT_N = [1, 2, 3, 4, 8, 16, 16, 16, 32, 64, 128, 256]


def words(rng, N, style=None):
    style = style or rng.choice(["rand", "zero", "ones", "single", "low", "high", "mixed", "mixed", "ripple", "lowzero"])
    if style == "rand":
        return [rng.getrandbits(64) for _ in range(N)]
    if style == "zero":
        return [0] * N
    if style == "ones":
        return [M64] * N
    if style == "single":
        w = [0] * N
        w[rng.randrange(N)] = rng.choice([1, 1 << 63, M64, rng.getrandbits(64)])
        return w
    if style == "low":
        return [rng.choice([1, 2, 3, M64, rng.getrandbits(64)])] + [0] * (N - 1)
    if style == "high":
        return [0] * (N - 1) + [rng.choice([1, 1 << 63, M64, rng.getrandbits(64)])]
    if style == "ripple":
        return [rng.choice([0, M64, M64 - 1, 1])] + [rng.choice([0, M64]) if rng.randrange(4) else rng.getrandbits(64) for _ in range(N - 1)]
    if style == "lowzero":
        z = rng.randrange(1, N + 1)
        return [0] * z + [rng.getrandbits(64) for _ in range(N - z)]
    return [rng.choice([0, 0, 1, M64, M64 - 1, 1 << 63, rng.getrandbits(64)]) for _ in range(N)]


def fint(rng, N):
    """normalised element"""
    if rng.randrange(12) == 0:
        return [0] * N + [1]
    return words(rng, N) + [0]


def fval(ws):
    """value of an encoded FInt (N words + top)"""
    N = len(ws) - 1
    return sum(w << (64 * i) for i, w in enumerate(ws[:N])) + (ws[N] << (64 * N))


def fenc(N, v):
    """canonical encoding of a residue 0 <= v <= 2^(64N)"""
    if v == 1 << (64 * N):
        return [0] * N + [1]
    return [(v >> (64 * i)) & M64 for i in range(N)] + [0]


def shift_amount(rng, N):
    c = rng.randrange(10)
    if c == 0:
        return rng.choice([0, 1, 63, 64, 65])
    if c == 1:
        return 64 * rng.randrange(0, 2 * N + 1)
    if c == 2:
        return 64 * N + rng.choice([-1, 0, 1, 63, 64])
    if c == 3:
        return 128 * N + rng.choice([-64, -1, 0, 1, 64, rng.randrange(128 * N)])
    if c == 4:
        return 64 * rng.randrange(N, 2 * N) + rng.randrange(64)
    if c == 5:
        return rng.choice([16 * N, 48 * N, 32 * N, 96 * N])
    return rng.randrange(128 * N)


def fint_cases(rng, tier, extended):
    scale = 1 if tier == "quick" else 10
    if extended:
        scale *= 5
    out = []
    for _ in range(5000 * scale):
        N = rng.choice(FINT_N)
        if N >= 64 and rng.randrange(3):
            N = rng.choice([1, 2, 3, 4, 8, 16])
        x, y = fint(rng, N), fint(rng, N)
        c = rng.randrange(17)
        if c == 0:
            top = rng.choice([0, 1, 2, 3, 4, rng.getrandbits(8), rng.getrandbits(64)])
            ws = words(rng, N, rng.choice(["low", "zero", "rand", "ripple", "ones", "lowzero"]))
            if rng.randrange(3) == 0:
                ws[0] = rng.randrange(0, top + 1) if top < 1000 else rng.getrandbits(64)
            out.append(Case(f"fint_reduce {N} {fmt(ws + [top])}"))
        elif c == 1:
            out.append(Case(f"fint_add {N} {fmt(x)} {fmt(y)}"))
        elif c == 2:
            out.append(Case(f"fint_sub {N} {fmt(x)} {fmt(y)}"))
        elif c == 3:
            xx = words(rng, N) + [rng.choice([0, 0, 1, 2, 3])]
            out.append(Case(f"fint_add_assign {N} {fmt(xx)} {fmt(y)}"))
        elif c == 4:
            xx = words(rng, N) + [rng.choice([0, 0, 1, 2, 3])]
            out.append(Case(f"fint_sub_assign {N} {fmt(xx)} {fmt(y)}"))
        elif c == 5:
            xx = words(rng, N, rng.choice(["ones", "ripple", "rand", "low"])) + [rng.choice([0, 1, 2])]
            out.append(Case(f"fint_add_small {N} {fmt(xx)} {rng.choice([0, 1, 2, M64, rng.getrandbits(64)])}"))
        elif c in (6, 7, 8, 9):
            out.append(Case(f"fint_shl {N} {fmt(x)} {shift_amount(rng, N)}"))
        elif c == 10:
            s = rng.choice([0, 1, 63, 64, 65, 64 * N, 128 * N, rng.randrange(128 * N + 1), rng.randrange(1, 24)])
            out.append(Case(f"fint_shr {N} {fmt(x)} {s}"))
        elif c in (11, 12):
            kmax = (256 * N).bit_length() - 1 if N & (N - 1) == 0 else (128 * N & -(128 * N)).bit_length() - 1
            k = rng.choice([kmax, kmax, max(kmax - 1, 0), rng.randrange(0, kmax + 1)])
            i = rng.choice([0, 1, (1 << k) - 1, 1 << k, rng.randrange((1 << k) + 1), rng.randrange((1 << k) + 1) | 1])
            i = min(i, 1 << k)
            out.append(Case(f"fint_twiddle {N} {fmt(x)} {i} {k}"))
        elif c == 13:
            out.append(Case(f"fint_butterfly {N} {fmt(x)} {fmt(y)}"))
        elif c in (14, 15):
            out.append(Case(f"fint_mul {N} {fmt(x)} {fmt(y)}"))
        else:
            # non-normalised operands: only the checked profile has a defined answer (debug_assert!(is_reduced))
            bad = words(rng, N, "rand") + [1]
            op = rng.choice(["fint_add", "fint_sub", "fint_mul", "fint_shl"])
            if op == "fint_shl":
                out.append(Case(f"{op} {N} {fmt(bad)} {shift_amount(rng, N)}", o=False, profiles=["chk"]))
            else:
                out.append(Case(f"{op} {N} {fmt(bad)} {fmt(y)}", o=False, profiles=["chk"]))
    # Karatsuba inside FInt::mul (N >= 32): operands whose half products start / end with all-ones words
    # (family of the lost-carry defect: x = -2 = all ones, y with word N/2 equal to 1)
    for _ in range(40 * scale):
        N = rng.choice([32, 32, 64, 128, 256])
        x = [M64] * N
        if rng.randrange(3) == 0:
            x = [rng.choice([M64, M64, M64, 0, rng.getrandbits(64)]) for _ in range(N)]
        y = [rng.choice([0, M64, 1, rng.getrandbits(64)]) for _ in range(N)]
        for h in (N // 2, N // 4, 3 * N // 4):
            if rng.randrange(2):
                y[h] = rng.choice([1, M64])
        if rng.randrange(2):
            x, y = y, x
        out.append(Case(f"fint_mul {N} {fmt(x + [0])} {fmt(y + [0])}"))
    # transforms
    for _ in range(60 * scale):
        N = rng.choice([1, 2, 4, 16])
        kmax = min((256 * N).bit_length() - 1, 6 if N > 1 else 8)
        k = rng.randrange(0, kmax + 1)
        if rng.randrange(4) == 0 and N <= 2:
            k = (256 * N).bit_length() - 1                      # full size: the sqrt(2) twiddles are used
        src = [fint(rng, N) for _ in range(1 << k)]
        fwd = rng.choice(["true", "false"])
        out.append(Case(f"fint_fft {N} {k} {fwd} {'/'.join(fmt(s) for s in src)}"))
        a = [fint(rng, N) for _ in range(1 << k)]
        out.append(Case(f"fint_mulfft {N} {'/'.join(fmt(s) for s in src)} {'/'.join(fmt(s) for s in a)}"))
    return out


# ---------------------------------------------------------------- MultiZmodP

PRIMES = None


def ntt_primes():
    """the prime table, read from the translated Lean file (regenerated from the source on every run)"""
    global PRIMES
    if PRIMES is None:
        import re, os
        src = open(os.path.join(os.path.dirname(os.path.dirname(os.path.abspath(__file__))), "lean/Ymq/Gen/Params.lean")).read()
        blk = src.split("def NTT_PRIMES")[1].split("]")[0]
        PRIMES = [int(a) for a, _ in re.findall(r"\((\d+), (\d+)\)", blk)]
        global GENS
        GENS = [int(g) for _, g in re.findall(r"\((\d+), (\d+)\)", blk)]
    return PRIMES


GENS = None


def ntt_gens():
    ntt_primes()
    return GENS


def bitrev(k, i):
    r = 0
    for _ in range(k):
        r = (r << 1) | (i & 1)
        i >>= 1
    return r


def mzp_w(n, logk):
    return (2 * n.bit_length() + logk) // 58 + 1


def mzp_cases(rng, tier, extended):
    scale = 2 if tier == "quick" else 12
    if extended:
        scale *= 5
    out = []
    for bits in BITS:
        for _ in range(scale):
            n = modulus(rng, bits)
            logk = rng.choice([1, 2, 3, 5, 8, 10, 12, 13])
            out.append(Case(f"mzp_new {n} {logk}"))
            w = mzp_w(n, logk)
            ps = ntt_primes()[:w]
            P = math.prod(ps)
            kw = (bits + 63) // 64
            for _ in range(8):
                x = rng.choice([0, 1, n - 1, rng.randrange(n), rng.randrange(n)])
                out.append(Case(f"mzp_from_mint {n} {logk} {x}"))
            bound = (n - 1) ** 2 << logk
            for j in range(14):
                c = rng.randrange(9)
                o = True
                if c == 0:
                    V = rng.choice([0, 1, 2, n, n - 1])
                elif c == 1:
                    V = bound
                elif c == 2:
                    V = bound - rng.getrandbits(8) if bound > 256 else bound
                elif c in (3, 4):
                    V = rng.randrange(bound + 1)
                elif c == 5:
                    V = rng.randrange(P // 2)
                elif c == 6:
                    V = P // 2 - 1 - rng.getrandbits(4)
                elif c == 7:
                    V = rng.choice([p for p in ps]) * rng.randrange(1, 1000)      # some residue is zero
                else:
                    V = rng.randrange(P // 2, P)                                   # above the documented range: compared only
                    o = False
                V = max(0, min(V, P - 1))
                xs = [V * W % p for p in ps]
                out.append(Case(f"mzp_redc {n} {logk} {fmt(xs)}", o=o))
                if j % 3 == 0:
                    out.append(Case(f"mzp_crt {n} {logk} {fmt(xs)}", o=o))
            if logk <= 8:
                # the root tables and the in-place transform (word-level model; O: per-prime DFT in Python)
                for log in sorted({0, 1, min(2, logk), logk}):
                    out.append(Case(f"mzp_roots {n} {logk} {log}"))
                for k in sorted({1, min(2, logk), min(logk, 5)}):
                    for fwd in ("true", "false"):
                        v = []
                        for i in range(1 << k):
                            for p in ps:
                                v.append(rng.choice([0, 1, p - 1, rng.randrange(p), rng.randrange(p), rng.randrange(p)]))
                        out.append(Case(f"mzp_ntt {n} {logk} {k} {fwd} {fmt(v)}"))
    return out


# ops with a `pfm_` twin (same call of the real code, raw Montgomery-form residues in and out; the driver answers
# with the SAME models run with montOps): positions of the residue-list arguments
PFM_TWINS = {"pf_mul_karatsuba": (1, 2), "pf_mul_fft": (2, 3), "pf_longmul": (2, 3), "pf_middlemul": (2, 3),
             "pf_div_mod_xn": (2, 3), "pf_inv_mod_xn": (2,), "pf_from_roots": (2,), "pf_roots_eval": (1, 2),
             "pf_multi_eval": (2, 3)}


def pfm_twins(rng, cases_):
    """K-only twins of the arith_poly cases with explicit operands: residues converted to Montgomery form"""
    for c in cases_:
        yield c
        f = c.line.split(" ")
        pos = PFM_TWINS.get(f[0])
        if pos is None or not c.k or "g:" in c.line or rng.randrange(3):
            continue
        n = int(f[1])
        if n % 2 == 0 or n < 3:
            continue
        R = 1 << (64 * ((n.bit_length() + 63) // 64))
        for i in pos:
            if f[i + 1] != "-":
                f[i + 1] = ",".join(str(int(x) * R % n) for x in f[i + 1].split(","))
        yield Case("pfm_" + f[0][3:] + " " + " ".join(f[1:]), k=True, o=False, profiles=c.profiles, timeout=c.timeout)


def cases(tier, rng, extended=False):
    yield from convolve_cases(rng, tier, extended)
    yield from pfm_twins(rng, poly_cases(rng, tier, extended))
    yield from fint_cases(rng, tier, extended)
    yield from mzp_cases(rng, tier, extended)


def corpus_case(line):
    if line.startswith("!chk "):
        return Case(line[5:], o=False, profiles=["chk"])
    if line.startswith("!noo "):
        return Case(line[5:], o=False)
    if line.startswith("!nok "):
        return Case(line[5:], k=False)
    return Case(line)


# ---------------------------------------------------------------- oracle

def _cmp(got, want, what):
    if got is None:
        return f"{what}: no value returned"
    if got != want:
        bad = [i for i in range(min(len(got), len(want))) if got[i] != want[i]]
        return f"{what}: {'length %d != %d' % (len(got), len(want)) if len(got) != len(want) else 'wrong at indices %s' % bad[:8]}"
    return None


def oracle(case, ans):
    op, a = case.op, case.args
    if op.startswith("fint_"):
        return fint_oracle(op, a, ans)
    if op.startswith("mzp_"):
        return mzp_oracle(op, a, ans)
    n = int(a[0])
    if op in ("pf_convolve", "pf_kron", "pf_convolve_ntt", "pf_kron_raw"):
        if op == "pf_convolve_ntt":
            a = a[:1] + a[2:]
        if op == "pf_kron_raw":
            n = int(a[3])
            a = a[3:]
        size, off, reslen = int(a[1]), int(a[2]), int(a[3])
        p, q = parse_poly(n, a[4]), parse_poly(n, a[5])
        chk = None
        if " chk=" in ans:
            ans, chk = ans.split(" chk=")
        got = parse_ans(ans)
        if len(a) > 6:
            idx = [int(x) for x in a[6].split(",")]
            want = [cyc_coef_ref(n, size, p, q, off + i) if off + i < size else 0 for i in idx]
            msg = _cmp(got, want, "cyclic convolution (sampled indices %s...)" % idx[:4])
            if msg or len(a) <= 7:
                return msg
            # checksum over EVERY coefficient (offset 0, full window)
            x = int(a[7])
            if chk is None or off != 0 or reslen != size:
                return "checksum missing"
            if len(p) + len(q) - 1 <= size:
                wantchk = eval_ref(n, p, x) * eval_ref(n, q, x) % n          # no wrap-around: c(x) = p(x) q(x)
            else:
                # one operand is sparse: exact cyclic product in O(nnz * size)
                sp, de = (q, p) if sum(1 for c in q if c) <= sum(1 for c in p if c) else (p, q)
                de = de + [0] * (size - len(de))
                full = [0] * size
                for b_, qb in enumerate(sp):
                    if qb:
                        rot = de[size - b_:] + de[:size - b_]            # rot[k] = de[(k - b_) mod size]
                        full = [f + r * qb for f, r in zip(full, rot)]
                if any(full[off + i] % n != got[j] for j, i in enumerate(idx)):
                    return "oracle self-check failed (sparse product)"
                wantchk = eval_ref(n, [c % n for c in full], x)
            return None if int(chk) == wantchk else "cyclic convolution: checksum over all coefficients differs"
        full = cyc_ref(n, size, p, q)
        want = [(full[off + i] if off + i < size else 0) for i in range(reslen)]
        # literal schoolbook sums on a few indices, independent of the fast multiplication used above
        for i in (0, reslen - 1, reslen // 2):
            if off + i < size and cyc_coef_ref(n, size, p, q, off + i) != want[i]:
                return "oracle self-check failed"
        return _cmp(got, want, "cyclic convolution")
    got = parse_ans(ans)
    if op in ("pf_mul_karatsuba", "pf_mul_basic"):
        p, q = parse_poly(n, a[1]), parse_poly(n, a[2])
        want = mul_ref(n, p, q)
        return _cmp(got, want + [0] * (2 * len(p) - len(want)), "product")
    if op == "pf_karatsuba_raw":
        zlen = int(a[1])
        p, q = parse_poly(n, a[3]), parse_poly(n, a[4])
        want = mul_ref(n, p, q)
        return _cmp(got, want + [0] * (zlen - len(want)), "product")
    if op == "pf_mul_fft":
        p, q = parse_poly(n, a[2]), parse_poly(n, a[3])
        return _cmp(got, mul_ref(n, p, q), "product")
    if op == "pf_longmul":
        p, q = parse_poly(n, a[2]), parse_poly(n, a[3])
        return _cmp(got, mul_ref(n, p, q) + [0], "product")
    if op == "pf_middlemul":
        p, q = parse_poly(n, a[2]), parse_poly(n, a[3])
        m = len(q)
        return _cmp(got, mul_ref(n, p, q)[m - 1:2 * m - 1], "middle product")
    if op in ("pf_div_mod_xn", "pf_inv_mod_xn"):
        if op == "pf_inv_mod_xn":
            q = parse_poly(n, a[2])
            p = [1 % n] + [0] * (len(q) - 1)
        else:
            p, q = parse_poly(n, a[2]), parse_poly(n, a[3])
        if math.gcd(q[0], n) != 1:
            return None if ans == "panic" else "constant term not invertible: the call must fail"
        if got is None or len(got) != len(p):
            return f"series: no value / wrong length ({ans[:40]})"
        if any(c >= n for c in got):
            return "series: coefficient not reduced"
        back = mul_ref(n, q, got)[:len(p)]
        return None if back == p else "series: q * z != p mod (x^len, n) at " + str([i for i in range(len(p)) if back[i] != p[i]][:8])
    if op == "pf_from_roots":
        roots = parse_poly(n, a[2])
        return _cmp(got, from_roots_ref(n, roots), "product of linear factors")
    if op == "pf_roots_eval":
        ra, rb = parse_poly(n, a[1]), parse_poly(n, a[2])
        want = []
        for x in rb:
            v = 1 % n
            for r in ra:
                v = v * (x - r) % n
            want.append(v)
        return _cmp(got, want, "values of prod(x - a_i)")
    if op == "pf_multi_eval":
        p, pts = parse_poly(n, a[2]), parse_poly(n, a[3])
        return _cmp(got, [eval_ref(n, p, x) for x in pts], "values of p")
    if op == "pf_eval":
        p = parse_poly(n, a[1])
        return None if ans == str(eval_ref(n, p, int(a[2]))) else "value of p"
    return "unknown op"


def fint_oracle(op, a, ans):
    N = int(a[0])
    F = (1 << (64 * N)) + 1

    def dec(s):
        return [int(x) for x in s.split(",")]

    def check(ansl, want, what):
        if ansl is None:
            return f"{what}: no value returned ({ans[:30]})"
        return None if ansl == fenc(N, want % F) else f"{what}: got value {fval(ansl) % F} (top {ansl[-1]}), want {want % F}, or not normalised"
    if op in ("fint_fft", "fint_mulfft"):
        if ans in ("panic", "abort", "hang", "?"):
            return f"no value returned ({ans})"
        res = [dec(s) for s in ans.split("/")]
        if op == "fint_mulfft":
            xs = [fval(dec(s)) for s in a[1].split("/")]
            ys = [fval(dec(s)) for s in a[2].split("/")]
            L = len(xs)
            want = [sum(xs[i] * ys[(k - i) % L] for i in range(L)) % F for k in range(L)]
        else:
            k, fwd = int(a[1]), a[2] == "true"
            xs = [fval(dec(s)) for s in a[3].split("/")]
            L = 1 << k
            r2 = (pow(2, 48 * N, F) - pow(2, 16 * N, F)) % F
            if (256 * N) % L:
                return None
            om = pow(r2, 256 * N // L, F)
            if not fwd:
                om = pow(om, -1, F)
            want = [sum(xs[i] * pow(om, i * j, F) for i in range(L)) % F for j in range(L)]
            if not fwd:
                inv = pow(L, -1, F)
                want = [v * inv % F for v in want]
        return None if res == [fenc(N, v) for v in want] else "transform: wrong value or not normalised"
    x = dec(a[1])
    ansl = None
    if ans not in ("panic", "abort", "hang", "?"):
        ansl = [dec(s) for s in ans.split(" ")]
    vx = fval(x)
    if op == "fint_reduce":
        return check(ansl and ansl[0], vx, "reduce")
    if op == "fint_add_small":
        if ansl is None:
            return "add_small: no value"
        return None if fval(ansl[0]) == vx + int(a[2]) else "add_small: value"
    if op in ("fint_shl", "fint_shr"):
        s = int(a[2])
        if op == "fint_shl":
            return check(ansl and ansl[0], vx * pow(2, s, F), "shl")
        return check(ansl and ansl[0], vx * pow(pow(2, s, F), -1, F), "shr")
    if op == "fint_twiddle":
        i, k = int(a[2]), int(a[3])
        if k == 0:
            return check(ansl and ansl[0], vx, "twiddle")
        if (256 * N) % (1 << k):
            return None
        r2 = (pow(2, 48 * N, F) - pow(2, 16 * N, F)) % F
        if r2 * r2 % F != 2:
            return "oracle: sqrt(2) identity"
        om = pow(r2, 256 * N >> k, F)
        return check(ansl and ansl[0], vx * pow(om, i, F), "twiddle")
    vy = fval(dec(a[2]))
    if op in ("fint_add", "fint_add_assign"):
        return check(ansl and ansl[0], vx + vy, "add")
    if op in ("fint_sub", "fint_sub_assign"):
        return check(ansl and ansl[0], vx - vy, "sub")
    if op == "fint_mul":
        return check(ansl and ansl[0], vx * vy, "mul")
    if op == "fint_butterfly":
        if ansl is None or len(ansl) != 2:
            return "butterfly: no value"
        return check(ansl[0], vx + vy, "butterfly.add") or check(ansl[1], vx - vy, "butterfly.sub")
    return "unknown op"


def mzp_oracle(op, a, ans):
    n, logk = int(a[0]), int(a[1])
    w = mzp_w(n, logk)
    ps = ntt_primes()[:w]
    P = math.prod(ps)
    kw = (n.bit_length() + 63) // 64
    R = 1 << (64 * kw)
    if ans in ("panic", "abort", "hang", "?"):
        return f"no value returned ({ans})"
    if op == "mzp_new":
        f = ans.split(" ")
        ww, k, plen = int(f[0]), int(f[1]), int(f[2])
        primes, pinv = [int(x) for x in f[3].split(",")], [int(x) for x in f[4].split(",")]
        pprod = int(f[5])
        crt_p, crt_pn, pps = ([int(x) for x in f[i].split(",")] for i in (6, 7, 8))
        rp = [[int(y) for y in x.split(":")] for x in f[9].split(",")]
        ok = (ww == w and k == logk and primes == ps and pprod == P and plen == (P.bit_length() + 63) // 64
              and P.bit_length() >= 2 * n.bit_length() + logk
              and crt_p == [P // p for p in ps] and crt_pn == [P // p % n for p in ps]
              and all(pinv[i] < ps[i] and pinv[i] * (P // ps[i]) % ps[i] == 1 for i in range(w))
              and pps == [(-j * P) % n for j in range(max(2, w))]
              and all(rp[i] == [pow(W, j + 1, ps[i]) for j in range(w + 2)] for i in range(w)))
        return None if ok else "tables of MultiZmodP::new"
    if op == "mzp_from_mint":
        x = int(a[2])
        return None if ans == fmt([x * W % p for p in ps]) else "residues != x*2^64 mod p_i"
    if op in ("mzp_roots", "mzp_ntt"):
        gs = ntt_gens()[:w]
        om = [pow(gs[i], 1 << (32 - logk), ps[i]) for i in range(w)]          # order 2^logk
        if op == "mzp_roots":
            log = int(a[2])
            half = (1 << log) // 2
            exp = []
            for idx in range(half):
                exp += [pow(om[i], idx << (logk - log), ps[i]) * W % ps[i] for i in range(w)]
            for idx in range(half):
                exp += [pow(om[i], -(idx << (logk - log)), ps[i]) * W % ps[i] for i in range(w)]
            return None if ans == fmt(exp) else "roots[log] != Montgomery forms of the powers of the root"
        k, fwd = int(a[2]), a[3] == "true"
        v = [int(x) for x in a[4].split(",")]
        size = 1 << k
        exp = [0] * (w * size)
        for i in range(w):
            p = ps[i]
            wk = pow(om[i], 1 << (logk - k), p)
            if not fwd:
                wk = pow(wk, -1, p)
            f = [v[w * bitrev(k, t) + i] for t in range(size)]
            sc = 1 if fwd else pow(size, -1, p)
            for j in range(size):
                exp[w * j + i] = sum(f[t] * pow(wk, t * j, p) for t in range(size)) * sc % p
        return None if ans == fmt(exp) else "ntt_inplace != DFT of the bit-reversed input"
    xs = [int(x) for x in a[2].split(",")]
    Winv = [pow(W, -1, p) for p in ps]
    V = sum((xs[i] * Winv[i] % ps[i]) * pow(P // ps[i], -1, ps[i]) % ps[i] * (P // ps[i]) for i in range(w)) % P
    if op == "mzp_redc":
        return None if ans == str(V * pow(R, -1, n) % n) else "redc(crt(x)) != V/R mod n"
    if op == "mzp_crt":
        ws = [int(x) for x in ans.split(",")]
        T = sum(x << (64 * i) for i, x in enumerate(ws))
        if w == 1:
            return None if T == V else "crt value"
        return None if (T - V) % n == 0 and T < n * R and len(ws) == kw + 1 else "crt: T != V mod n or T >= n*R"
    return "unknown op"


# ---------------------------------------------------------------- distribution

def size_class(x):
    if x <= 1:
        return "1"
    if x < 20:
        return "2-19"
    if x < 28:
        return "20-27"
    if x <= 64:
        return "28-64"
    if x <= 512:
        return "65-512"
    if x <= 4096:
        return "513-4096"
    return ">4096"


def klass(case, ans):
    op, a = case.op, case.args
    bad = "/" + ans if ans in ("panic", "abort", "hang", "?") else ""
    try:
        if op.startswith("fint_"):
            N = int(a[0])
            tag = ""
            if op in ("fint_shl",):
                s = int(a[2]) % (128 * N)
                sw = s // 64
                x = [int(w) for w in a[1].split(",")]
                br = "top1" if x[N] == 1 else ("s0" if s == 0 else ("sw0" if sw == 0 else ("low" if sw < N else ("neg" if sw == N else "high"))))
                if br == "low":
                    br += "-fast" if x[N - sw] != 0 and x[0] > 0 else "-carry"
                if br == "high":
                    br += "-fast" if x[0] != 0 and x[2 * N - sw] != M64 else "-carry"
                tag = f"/{br}/{'bits' if s % 64 else 'nobits'}"
            elif op == "fint_twiddle":
                k, i = int(a[3]), int(a[2])
                tag = "/half" if (i % 2 == 1 and (1 << k) == 256 * N) else "/plain"
            elif op == "fint_reduce":
                x = [int(w) for w in a[1].split(",")]
                tag = "/common" if x[0] >= x[N] else "/borrow"
            elif op in ("fint_fft", "fint_mulfft"):
                tag = "/k" + (a[1] if op == "fint_fft" else str(len(a[1].split("/")).bit_length() - 1))
            return f"{op}/N{N if N <= 16 else '>16'}{tag}{bad}"
        if op.startswith("mzp_"):
            n, logk = int(a[0]), int(a[1])
            w = mzp_w(n, logk)
            tag = ""
            if op in ("mzp_redc", "mzp_crt") and w >= 2:
                P = math.prod(ntt_primes()[:w])
                hi = P >> (64 * ((P.bit_length() + 63) // 64 - 1))
                tag = "/est0" if hi >= 1 << 56 else ("/est1" if hi >= 1 << 8 else "/est2")
            return f"{op}/w{w}{tag}{bad}"
        if op == "pf_kron_raw":
            return f"pf_kron_raw/N{a[0]}-A{1 << int(a[1])}-s{a[2]}/size{size_class(int(a[4]))}{bad}"
        n = int(a[0])
        bits = n.bit_length()
        if op in ("pf_convolve", "pf_kron", "pf_convolve_ntt"):
            size = int(a[2] if op == "pf_convolve_ntt" else a[1])
            off = int(a[3] if op == "pf_convolve_ntt" else a[2])
            if op == "pf_convolve_ntt":
                return f"{op}/w{mzp_w(n, int(a[1]))}/size{size_class(size)}/{'off0' if off == 0 else 'off+'}{bad}"
            arm = arm_of(bits, size)
            armtag = "none" if arm is None else f"arm{arm[0]}-A{1 << arm[2]}"
            return f"{op}/{armtag}/size{size_class(size)}/{'off0' if off == 0 else 'off+'}{bad}"
        if op == "pf_karatsuba_raw":
            lp, lq = a[3].count(",") + 1, a[4].count(",") + 1
            half = (max(lp, lq) + 1) // 2
            br = "basic" if (lp <= 20 and lq <= 20) else ("fallback" if lp <= half or lq <= half else "recursive")
            return f"{op}/{br}/{'lp<lq' if lp < lq else ('eq' if lp == lq else 'lp>lq')}/len{size_class(max(lp, lq))}{bad}"
        if op in ("pf_mul_karatsuba", "pf_mul_basic"):
            lp, lq = a[1].count(",") + 1, a[2].count(",") + 1
            return f"{op}/{'basic' if lp <= 20 and lq <= 20 else 'recursive'}/{'eq' if lp == lq else 'unbalanced'}/len{size_class(lp)}{bad}"
        if op == "pf_roots_eval":
            la, lb = a[1].count(",") + 1, a[2].count(",") + 1
            nn = 1 << max(lb - 1, 0).bit_length()
            return f"{op}/{'direct' if la < nn else 'chunks%d' % min(3, -(-la // nn))}/{'ntt' if lb >= 28 else 'kara'}/b{size_class(lb)}{bad}"
        ring = int(a[1])
        ln = a[-1].count(",") + 1
        tag = ""
        if op == "pf_middlemul":
            tag = "/pow2" if ln & (ln - 1) == 0 else ("/pow2+1" if (ln - 1) & (ln - 2) == 0 else "/other")
        elif op in ("pf_div_mod_xn", "pf_inv_mod_xn"):
            q0 = int(a[-1].split(",")[0])
            tag = "/q0=1" if q0 == 1 else ("/unit" if math.gcd(q0, n) == 1 else "/nonunit")
            if op == "pf_div_mod_xn" and a[2].split(",")[0] == "1":
                tag += "-p0=1"
            tag += "/odd" if ln % 2 else "/even"
        return f"{op}/{'ntt' if ring >= 28 else 'kara'}{tag}/len{size_class(ln)}{bad}"
    except Exception as e:   # classification must never break a run
        return f"{op}/unclassified"


def nontrivial(case, ans):
    return len(case.line) > 40


CLAIM = ("Lean theorems, for all inputs, about executable models of arith_fft.rs and arith_poly.rs that the driver runs against the code. "
         "(1) convolve_modn: for every modulus of 1..500 bits, every power-of-two size the dispatch table accepts (2..2^19), all operand "
         "lengths, coefficients and output windows, the composed model (dispatch table translated from the source, Kronecker packing, "
         "WORD-LEVEL Fermat transform product, digit extraction, redc_large, scatter with wrap-around) reaches no panic site and returns the "
         "Montgomery form of the schoolbook cyclic convolution (kronecker_cyclic_fft; kronecker_cyclic is the same over any transform "
         "product meeting ExactCyc, pack_unpack = no digit overlap / no wrap modulo F, dispatch_ok = every row meets the preconditions); "
         "the index formula of the pinned tree is refuted on a concrete instance (kronecker_old_index_drops_wrap, defect F11, fixed). "
         "(2) FInt<N> modulo 2^(64N)+1, word-exact, every N >= 1: reduce, add_assign, add_small, sub_assign, butterfly, shl, shr, twiddle, "
         "mul return the right residue in the code's normal form without reaching a panic site; the recursive fft equals the algebraic "
         "radix-2 recursion with the root sqrt2^(256N/2^k) (fft_spec, both directions) and mulfft is the cyclic convolution modulo F "
         "(mulfft_spec = dft_conv instantiated; mulfft_exact discharges ExactCyc for every N of the table); the Karatsuba routine inside "
         "FInt::mul is the exact 2N-word product with every carry and assert (fint_mul_karatsuba), so nothing below convolve_modn is "
         "assumed except exact ZmodN arithmetic (C07). (3) MultiZmodP: arithmetic statements only: the CRT quotient is unique and < w, "
         "the assembled value is congruent to the reconstructed integer, the truncated quotient estimate is exact under stated bounds "
         "(crt_q_estimate_partial), the model's quotient estimate (three branches, shifted two-word reads, u128 sums) returns the CRT "
         "quotient on the tables built by the model of MultiZmodP::new (crt_q_estimate), _crt reaches no panic site and writes exactly "
         "pprods_modn[q] + sum xs_j crt_p_modn[j] (crt_spec: mg_mul64 via C07, u128 column sums, carry assert), the translated prime table is pairwise coprime with Montgomery "
         "constant p-2 and generators of order exactly 2^32 (ntt_table_ok); the root tables of new are principal roots in Montgomery form "
         "(ntt_roots_spec), the word-level ntt_inplace is the DFT recursion of dft_conv per prime on the bit-reversed input, both directions "
         "(ntt_inplace_spec), the transform pipeline of convolve_modn_ntt (2 forward transforms, mul, swap loop, inverse) is the cyclic "
         "convolution per prime (ntt_pipeline_spec), V < P/2 holds at its _crt call sites (crt_call_bound), from_mint gives the Montgomery "
         "forms of v mod p_j (from_mint_spec, with the rpowers table), pprods_modn[q] = -qP mod n (pprods_modn_spec), and COMPOSED: "
         "convolve_modn_ntt_spec: for n > 0 of at most 512 bits, logsize <= 31, size = 2^K, 1 <= K <= logsize, operands of residues < n, "
         "the word-level model of convolve_modn_ntt (from_mint + bit-reversed scatter, transforms, mul, swap loop, inverse, _crt, zn.redc) "
         "reaches no panic site and returns the Montgomery form of the cyclic convolution modulo n. PRODUCTION PATH: the Montgomery ZmodN "
         "operations are an instance of all arith_poly theorems (mont_ops_hom, mont_fin_hom; div_mod_xn_mont, multi_eval_mont, "
         "roots_eval_mont), and the exact NTT step the arith_poly models call equals on every input the code's _fft_longmul/_fft_midmul "
         "over the word-level convolve_modn_ntt (fft_longmul_word_eq, fft_midmul_word_eq; fft_longmul_refines, fft_midmul_refines; one "
         "statement each for mul_fft_end_to_end, longmul_ntt_end_to_end, middlemul_ntt_end_to_end). (4) arith_poly over any commutative-ring image of the coefficient operations, no panic site reached: _basic_mul and "
         "karatsuba (all operand lengths after the fix, buffer reuse, stale buffers) = product; _middlemul (HQZ) = middle slice; "
         "_inv_mod_xn / div_mod_xn (Newton, after the fix) = series inverse / quotient; _product_tree / from_roots = product of (x - r_i); "
         "_multi_eval / multi_eval = values at all points; roots_eval = prod_i (b_j - a_i) in both branches for |b| >= 2 (Barrett reduction "
         "with the reversed inverse incl. its debug_assert). Inside these, convolve_modn_ntt is the exact convolution. "
         "Every public entry point (convolve_modn, convolve_modn_ntt, Poly::{from_roots, roots_eval, multi_eval, mul_karatsuba, mul_fft, "
         "middlemul, div_mod_xn} and the private _inv_mod_xn, _longmul, karatsuba) is compared in both build profiles with the executable "
         "models (K) and judged by an independent Python schoolbook/big-integer oracle (O).")
LEVEL_NOTE = ("Trusted: Lean kernel (+propext, Classical.choice, Quot.sound); the hand-written models' correspondence to the Rust code (sampled by "
              "the harness in both profiles, not proved); the translator for the dispatch table and the prime table; Python integers in the oracle. "
              "Production path of arith_poly: the models take the NTT step as the exact convolution by name; mont_ops_hom / mont_fin_hom make "
              "the Montgomery ZmodN operations (value level, C07) an instance of every arith_poly theorem, and fft_longmul_word_eq / "
              "fft_midmul_word_eq prove that this exact step, at the typed Montgomery operations, equals ON EVERY INPUT the code's "
              "_fft_longmul / _fft_midmul over the word-level convolve_modn_ntt (convolve_modn_ntt_spec), so nothing about the NTT is assumed "
              "any more; one-statement forms are given for mul_fft, _longmul (NTT branch) and Poly::middlemul (power-of-two branch); for the "
              "recursive routines (series, trees, multi_eval, roots_eval) the composition is by extensional equality of the step, the models "
              "are not re-expressed with the word-level step inside. The driver runs the models with natOps (pf_*) and with montOps on raw Montgomery residues (pfm_* twins, K only). "
              "MultiZmodP: crt_spec, from_mint_spec, pprods_modn_spec, crt_call_bound and the zn.redc step are composed in "
              "convolve_modn_ntt_spec; redc on residues of values V >= P/2 (outside the documented range) is compared only. The arith_poly theorems are about models over abstract "
              "coefficient operations (Hom/HomE/HomC: ring homomorphic image, sound zn.inv, == is equality of residues); natOps n (what the "
              "driver runs) is proved to be such an instance for ZMod n. ZmodN operations are exact modular arithmetic on the domain proved in "
              "C07; bnum operators are Nat arithmetic.")
TECHNIQUE = "Lean 4 proof about a hand model + differential correspondence check + spec oracle"
