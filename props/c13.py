"""C13 — sieve reports list every factor-base prime dividing each candidate.

Request lines (harness/src/ops_sieve.rs, lean/Ymq/Drv/Sieve.lean):
  sv <want> <root> <P> <cmd>...   public API of sieve::Sieve on a synthetic factor base P; cmds
        new <off> <nblocks> <R1> <R2> | run <k> | skip <k> | rehash <R1> <R2> | dumplo
  svm <P> <cmd>...                model replay of an `sv` answer (positions taken from the implementation):
        new .. | blk <positions> | skip <k> | rehash .. | dumplo
  svt / svl <nblocks> <adds> <adds2|x> <queries>   SieveTable / SieveTableLarge through the hooks
  sv_cof <P> <x> <facs> <maxlarge> <double>        fbase::cofactor
  sv_fb <n> <size>                                 FBase::new (idx_by_log)
  svb <d0|d1> <root> <P> <cmd>...  log accumulation / threshold part, one request per build profile (d1 = checked,
        d0 = release): new .. | skip <k> | rehash .. | blk <threshold>  (hash and maximum of the byte array blk after
        sieve_block, positions reported by smooths(threshold) with their factor lists)
"""
# SIZE AUDIT (quick tier), measured on cases('quick', Random(1))
#   op        operand                      quick max          thorough max     code supports                          boundary classes reached in quick
#   sv        factor-base primes           ~1.4 * 10^6        same (the prime  primes < 2^24 (FB.WF; one SieveTable   bit lengths 13, 14, 15, 16, 19 crossed by the size list (deterministic);
#                                          (21 bits)          list of the      per bit length 16..18, one             BEFORE: bit lengths 22, 23, 24 (tables 3..5 of ltables) NEVER reached in
#                                                             generator ended  SieveTableLarge per bit length 19..24) either tier -> ADDED
#             number of primes             70000              at 1.5 * 10^6)   16-bit prime index in the large tables one wrap of the 16-bit index (65536..70000); BEFORE: two or more wraps
#                                                                              (stride 2^16 walk), pskip classes at   (>= 131072 primes) never -> ADDED (145000 primes); pskip classes: all six
#                                                                              2000/5000/10000/20000/50000 primes     reached, boundary 1999/2000 exact, others one side only (4999, 9999 ADDED)
#             nblocks / start offset       12 (20), 40 bits   20               nblocks <= 2^17, |offset| <= 2^62      unchanged (callers use a few dozen blocks)
#   svt/svl   bucket tables                5 blocks           same             -                                      fill cap-1, cap, cap+1 (deterministic choice list)
#   sv_cof    |x|                          250 bits           250              I256: |x| < 2^255                      BEFORE: widths random, 64/128/192-bit boundaries 0..3 times, 251..255 never
#             maxlarge                     24 bits            24               maxlarge < 2^32 (maxlarge^2 in u64)    BEFORE: never above 2^24, so cofactors of 49..64 bits that are ACCEPTED
#             cofactor                     48 bits accepted,                   u64 (try_into), <= maxlarge^2          (double large primes next to 2^64, single ones next to 2^32) never -> ADDED
#                                          65..140 refused
#   sv_fb     n                            300 bits           300              Int (1024 bits); sieves: n*k < 2^508   widths rng.choice({20,64,128,300}) (not exact) -> ADDED exact 63..512 bits
# Added: boundary_cases (both tiers, first).
import math
import random
from vlib.pipeline import Case
from vlib import gen

PID = "C13"
GEN = []
LEAN = ["Ymq.Props.C13", "Ymq.Props.C13Log"]
AUDIT = "Ymq.Audit.C13"
THEOREMS = ["Ymq.C13." + t for t in (
    "cursor_inv small_recovery table_recovery large_table_recovery recycled_clean listed_complete_inv "
    "listed_complete listed_complete_rehash no_panic no_panic_rehash cofactor_no_panic fbase_new_classes log_sum_bound "
    "cofactor_spec " + "accumulator_hits_spec class_loops_cover accumulator_spec_small accumulator_spec_tables accumulator_spec_hits accumulator_overflow_iff accumulator_overflow_witness accumulator_no_overflow_small accumulator_no_overflow_tables accumulator_spec_large accumulator_no_overflow_new accumulator_spec accumulator_no_overflow accumulator_no_overflow_hits smooths_threshold_spec smooth_candidate_reported table_bucket_exact").split()]
PROFILES = ["release", "chk"]
TIMEOUT = 120.0
HYPOTHESES = [
    "try_factor64_sound (theorem cofactor_spec): when fbase::try_factor64 (Pollard rho / ECM, not modelled) returns Some((a, b)) "
    "then a*b is its argument",
    "nblocks <= 2^17 (listed_complete, listed_complete_inv, listed_complete_rehash, no_panic, no_panic_rehash): the interval fits "
    "u32 (is_factor multiplies the block number by 32768 in u32; callers use at most a few dozen blocks)",
    "FB.WF / RootsOK / RecycledOK (all sieve theorems): factor base strictly increasing with primes in [2, 2^24) and idx_by_log[l] = "
    "index of the first prime of bit length >= l (checked on FBase::new by the sv_fb stream; proved for the synthetic bases: "
    "FB.ofPrimes_WF), both root tables reduced (r < p, property C12), recycled SieveTable.overflows has its 32 slots (Rust type)",
    "Dividers::{modu16, modi64, divmod_uint} are exact remainders/quotients (property C08: modu16_spec, modi64_spec)",
    "RootsDistinct (no_panic, no_panic_rehash): the two roots of every prime >= 32768 differ (the debug assertion of Sieve::new); "
    "they also assume a non-empty factor base, |start offset| <= 2^62 (no_panic_rehash: (rounds + 1) * nblocks <= 2^40) and RecycledSized: recycled tables come from a "
    "sieve with the same factor base and number of blocks (the documented requirement of Sieve::new), contents arbitrary",
    "must_be_prime (cofactor_no_panic): every divisor of the value that is <= maxlarge and divisible by no listed prime is 1 or a prime "
    "(the code's comment 'Must be prime'; follows from a complete list and maxlarge < maxprime^2); also value != 0, |value| < 2^256, "
    "listed indices inside the factor base, maxlarge < 2^32",
]
BLOCK = 32768
NONE = 0xFFFF

# ---------------------------------------------------------------- primes

_LIMIT = 1_500_000
_sv = bytearray([1]) * (_LIMIT + 1)
_sv[0] = _sv[1] = 0
for _i in range(2, int(_LIMIT ** 0.5) + 1):
    if _sv[_i]:
        _sv[_i * _i::_i] = bytearray(len(_sv[_i * _i::_i]))
ALL_PRIMES = [i for i in range(2, _LIMIT + 1) if _sv[i]]
del _sv


def bitlen(p):
    return p.bit_length()


def make_fb(rng, size, density=0.5, lo=0):
    """`size` primes: every prime (from index lo) is kept with probability `density`"""
    out = []
    i = lo
    while len(out) < size:
        p = ALL_PRIMES[i]
        i += 1
        if density >= 1 or rng.random() < density or (p == 2 and rng.random() < 0.8):
            out.append(p)
    return out


def make_roots(rng, P, single=0.03):
    """two root tables: both roots < p; small primes have a single root (r1 = r2, the sieve then stores its
    'no root' marker for the second cursor) with probability `single`; large primes always two"""
    R1, R2 = [], []
    for p in P:
        a = rng.randrange(p)
        if p == 2:
            b = rng.choice([a, 1 - a])
        elif p < BLOCK and rng.random() < single:
            b = a
        else:
            b = (a + 1 + rng.randrange(p - 1)) % p
        R1.append(a)
        R2.append(b)
    return R1, R2


def lst(l):
    return ",".join(map(str, l)) if l else "-"


def shift_roots(P, R, delta):
    return [(r - delta) % p for p, r in zip(P, R)]


# ---------------------------------------------------------------- request parsing / replay of the bookkeeping

def parse_sv(args, model=False):
    """-> (want, root, P, cmds) with cmds = list of tuples"""
    if model:
        want, root, k = None, None, 0
    else:
        want, root, k = args[0], args[1], 2
    P = [int(x) for x in args[k].split(",")]
    cmds = []
    i = k + 1
    L = lambda s: [] if s == "-" else [int(x) for x in s.split(",")]
    while i < len(args):
        c = args[i]
        if c == "new":
            cmds.append(("new", int(args[i + 1]), int(args[i + 2]), L(args[i + 3]), L(args[i + 4])))
            i += 5
        elif c == "rehash":
            cmds.append(("rehash", L(args[i + 1]), L(args[i + 2])))
            i += 3
        elif c in ("run", "skip"):
            cmds.append((c, int(args[i + 1])))
            i += 2
        elif c == "dumplo":
            cmds.append((c,))
            i += 1
        else:
            raise ValueError(c)
    return want, root, P, cmds


def parse_block(s):
    t = s.split(" ")
    hd = t[0]
    blk_no, off = hd[1:].split("@")
    d = {"blk_no": int(blk_no), "offset": int(off)}
    pos = []
    for x in t[1:]:
        if "=" in x:
            k, v = x.split("=")
            d[k] = v
        else:
            r, f = x.split(":")
            pos.append((int(r), [] if f == "-" else [int(y) for y in f.split(".")]))
    d["pos"] = pos
    ov = d["ov"].split("/")
    d["tov"] = [] if ov[0] == "-" else [int(y) for y in ov[0].split(".")]
    d["lov"] = [] if ov[1] == "-" else [int(y) for y in ov[1].split(".")]
    return d


def split_answer(ans):
    """-> (thresholds, [block strings]) or None"""
    if not ans.startswith("ok ") or " | " not in ans:
        return None
    head, body = ans[3:].split(" | ", 1)
    return head, (body.split(";") if body else [])


# ---------------------------------------------------------------- oracle

def bucket_overflows(P, R1, R2, nblocks):
    """Independent recomputation of the bucket fill of the large-prime tables from (P, roots, nblocks):
    -> (over, total, ltotal) with over[k] = {bucket index: hits} for the 256-wide buckets of size class 16+k that
    receive more than 32 hits, total[k] = sum of max(0, hits - 32) = the number of overflows the implementation must
    count, ltotal[k] = sum of max(0, hits - 1024) over the 16384-wide buckets of size class 19+k."""
    interval = nblocks * BLOCK
    fill = [dict(), dict(), dict()]
    lfill = {}
    for i, p in enumerate(P):
        if p < BLOCK:
            continue
        lg = bitlen(p)
        for o in (R1[i], R2[i]):
            x = o
            if lg <= 18:
                f = fill[lg - 16]
                while x < interval:
                    b = x >> 8
                    f[b] = f.get(b, 0) + 1
                    x += p
            else:
                f = lfill.setdefault(lg - 19, {})
                while x < interval:
                    b = x >> 14
                    f[b] = f.get(b, 0) + 1
                    x += p
    over = [{b: h for b, h in f.items() if h > 32} for f in fill]
    total = [sum(h - 32 for h in o.values()) for o in over]
    ltotal = {k: sum(max(0, h - 1024) for h in f.values()) for k, f in lfill.items()}
    return over, total, ltotal


def check_sv(case, ans):
    sp = split_answer(ans)
    if sp is None:
        return f"no report returned ({ans[:60]})"
    _, blocks = sp
    want, root, P, cmds = parse_sv(case.args)
    n = len(P)
    bi = 0
    cur = None          # state of the current sieve
    stats = case_stats.setdefault(case.line, {"pos": 0, "listed": 0, "extra": 0, "excused": 0, "ov": 0, "lov": 0, "ovmax": 0})
    for c in cmds:
        if c[0] == "new":
            _, off, nblocks, R1, R2 = c
            cur = {"off0": off, "nblocks": nblocks, "small": (R1, R2), "large": (R1, R2), "B": 0, "blk_no": 0,
                   "missed": {}, "ovf": bucket_overflows(P, R1, R2, nblocks)}
        elif c[0] == "rehash":
            cur["large"] = (c[1], c[2])
            cur["blk_no"] = 0
            if cur["nblocks"]:
                # rehash resets the tables and registers the new roots
                cur["missed"] = {}
                cur["ovf"] = bucket_overflows(P, c[1], c[2], cur["nblocks"])
        elif c[0] == "skip":
            cur["B"] += c[1]
            cur["blk_no"] += c[1]
        elif c[0] == "dumplo":
            if bi >= len(blocks) or not blocks[bi].startswith("LO "):
                return "missing cursor dump"
            _, lo, lp = blocks[bi].split(" ")
            bi += 1
            lo = [int(x) for x in lo.split(",")] if lo != "-" else []
            lp = [int(x) for x in lp.split(",")] if lp != "-" else []
            R1, R2 = cur["small"]
            nsmall = sum(1 for p in P if p < BLOCK)
            if len(lo) != 2 * nsmall or len(lp) != 2 * nsmall:
                return f"cursor arrays have {len(lo)} entries for {nsmall} small primes"
            B = cur["B"]
            for i in range(nsmall):
                p = P[i]
                for j, o in ((0, R1[i]), (1, R2[i])):
                    if j == 1 and R1[i] == R2[i]:
                        continue
                    if lo[2 * i + j] != (o - B * BLOCK) % p:
                        return (f"cursor_inv: after {B} blocks cursor {j} of p={p} (root {o}) is {lo[2 * i + j]}, "
                                f"expected {(o - B * BLOCK) % p}")
                    if B >= 1 and lp[2 * i + j] != (o - (B - 1) * BLOCK) % p:
                        return f"cursor_inv: previous cursor {j} of p={p} after {B} blocks is {lp[2 * i + j]}"
        elif c[0] == "run":
            for _ in range(c[1]):
                if bi >= len(blocks):
                    return "missing block report"
                d = parse_block(blocks[bi])
                bi += 1
                if d["blk_no"] != cur["blk_no"]:
                    return f"block number {d['blk_no']} != {cur['blk_no']}"
                if d["offset"] != cur["off0"] + BLOCK * cur["B"]:
                    return f"offset {d['offset']} != start + blocks*32768"
                msg = check_block(P, cur, d, stats)
                if msg:
                    return msg
                cur["B"] += 1
                cur["blk_no"] += 1
    return None


def check_block(P, cur, d, stats):
    """root membership => listed, for every factor base prime and every reported position"""
    reported = {}
    for r, f in d["pos"]:
        if r in reported:
            return f"position {r} reported twice"
        if not 0 <= r < BLOCK:
            return f"position {r} outside the block"
        for i in f:
            if not 0 <= i < len(P):
                return f"position {r}: prime index {i} outside the factor base"
        reported[r] = set(f)
    stats["pos"] += len(reported)
    stats["listed"] += sum(len(f) for _, f in d["pos"])
    stats["ov"] = max(stats["ov"], sum(d["tov"]))
    stats["ovmax"] = max([stats["ovmax"]] + d["tov"])
    stats["lov"] = max(stats["lov"], sum(d["lov"]))
    B, blk_no = cur["B"], cur["blk_no"]
    # the overflow counters of the implementation must be the recomputed ones (they are not trusted below)
    over, total, ltotal = cur["ovf"]
    for k, v in enumerate(d["tov"]):
        if v != total[k]:
            return f"n_overflows of size class {16 + k} is {v}, the bucket fill computed from the roots gives {total[k]}"
    for k, v in enumerate(d["lov"]):
        if v != ltotal.get(k, 0):
            return f"overflow entries of size class {19 + k}: {v}, computed from the roots: {ltotal.get(k, 0)}"
    must = 0
    for i, p in enumerate(P):
        small = p < BLOCK
        R1, R2 = cur["small"] if small else cur["large"]
        base = (B if small else blk_no) * BLOCK
        for o in {R1[i], R2[i]}:
            r = (o - base) % p
            while r < BLOCK:
                f = reported.get(r)
                if f is not None:
                    must += 1
                    if i not in f:
                        lg = bitlen(p)
                        # a miss is excused only in a bucket that really receives more than 32 hits (recomputed from
                        # the roots, not taken from the answer), and only total - 32 hits of the class can be lost
                        if 16 <= lg <= 18 and ((base + r) >> 8) in over[lg - 16] and total[lg - 16] > 32:
                            key = lg - 16
                            s = cur["missed"].setdefault(key, set())
                            s.add((base + r, i))
                            stats["excused"] += 1
                            if len(s) > total[key] - 32:
                                return (f"{len(s)} hits of size class {lg} are missing but only "
                                        f"{total[key]} - 32 overflows can be lost")
                        else:
                            return (f"block {B} (blk_no {blk_no}) position {r}: prime #{i} = {p} has root {o} "
                                    f"({base}+{r} = {o} mod {p}) but is not listed; listed = {sorted(f)[:12]}")
                r += p
    # extras (tolerated): listed primes that are not root members
    extra = 0
    for r, f in reported.items():
        for i in f:
            p = P[i]
            small = p < BLOCK
            R1, R2 = cur["small"] if small else cur["large"]
            x = ((B if small else blk_no) * BLOCK + r) % p
            if x != R1[i] and x != R2[i]:
                extra += 1
    stats["extra"] += extra
    return None


case_stats = {}


def check_table(case, ans, large):
    a = case.args
    nblocks = int(a[0])
    P = lambda s: [] if s == "-" else [tuple(int(y) for y in x.split(":")) for x in s.split(",")]
    adds = P(a[2]) if a[2] != "x" else P(a[1])
    qs = [int(x) for x in a[3].split(",")] if a[3] != "-" else []
    parts = ans.split(" | ")
    if len(parts) != 2 + len(qs):
        return f"no table dump ({ans[:60]})"
    nov, fill = [int(x) for x in parts[0].split(" ")]
    ovl = P(parts[1])
    width, cap, mask = (16384, 1024, 0xFFFF) if large else (256, 32, 0xFF)
    inbucket = {}
    for q, s in zip(qs, parts[2:]):
        inbucket[q // width] = P(s)
    kept = len(ovl) if large else min(nov, 32)
    if len(ovl) != kept:
        return "overflow list length"
    lost = 0 if large else max(0, nov - 32)
    if fill + kept + lost != len(adds):
        return f"recycled_clean/accounting: {fill} bucket entries + {kept} overflows + {lost} lost != {len(adds)} adds"
    # every add is visible in its bucket, or in the overflow list, or is one of the counted lost ones
    missing = 0
    bpool = {b: list(v) for b, v in inbucket.items()}
    opool = list(ovl)
    for off, pidx in adds:
        b = off // width
        if b not in bpool:
            continue
        e = ((off % BLOCK) if large else (off % 256), pidx & mask)
        if e in bpool[b]:
            bpool[b].remove(e)
        elif (off % BLOCK, pidx & mask) in opool:
            opool.remove((off % BLOCK, pidx & mask))
        else:
            missing += 1
    if missing > lost:
        return f"table_recovery: {missing} added entries cannot be found, {lost} overflows were counted as lost"
    for b, rest in bpool.items():
        if rest:
            return f"recycled_clean: bucket {b} shows entries that were not added since the reset: {rest[:4]}"
    for b, v in inbucket.items():
        if len(v) > cap:
            return "bucket longer than its capacity"
    return None


def factor_small(x, bound):
    out = {}
    for p in ALL_PRIMES:
        if p > bound or p * p > x:
            break
        while x % p == 0:
            out[p] = out.get(p, 0) + 1
            x //= p
    return out, x


def check_cof(case, ans):
    a = case.args
    P = [int(x) for x in a[0].split(",")]
    x = int(a[1])
    facs = [int(y) for y in a[2].split(",")] if a[2] != "-" else []
    maxlarge = int(a[3])
    double = a[4] == "true"
    maxprime = P[-1]
    c = abs(x)
    exps = {}
    for i in facs:
        p = P[i]
        while c % p == 0 and c > 0:
            c //= p
            exps[p] = exps.get(p, 0) + 1
    if ans == "none":
        ok_none = (c >= 1 << 64 or c > maxlarge * maxlarge or c > maxlarge or (double and c > maxprime * maxprime))
        return None if ok_none else f"cofactor {c} <= maxlarge was refused"
    if not ans.startswith("some "):
        return f"no value returned ({ans[:40]})"
    _, p, q, fs = ans.split(" ")
    p, q = int(p), int(q)
    fl = [] if fs == "-" else [tuple(int(y) for y in f.split("^")) for f in fs.split(".")]
    prod = p * q
    sign = 1
    got = {}
    for (b, e) in fl:
        if b == -1:
            sign = -1
            if e != 1:
                return "exponent of -1"
            continue
        if b in got or b not in exps or e < 1:
            return f"factor {b} is not a listed prime dividing the value (or is repeated)"
        got[b] = e
        prod *= b ** e
    if prod * sign != x:
        return f"factors and cofactor do not multiply back: {prod * sign} != {x}"
    if got != exps:
        return f"exponents {got} != full valuations {exps}"
    if p * q != c or q > p:
        return "cofactor pair"
    if q > 1 and not (double and c > maxprime * maxprime and p <= maxlarge):
        return "double large prime outside its conditions"
    if q == 1 and p > maxlarge:
        return "single large prime above maxlarge"
    for i in facs:
        if c % P[i] == 0:
            return f"cofactor {c} still divisible by listed prime {P[i]}"
    # the consequence named by the property: when every prime <= maxprime dividing x is listed,
    # the cofactor is 1 or has only prime factors above maxprime
    small, rest = factor_small(abs(x), maxprime)
    if all(s in exps for s in small):
        sm, _ = factor_small(c, maxprime)
        if sm:
            return f"complete list but cofactor {c} has the small prime factor {min(sm)}"
    return None


def check_fb(case, ans):
    if " | " not in ans:
        return f"no value ({ans[:40]})"
    ps, ibl = ans.split(" | ")
    P = [int(x) for x in ps.split(",")]
    ibl = [int(x) for x in ibl.split(",")]
    if any(P[i] >= P[i + 1] for i in range(len(P) - 1)):
        return "primes not strictly increasing"
    if len(ibl) != 26:
        return "idx_by_log length"
    for l, v in enumerate(ibl):
        if v != sum(1 for p in P if bitlen(p) < l):
            return f"idx_by_log[{l}] = {v} is not the index of the first prime of bit length >= {l}"
    n, size = int(case.args[0]), int(case.args[1])
    if len(P) % 8 or len(P) > size + 7:
        return "size/alignment"
    for p in P:
        if p > 2 and pow(n % p, (p - 1) // 2, p) == p - 1:
            return f"n is not a square modulo {p}"
    return None


HMOD = 2305843009213693951


def _pskip(n):
    return 3 if n <= 1999 else 5 if n <= 4999 else 7 if n <= 9999 else 11 if n <= 19999 else 13 if n <= 49999 else 17


def _u8add(dbg, t, lg):
    """-> (value, overflowed)"""
    v = t + lg
    if v >= 256:
        return (None, True) if dbg else (v % 256, True)
    return v, False


def check_svb(case, ans):
    """Independent recomputation of the byte array of sieve_block and of the positions smooths reports:
    blk[x] = sum of the bit lengths of the non-skipped primes with a root at x (u8: the checked profile must panic
    exactly when a sum reaches 256 / a threshold operation overflows, release wraps); reported = positions with
    blk[x] > threshold2 whose corrected value reaches the threshold."""
    a = case.args
    dbg = a[0] == "d1"
    root = None if a[1] == "none" else int(a[1])
    P = [int(x) for x in a[2].split(",")]
    L = lambda s: [] if s == "-" else [int(x) for x in s.split(",")]
    nskip = sum(1 for p in P if p <= _pskip(len(P)))       # P is increasing
    cur = None
    i = 3
    expect_panic = None
    lines = []
    if ans.startswith("ok | "):
        body = ans[5:]
        lines = body.split(";") if body else []
    elif ans != "panic":
        return f"no answer ({ans})"
    li = 0
    while i < len(a):
        c = a[i]
        if c == "new":
            R1, R2 = L(a[i + 3]), L(a[i + 4])
            nb = int(a[i + 2])
            over, total, ltotal = bucket_overflows(P, R1, R2, nb)
            cur = {"nb": nb, "small": (R1, R2), "large": (R1, R2), "B": 0, "blk_no": 0,
                   "exact": not any(total) and not any(ltotal.values())}
            i += 5
            continue
        if c == "rehash":
            R1, R2 = L(a[i + 1]), L(a[i + 2])
            cur["large"] = (R1, R2)
            cur["blk_no"] = 0
            if cur["nb"]:
                over, total, ltotal = bucket_overflows(P, R1, R2, cur["nb"])
                cur["exact"] = not any(total) and not any(ltotal.values())
            i += 3
            continue
        k = int(a[i + 1])
        for _ in range(k if c == "skip" else 1):
            # sums of this block
            sums = {}
            have_tables = P[-1] >= BLOCK
            for j, p in enumerate(P):
                if j < nskip:
                    continue
                small = p < BLOCK
                R1, R2 = cur["small"] if small else cur["large"]
                base = (cur["B"] if small else cur["blk_no"]) * BLOCK
                if not small and base + BLOCK > cur["nb"] * BLOCK:
                    continue
                for o in {R1[j], R2[j]} if small else (R1[j], R2[j]):
                    r = (o - base) % p
                    while r < BLOCK:
                        sums[r] = sums.get(r, 0) + p.bit_length()
                        r += p
            mx = max(sums.values()) if sums else 0
            if mx >= 256 and dbg:
                expect_panic = f"a position of block {cur['B']} accumulates {mx} >= 256"
                break
            if c == "blk":
                thr = k
                sb = sum(P[j].bit_length() for j in range(nskip)) + (15 if root is not None else 0)
                thr2 = thr - min(sb, thr // 2)
                if thr2 == 0 and dbg:
                    expect_panic = "threshold2 - 1 underflows"
                    break
                mz = 32 - (cur["nb"] * BLOCK // 2).bit_length()
                res = []
                R1, R2 = cur["small"]
                for x in sorted(sums):
                    t = sums[x] % 256
                    if thr2 == 0 or t <= thr2:
                        continue
                    for j in range(nskip):
                        p = P[j]
                        m = (cur["B"] * BLOCK + x) % p
                        if m == R1[j] or m == R2[j]:
                            t, ovf = _u8add(dbg, t, p.bit_length())
                            if t is None:
                                break
                    if t is not None and root is not None:
                        xx = x + cur["blk_no"] * BLOCK - cur["nb"] * BLOCK // 2
                        dist = abs(abs(xx) - root)
                        z = 32 - dist.bit_length()
                        if z > mz:
                            t, ovf = _u8add(dbg, t, z - mz)
                    if t is None:
                        expect_panic = f"t += log overflows at position {x}"
                        break
                    if t >= thr:
                        res.append(x)
                if expect_panic:
                    break
                if ans == "panic":
                    return "panic although no u8 operation overflows (recomputed from primes and roots)"
                if li >= len(lines):
                    return "missing block dump"
                t = lines[li].split(" ")
                li += 1
                d = dict(x.split("=") for x in t[1:4])
                got = [int(x.split(":")[0]) for x in t[4:]]
                if cur["exact"]:
                    h = 0
                    for x in range(BLOCK):
                        h = (h * 1000003 + sums.get(x, 0) % 256 + 1) % HMOD
                    if int(d["h"]) != h or int(d["mx"]) != (max(v % 256 for v in sums.values()) if sums else 0):
                        return (f"blk of block {cur['B']} is not the sum of the bit lengths of the primes with a root at each "
                                f"position (max {d['mx']}, expected {mx})")
                    if got != res:
                        miss = sorted(set(res) - set(got))[:5]
                        extra = sorted(set(got) - set(res))[:5]
                        return f"reported positions differ from the threshold rule: missing {miss}, extra {extra}"
                st = svb_stats.setdefault(case.line, {"max": 0, "reported": 0})
                st["max"] = max(st["max"], mx)
                st["reported"] += len(got)
            cur["B"] += 1
            cur["blk_no"] += 1
        if expect_panic:
            break
        i += 2
    if expect_panic:
        return None if ans == "panic" else f"no panic although {expect_panic}"
    if ans == "panic":
        return "panic although no u8 operation overflows (recomputed from primes and roots)"
    return None


svb_stats = {}


def oracle(case, ans):
    op = case.op
    if op == "svb":
        return check_svb(case, ans)
    if ans in ("panic", "abort", "hang", "?"):
        return f"no answer ({ans})"
    if op == "sv":
        return check_sv(case, ans)
    if op == "svt":
        return check_table(case, ans, False)
    if op == "svl":
        return check_table(case, ans, True)
    if op == "sv_cof":
        return check_cof(case, ans)
    if op == "sv_fb":
        return check_fb(case, ans)
    return "unknown op"


# ---------------------------------------------------------------- model replay (K)

def followup(case, ans):
    """model replay of an `sv` answer: same script, `run k` replaced by the positions the implementation
    reported; the model must print the same block reports (cursor hashes, overflow counters, fill, lists)."""
    if case.op == "sv_cof" and not case.k:
        # double large prime: try_factor64 is not modelled, the model replays the pair the implementation found
        if ans == "none":
            return case.line + " none", ans
        if ans.startswith("some "):
            t = ans.split(" ")
            return case.line + f" {t[1]},{t[2]}", ans
        return None
    if case.op == "sv_fb" and " | " in ans:
        # the idx_by_log loop of FBase::new replayed by the model on the primes the implementation selected
        ps, ibl = ans.split(" | ")
        return "sv_fbm " + ps, ibl
    if case.op != "sv" or "K" not in case.tag:
        return None
    sp = split_answer(ans)
    if sp is None:
        # the model has no notion of thresholds; a panic of the implementation is judged by the oracle
        return None
    _, blocks = sp
    want, root, P, cmds = parse_sv(case.args)
    out = ["svm", case.args[2]]
    bi = 0
    for c in cmds:
        if c[0] == "new":
            out += ["new", str(c[1]), str(c[2]), lst(c[3]), lst(c[4])]
        elif c[0] == "rehash":
            out += ["rehash", lst(c[1]), lst(c[2])]
        elif c[0] == "skip":
            out += ["skip", str(c[1])]
        elif c[0] == "dumplo":
            out += ["dumplo"]
            bi += 1
        else:
            for _ in range(c[1]):
                d = parse_block(blocks[bi])
                bi += 1
                out += ["blk", lst([r for r, _ in d["pos"]])]
    return " ".join(out), " | ".join(["ok", ";".join(blocks)])


# ---------------------------------------------------------------- generators

def sv_line(want, root, P, cmds):
    out = ["sv", want, "none" if root is None else str(root), lst(P)]
    for c in cmds:
        if c[0] == "new":
            out += ["new", str(c[1]), str(c[2]), lst(c[3]), lst(c[4])]
        elif c[0] == "rehash":
            out += ["rehash", lst(c[1]), lst(c[2])]
        elif c[0] in ("run", "skip"):
            out += [c[0], str(c[1])]
        else:
            out += [c[0]]
    return " ".join(out)


def cluster_roots(rng, P, R1, R2, lo_log, count, window, base=0):
    """put both roots of `count` primes of bit length >= lo_log inside [base, base+window): bucket overflows"""
    idx = [i for i, p in enumerate(P) if bitlen(p) >= lo_log]
    rng.shuffle(idx)
    for i in idx[:count]:
        a = base + rng.randrange(window)
        b = base + rng.randrange(window)
        if a == b:
            b = base + (b - base + 1) % window
        R1[i], R2[i] = a % P[i], b % P[i]
        if R1[i] == R2[i]:
            R2[i] = (R1[i] + 1) % P[i]


def scenario(rng, P, shape, nblocks, want, k):
    """one `sv` request"""
    off = rng.choice([0, -(nblocks * BLOCK) // 2, -(nblocks * BLOCK) // 2, rng.randrange(-2 ** 40, 2 ** 40)])
    root = rng.choice([None, None, rng.randrange(0, max(1, nblocks * BLOCK // 2))])
    large = P[-1] >= BLOCK
    R1, R2 = make_roots(rng, P, single=rng.choice([0.0, 0.03, 0.2]))
    cmds = []
    if shape == "plain":
        nrun = nblocks if large else rng.choice([nblocks, nblocks + 2])
        cmds = [("new", off, nblocks, R1, R2), ("run", max(1, nrun))]
        if rng.random() < 0.5:
            cmds.append(("dumplo",))
    elif shape == "partial":
        s = rng.randrange(0, max(1, nblocks))
        cmds = [("new", off, nblocks, R1, R2), ("skip", s), ("dumplo",), ("run", max(1, nblocks - s))]
    elif shape == "recycle":
        A1, A2 = make_roots(rng, P, single=0.05)
        ka = rng.randrange(0, nblocks + 1)
        cmds = [("new", off, nblocks, A1, A2), ("skip", ka), ("new", off, nblocks, R1, R2), ("run", max(1, nblocks))]
        if rng.random() < 0.4:
            B1, B2 = make_roots(rng, P, single=0.05)
            cmds += [("new", rng.choice([0, off]), nblocks, B1, B2), ("run", max(1, nblocks)), ("dumplo",)]
    elif shape == "rehash":
        S1, S2 = shift_roots(P, R1, nblocks * BLOCK), shift_roots(P, R2, nblocks * BLOCK)
        T1, T2 = shift_roots(P, S1, nblocks * BLOCK), shift_roots(P, S2, nblocks * BLOCK)
        cmds = [("new", 0, nblocks, R1, R2), ("run", nblocks), ("rehash", S1, S2), ("run", nblocks), ("dumplo",),
                ("rehash", T1, T2), ("run", max(1, nblocks // 2))]
    elif shape in ("overflow", "overflow-lost", "overflow-recycle"):
        # size-class tables: more than 32 hits in one 256-wide bucket
        cnt = {"overflow": rng.randrange(17, 30), "overflow-lost": rng.randrange(36, 60), "overflow-recycle": 40}[shape]
        base = 256 * rng.randrange(0, nblocks * 128)
        lg = rng.choice([l for l in (16, 17, 18) if any(bitlen(p) == l for p in P)] or [16])
        idx = [i for i, p in enumerate(P) if bitlen(p) == lg]
        rng.shuffle(idx)
        for i in idx[:cnt]:
            a, b = rng.sample(range(256), 2)
            R1[i], R2[i] = (base + a) % P[i], (base + b) % P[i]
            if R1[i] == R2[i]:
                R2[i] = (R1[i] + 1) % P[i]
        if shape == "overflow-recycle":
            A1, A2 = make_roots(rng, P, single=0.0)
            cmds = [("new", off, nblocks, R1, R2), ("run", 1), ("new", off, nblocks, A1, A2), ("run", nblocks)]
        else:
            cmds = [("new", off, nblocks, R1, R2), ("run", nblocks)]
    elif shape == "loverflow":
        # very large primes: more than 1024 hits in one 16384-wide bucket
        base = 16384 * rng.randrange(0, nblocks * 2)
        cluster_roots(rng, P, R1, R2, 20, rng.randrange(530, 640), 16384, base)
        cmds = [("new", off, nblocks, R1, R2), ("run", nblocks)]
    return sv_line(want, root, P, cmds)


FB_SHAPES = [
    # (size, density, first prime index, nblocks choices, K in quick)
    (40, 0.5, 0, [0, 1, 2, 3], True),
    (40, 1.0, 0, [1, 2], True),
    (600, 0.5, 0, [1, 2, 4], True),
    (1900, 0.5, 0, [1, 3, 6], True),       # crosses 2^13, 2^14 (largest prime ~ 35000: also 2^15)
    (1999, 0.5, 0, [2], True),             # pskip boundary 1999 / 2000
    (2000, 0.5, 0, [2], True),
    (3600, 0.5, 0, [1, 4, 12], True),      # 2^15 / 2^16
    (3600, 1.0, 0, [2, 5], True),          # every prime: buckets of the size-16 table overflow
    (5000, 0.5, 0, [3], True),
    (10000, 0.5, 0, [4], True),
    (23000, 0.5, 0, [2, 7, 12], True),    # crosses 2^19: large tables
    (23000, 0.9, 0, [5], True),
    (70000, 0.65, 0, [2, 9], True),        # more than 2^16 primes: the 16-bit prime index of the large tables wraps
]


def table_case(rng, large):
    nblocks = rng.choice([1, 1, 2, 3, 5])
    limit = nblocks * BLOCK
    width, cap = (16384, 1024) if large else (256, 32)
    op = "svl" if large else "svt"

    def adds(style):
        n = rng.choice([0, 1, 5, 40, 200]) if not large else rng.choice([0, 3, 50, 1200, 2500])
        out = []
        if style == "spread":
            for _ in range(n):
                out.append((rng.randrange(limit), rng.randrange(1 << (20 if large else 12))))
        else:
            # concentrated: few buckets, so that they fill up and overflow
            bs = [rng.randrange(limit // width) for _ in range(rng.choice([1, 2, 3]))]
            m = rng.choice([cap - 1, cap, cap + 1, cap + 20, cap + 33, cap + 70, 2 * cap + 40]) if not large else \
                rng.choice([cap - 1, cap, cap + 1, cap + 50])
            for _ in range(m):
                b = rng.choice(bs)
                out.append((b * width + rng.randrange(width), rng.randrange(1 << (20 if large else 12))))
        return out
    a1 = adds(rng.choice(["spread", "conc", "conc"]))
    a2 = adds(rng.choice(["spread", "conc"])) if rng.random() < 0.5 else None
    last = a2 if a2 is not None else a1
    qs = sorted({o for o, _ in last} | {o for o, _ in a1[:20]} | {rng.randrange(limit)})
    # one query per bucket is enough
    seen, q2 = set(), []
    for q in qs:
        if q // width not in seen:
            seen.add(q // width)
            q2.append(q)
    P = lambda l: ",".join(f"{o}:{p}" for o, p in l) if l else "-"
    return Case(f"{op} {nblocks} {P(a1)} {P(a2) if a2 is not None else 'x'} {lst(q2)}", tag="table")


def cof_case(rng):
    size = rng.choice([30, 200, 1500])
    P = make_fb(rng, size, 0.5)
    maxprime = P[-1]
    maxlarge = maxprime * rng.choice([1, 2, 50, 300])
    double = rng.random() < 0.4
    kind = rng.choice(["one", "prime", "prime", "bigprime", "double", "double", "huge"])
    if kind == "one":
        c = 1
    elif kind == "prime":
        c = gen.next_prime(rng.randrange(maxprime, max(maxprime + 2, maxlarge)))
    elif kind == "bigprime":
        c = gen.next_prime(maxlarge + rng.randrange(1, 10 ** 6))
    elif kind == "double":
        a = gen.next_prime(rng.randrange(maxprime, max(maxprime + 2, maxlarge)))
        b = gen.next_prime(rng.randrange(maxprime, max(maxprime + 2, maxlarge)))
        c = a * b
        if c <= maxlarge:
            c = a          # a composite cofactor <= maxlarge contradicts the code's "must be prime" (outside the contract)
    else:
        c = gen.next_prime(rng.getrandbits(rng.choice([65, 90, 140])))
    # prime powers: high valuations for the smallest primes (the inner loop of cofactor divides until the remainder
    # is non-zero: valuations 4..64 of 2, 3, 5), small ones for random listed primes; the value stays below 2^250
    fact = []
    if rng.random() < 0.5:
        for i in range(min(3, len(P))):
            if rng.random() < 0.6:
                fact.append((i, rng.choice([4, 5, 7, 8, 12, 13, 16, 31, 32, 33, 64])))
    nf = rng.randrange(0, 9)
    for i in rng.sample(range(len(P)), min(nf, len(P))):
        if all(i != j for j, _ in fact):
            fact.append((i, rng.choice([1, 1, 1, 2, 3])))
    x = c if c.bit_length() <= 250 else 1
    idx = []
    for i, e in fact:
        while e > 0 and (x * P[i] ** e).bit_length() > 250:
            e //= 2
        if e > 0:
            x *= P[i] ** e
            idx.append(i)
    idx.sort()
    if rng.random() < 0.4:
        x = -x
    facs = list(idx)
    # tolerated: extra indices, duplicates, any order
    for _ in range(rng.choice([0, 0, 2, 5])):
        facs.append(rng.randrange(len(P)))
    if rng.random() < 0.3 and facs:
        facs.append(rng.choice(facs))
    rng.shuffle(facs)
    # composite cofactors <= maxlarge outside the double-large-prime path hit the debug assertion
    # `must be prime` in the checked profile: only produced when the list is incomplete, which is outside
    # the domain of the guarantee
    return Case(f"sv_cof {lst(P)} {x} {lst(facs)} {maxlarge} {'true' if double else 'false'}",
                k=not (double and c > maxprime * maxprime), tag="cof")


def _fork(rng, label):
    """own stream for the boundary family: depends on the run's seed, leaves the stream of the older families untouched"""
    return random.Random(f"{label}:{rng.getstate()[1][:4]}")


_PRIMES24 = []


def primes24():
    """every prime below 2^24 (the bound of the factor-base primes), computed once when the boundary family is generated"""
    if not _PRIMES24:
        lim = 1 << 24
        sv = bytearray([1]) * lim
        sv[0] = sv[1] = 0
        for i in range(2, 4097):
            if sv[i]:
                sv[i * i::i] = bytearray(len(sv[i * i::i]))
        _PRIMES24.extend(i for i in range(lim) if sv[i])
    return _PRIMES24


def exact_bits_value(rng, c, P, bits):
    """|x| = c * (listed primes) of exactly `bits` bits (P[0] = 2 adjusts the length): -> (x, indices of the listed primes)"""
    x, idx = c, set()
    while x.bit_length() < bits - 24:
        i = rng.randrange(1, len(P))
        x *= P[i]
        idx.add(i)
    if x.bit_length() < bits:
        x <<= bits - x.bit_length()
        idx.add(0)
    assert x.bit_length() == bits, (bits, x.bit_length())
    return x, sorted(idx)


def boundary_cof_cases(rng):
    P = ALL_PRIMES[:200]
    maxprime = P[-1]
    big = [(1 << 31) - 1, (1 << 31) + 11, (1 << 32) - 1]
    widths = [63, 64, 65, 127, 128, 129, 191, 192, 193, 250, 254, 255]
    j = 0

    def line(c, maxlarge, double, bits=None):
        nonlocal j
        bits = bits or widths[j % len(widths)]
        j += 1
        if bits < c.bit_length() + 1:
            bits = c.bit_length() + 8
        x, idx = exact_bits_value(rng, c, P, bits)
        if j % 2:
            x = -x
        facs = list(idx) + ([rng.randrange(len(P))] if j % 3 == 0 else [])
        rng.shuffle(facs)
        return Case(f"sv_cof {lst(P)} {x} {lst(facs)} {maxlarge} {'true' if double else 'false'}",
                    k=not (double and c > maxprime * maxprime), tag="cof")
    for maxlarge in big:
        below, above = gen.prev_prime(maxlarge + 1), gen.next_prime(maxlarge)
        q = gen.prev_prime(below)
        yield line(1, maxlarge, False)
        yield line(below, maxlarge, False)                  # largest single large prime that is accepted
        yield line(above, maxlarge, False)                  # first one that is refused
        yield line(below * q, maxlarge, True)               # double large prime next to maxlarge^2 (64 bits when maxlarge ~ 2^32)
        yield line(q * gen.prev_prime(1 << 31), maxlarge, True)
        yield line(below * above, maxlarge, True)           # one of the two above maxlarge
        yield line(above * gen.next_prime(above), maxlarge, True)       # above maxlarge^2 (may exceed 64 bits)
        yield line(gen.prev_prime(1 << 64), maxlarge, False)            # largest 64-bit value: too large
        yield line(gen.next_prime(1 << 64), maxlarge, True)             # does not fit u64
    # every width of |x| with an ordinary large prime, both signs
    for bits in widths:
        for sign in (1, -1):
            maxlarge = maxprime * 300
            c = gen.next_prime(rng.randrange(maxprime, maxlarge - 1000))
            x, idx = exact_bits_value(rng, c, P, bits)
            yield Case(f"sv_cof {lst(P)} {sign * x} {lst(idx)} {maxlarge} false", tag="cof")


def boundary_cases(rng, tier):
    """deterministic size classes (both tiers, yielded first)"""
    yield from boundary_cof_cases(rng)
    # FBase::new: n of exactly these widths
    for bits in (63, 64, 65, 127, 128, 129, 255, 256, 257, 383, 448, 500, 512):
        n = rng.getrandbits(bits) | (1 << (bits - 1)) | 1
        yield Case(f"sv_fb {n} {40 if bits % 2 else 700}", k=False, tag="fb")
    # factor bases whose largest primes have 22, 23, 24 bits (very-large-prime tables 3, 4, 5): ~3000 small primes, then
    # 1000 primes of every bit length up to 24; model compared
    PR = primes24()
    P = [p for p in PR[:6000] if rng.random() < 0.5]
    top = P[-1]
    for l in range(top.bit_length(), 25):
        cls = [p for p in PR if p.bit_length() == l and p > top]
        P += rng.sample(cls, min(len(cls), 1000))
    P = sorted(set(P))
    assert P[-1].bit_length() == 24
    for shape in ("plain", "partial", "rehash", "recycle", "overflow", "loverflow"):
        nb = 3 if shape != "rehash" else 2
        yield Case(scenario(rng, P, shape, nb, "n60", True), k=False, tag=f"K sv/{len(P)}/{shape}", timeout=300)
    for lg in (24, 23, 22):
        # more than 1024 hits of the primes of ONE top size class in one 16384-wide bucket
        nb = 3
        R1, R2 = make_roots(rng, P, single=0.03)
        base = 16384 * rng.randrange(0, nb * 2)
        idx = [i for i, p in enumerate(P) if bitlen(p) == lg]
        rng.shuffle(idx)
        for i in idx[:rng.randrange(530, 640)]:
            a, b = rng.sample(range(16384), 2)
            R1[i], R2[i] = (base + a) % P[i], (base + b) % P[i]
            if R1[i] == R2[i]:
                R2[i] = (R1[i] + 1) % P[i]
        line = sv_line("n60", None, P, [("new", -(nb * BLOCK) // 2, nb, R1, R2), ("run", nb)])
        yield Case(line, k=False, tag=f"K sv/{len(P)}/loverflow", timeout=300)
    # more than 2^17 primes up to 2^24: the 16-bit prime index of the large tables wraps twice
    P = [p for p in PR if rng.random() < 0.135 or p == PR[-1]]
    assert len(P) > (1 << 17) + 1000
    for shape in ("plain", "recycle", "loverflow"):
        yield Case(scenario(rng, P, shape, 2, "n60", True), k=False, tag=f"K sv/{len(P)}/{shape}", timeout=300)
    # pskip classes from below (1999 / 2000 is in the size list)
    for size in (4999, 9999):
        P = make_fb(rng, size, 0.5, 0)
        yield Case(scenario(rng, P, "plain", 2, "n60", True), k=False, tag=f"K sv/{size}/plain", timeout=300)


def blk_cases(rng, quick):
    """log accumulation (`svb`): every scenario is sent twice, d1 to the checked profile and d0 to release (the model
    takes the profile as an argument); model comparison on."""
    out = []

    def emit(root, P, cmds, tag):
        body = f"{'none' if root is None else root} {lst(P)} " + " ".join(cmds)
        out.append(Case("svb d1 " + body, tag="blk/" + tag, profiles=["chk"], timeout=300))
        out.append(Case("svb d0 " + body, tag="blk/" + tag, profiles=["release"], timeout=300))

    def newcmd(off, nb, R1, R2):
        return f"new {off} {nb} {lst(R1)} {lst(R2)}"
    sizes = [(40, 0.5), (40, 1.0), (300, 0.5), (1900, 0.5), (2100, 0.5), (3600, 0.5)] + ([] if quick else [(3600, 1.0), (23000, 0.5)])
    for rep in range(2 if quick else 6):
        for size, dens in sizes:
            P = make_fb(rng, size, dens)
            nb = rng.choice([1, 2, 3])
            R1, R2 = make_roots(rng, P, single=rng.choice([0.0, 0.05]))
            root = rng.choice([None, rng.randrange(0, nb * BLOCK // 2 + 1)])
            # thresholds around the typical sums: a few hundred reports at most
            base = {40: 18, 300: 26, 1900: 34, 2100: 34, 3600: 36, 23000: 40}[size] + (6 if root is not None else 0)
            cmds = [newcmd(rng.choice([0, -nb * BLOCK // 2]), nb, R1, R2)]
            shape = rng.choice(["plain", "skip", "recycle", "rehash"])
            if shape == "skip" and nb > 1:
                cmds.append(f"skip {nb - 1}")
                cmds.append(f"blk {base + rng.randrange(0, 8)}")
            elif shape == "recycle":
                cmds.append("blk 200")
                A1, A2 = make_roots(rng, P, single=0.0)
                cmds.append(newcmd(0, nb, A1, A2))
                cmds += [f"blk {base + rng.randrange(0, 8)}"] * nb
            elif shape == "rehash":
                cmds += [f"blk {base + 4}"] * nb
                S1, S2 = shift_roots(P, R1, nb * BLOCK), shift_roots(P, R2, nb * BLOCK)
                cmds.append(f"rehash {lst(S1)} {lst(S2)}")
                cmds.append(f"blk {base + rng.randrange(0, 8)}")
            else:
                cmds += [f"blk {base + rng.randrange(0, 8)}" for _ in range(nb)]
            emit(root, P, cmds, f"{size}/{shape}")
    # threshold edges: 0 (threshold2 - 1 underflows in the checked profile), 1, 2, 255
    P = make_fb(rng, 60, 0.7)
    R1, R2 = make_roots(rng, P)
    for thr in (0, 1, 2, 3, 255):
        emit(rng.choice([None, 5000]), P, [newcmd(0, 1, R1, R2), f"blk {thr}"], f"thr{thr}")
    # sums next to 255 / 256: many primes share one position (checked profile: panic from 256 on; release wraps)
    for total in ([250, 254, 255, 256, 257, 262, 300] if quick else [240, 250, 253, 254, 255, 256, 257, 258, 262, 280, 300, 520]):
        for small_only in (True, False):
            P = make_fb(rng, 400 if small_only else 3400, 0.5)
            R1, R2 = make_roots(rng, P, single=0.0)
            nb = 2
            blkno = rng.choice([0, 1])
            x0 = rng.randrange(BLOCK)
            nskip = sum(1 for p in P if p <= _pskip(len(P)))
            idx = list(range(nskip, len(P)))
            rng.shuffle(idx)
            acc = 0
            # the real roots at x0 first, then primes are moved onto x0 until the sum is exactly `total`
            for j, p in enumerate(P):
                if j >= nskip and ((blkno * BLOCK + x0) % p in (R1[j], R2[j])):
                    acc += p.bit_length()
            for j in idx:
                p = P[j]
                if (blkno * BLOCK + x0) % p in (R1[j], R2[j]):
                    continue
                if acc + p.bit_length() > total:
                    continue
                R1[j] = (blkno * BLOCK + x0) % p
                if R2[j] == R1[j]:
                    R2[j] = (R1[j] + 1) % p
                acc += p.bit_length()
                if acc == total:
                    break
            cmds = [newcmd(0, nb, R1, R2)] + ([f"skip {blkno}"] if blkno else []) + [f"blk {rng.choice([60, 200, 250])}"]
            emit(None, P, cmds, f"sum{total}/{'small' if small_only else 'tables'}")
    # the skipped primes' logs are added in u8 inside smooths: a byte next to 255 plus the skipped logs
    P = make_fb(rng, 400, 0.5, 0)
    R1, R2 = make_roots(rng, P, single=0.0)
    emit(7, P, [newcmd(0, 1, R1, R2), "blk 20"], "lowthr-root")
    return out


def cases(tier, rng, extended=False):
    yield from boundary_cases(_fork(rng, "C13-boundary"), tier)
    yield from blk_cases(_fork(rng, "C13-blk"), tier == "quick")
    quick = tier == "quick"
    scale = 1 if quick else 6
    if extended:
        scale *= 3
    # bucket tables through the hooks
    for _ in range(150 * scale):
        yield table_case(rng, False)
    for _ in range(40 * scale):
        yield table_case(rng, True)
    for _ in range(300 * scale):
        yield cof_case(rng)
    for _ in range(40 * scale):
        n = rng.getrandbits(rng.choice([20, 64, 128, 300])) | 1
        yield Case(f"sv_fb {n} {rng.choice([8, 16, 40, 100, 700, 2566, 3600, 6000, 9000])}", k=False, tag="fb")
    if not quick:
        for size in (30000, 120000):
            yield Case(f"sv_fb {rng.getrandbits(256) | 1} {size}", k=False, tag="fb", timeout=300)
    shapes = ["plain", "partial", "recycle", "rehash"]
    for rep in range(3 * scale):
        for size, dens, lo, nbs, kq in FB_SHAPES:
            if quick and size >= 5000 and rep > 0:
                continue
            if not quick and size >= 23000 and rep % 3:
                continue
            P = make_fb(rng, size, dens, lo)
            large = P[-1] >= BLOCK
            todo = list(shapes)
            if large:
                todo += ["overflow", "overflow-lost", "overflow-recycle"]
            if P[-1] >= 1 << 19:
                todo += ["loverflow"]
            if quick and size >= 5000:
                todo = [rng.choice(shapes)] + todo[4:]
            for shape in todo:
                nb = rng.choice([b for b in nbs if b > 0 or not large] or [1])
                if shape == "rehash" and nb == 0:
                    nb = 1
                if quick and size >= 23000:
                    nb = min(nb, 7)
                if quick and size >= 70000:
                    nb = 2
                k = kq if quick else (size <= 10000 or rep == 0)
                # model-compared cases report few positions, the others at least 10^3 per request
                want = rng.choice([30, 60]) if k else max(100, 1200 // max(1, nb))
                line = scenario(rng, P, shape, nb, f"n{want}", k)
                yield Case(line, k=False, tag=("K " if k else "") + f"sv/{size}/{shape}", timeout=300)
                if k and not quick:
                    # the same script with many reports, oracle only
                    line = scenario(rng, P, shape, nb, f"n{max(100, 1500 // max(1, nb))}", False)
                    yield Case(line, k=False, tag=f"sv/{size}/{shape}", timeout=300)
    yield from _late_block_cases(rng, quick)


def _late_block_cases(rng, quick):
    """very large primes (>= 2^19) hit an interval of more than 8 blocks twice: the second hit lands in
    block 8 or later. Oracle only (no model comparison), in every tier."""
    P = make_fb(rng, 14000 if quick else 23000, 0.5, 0)
    for shape in (["plain", "recycle", "rehash"] if quick else ["plain", "partial", "recycle", "rehash"]):
        for nb in ([12] if quick else [9, 12, 20]):
            line = scenario(rng, P, shape, nb, "n120", False)
            yield Case(line, k=False, tag=f"sv/late-block/{shape}", timeout=600)


def corpus_case(line):
    if line.startswith("!chk "):
        return Case(line[5:], o=False, profiles=["chk"])
    if line.startswith("!K "):
        l = line[3:]
        return Case(l, k=False, tag="K corpus")
    t = line.split(" ")
    if t[0] == "sv_cof" and t[-1] == "true":
        # double large prime path: try_factor64 is replayed through `followup`
        return Case(line, k=False, tag="corpus")
    return Case(line, k=t[0] != "sv", tag="corpus")


# ---------------------------------------------------------------- distribution

def klass(case, ans):
    op = case.op
    if op == "svb":
        st = svb_stats.get(case.line, {})
        band = "" if ans == "panic" else ("/max>=200" if st.get("max", 0) >= 200 else "/max<200")
        return f"svb/{case.args[0]}/{case.tag.split('/')[1]}/{'panic' if ans == 'panic' else 'ok'}{band}"
    bad = "" if not (ans in ("panic", "abort", "hang", "?")) else "/" + ans
    if op == "sv":
        st = case_stats.get(case.line)
        t = case.tag.replace("K ", "")
        if not st:
            return f"{t}{bad}"
        b = []
        if st["extra"]:
            b.append("extra-listed")
        if st["ov"]:
            b.append("overflow-lost-at-report" if st["excused"] else ("overflow>32" if st["ovmax"] > 32 else "overflow<=32"))
        if st["lov"]:
            b.append("large-overflow")
        return f"{t}{'/' + '+'.join(b) if b else ''}{bad}"
    if op in ("svt", "svl"):
        nov = ans.split(" ")[0]
        reset = "reset" if case.args[2] != "x" else "fresh"
        o = "?" if not nov.isdigit() else ("ov0" if nov == "0" else ("ov<=32" if int(nov) <= 32 or op == "svl" else "ov>32"))
        return f"{op}/{reset}/{o}{bad}"
    if op == "sv_cof":
        return f"sv_cof/{ans.split(' ')[0]}/{'double' if case.args[4] == 'true' else 'single'}{bad}"
    return op + bad


def nontrivial(case, ans):
    if case.op == "sv":
        st = case_stats.get(case.line)
        return bool(st and st["pos"] > 0)
    return True


def extra_coverage():
    tot = {"reported_positions": 0, "listed_prime_indices": 0, "extra_listed": 0, "excused_by_counted_overflow": 0}
    for st in case_stats.values():
        tot["reported_positions"] += st["pos"]
        tot["listed_prime_indices"] += st["listed"]
        tot["extra_listed"] += st["extra"]
        tot["excused_by_counted_overflow"] += st["excused"]
    return {"sieve_reports": tot}


RULE = ("first, in both tiers, a deterministic boundary family: factor bases reaching the prime bit lengths 22, 23, 24 (1000 primes of every bit length 15..24 on top of "
        "~3000 small ones: plain, rehash, recycle, overflow, and more than 1024 hits of 24-bit / 23-bit primes in one bucket) and 145000 primes up to 2^24 (the "
        "16-bit prime index wraps twice), 4999 / 9999 primes; cofactor with maxlarge next to 2^31 / 2^32, accepted cofactors next to 2^32 and 2^64, |x| of exactly "
        "63..65, 127..129, 191..193, 250, 254, 255 bits; FBase::new with n of exactly 63..512 bits; then factor bases: {40, 600, 1900, 1999/2000 (pskip boundary), 3600, 5000, 10000, 23000} primes, every prime kept with probability 1/2 "
        "(0.9/1.0 for the dense variants: bucket overflows), so that the prime-size classes 2^13, 2^14, 2^15, 2^16, 2^19 are crossed; "
        "root tables random with r < p, single-root primes (r1 = r2, the OFFSET_NONE marker) with probability 0/3%/20% among p < 32768; "
        "scripts {plain, partial (skip k blocks, then report), recycle (tables of 1 or 2 previous sieves with other roots), rehash "
        "(two interval shifts as qsieve does), overflow (17..29 primes of one size class with both roots in one 256-wide bucket), "
        "overflow-lost (36..59 primes: more than 32 overflows), overflow-recycle, loverflow (> 1024 hits in one 16384-wide bucket)} x "
        "late-block (14000/23000 primes, 9..20 blocks, plain/recycle/rehash: second hits of primes >= 2^18) x nblocks in 0..12, start offsets {0, -M/2, random 40-bit}, root hint none/Some; the harness picks the threshold so that about "
        "`want` positions are reported per block; every reported position is judged against EVERY factor-base prime; bucket tables "
        "(svt/svl) through the hooks: spread and concentrated adds, with and without reset; cofactor: products of listed primes times "
        "{1, prime, large prime, double large prime, huge} with valuations up to 64 for 2, 3, 5, lists with extra indices/duplicates/any "
        "order; the oracle recomputes the bucket fill from (P, roots, nblocks): the implementation's overflow counters must equal "
        "sum max(0, hits - 32) and a missing prime is excused only in a bucket that really overflows; non-trivial = at least one "
        "position reported (sv) / any request (others); distinct by request line")
MODELLED = [
    "sieve::Sieve::new: pskip/idxskip, cursor initialisation of the first size class (u16 casts, OFFSET_NONE for r1 = r2), registration of "
    "every hit of the second class (unrolled loop + two tail loops, in the order of the code) and of the third class, fresh or recycled "
    "(asserted sizes, reset) tables; Sieve::{rehash, recycle, next_block}",
    "sieve::Sieve::sieve_block: cursor update of the skipped primes (modu16 as %), of the classes log <= 12 (double loop) and 13..15 "
    "(single loop), mem::swap of the two cursor arrays, existence of the table slices it reads",
    "sieve::Sieve::smooths, second half ('Now find factors'): modu16 tests for p < 2^14, r == off || r == off + p (u32 comparison) for "
    "2^14 <= p < 2^15, SieveTable lookup (bucket + 32 overflow slots, 8-bit prime index, candidate walk over the class range, is_factor), "
    "SieveTableLarge lookup (bucket + overflow vector, 16-bit index, stride 2^16, is_factor)",
    "sieve::SieveTable::{new, reset, add, add_overflow, bucket}, SieveTableLarge::{new, reset, add, add_overflow, bucket_offsets}",
    "fbase::cofactor (trial division of the listed primes, size tests, single/double large prime split, the debug assertion through "
    "a model of fbase::certainly_composite on the Montgomery routines of C07)",
    "fbase::FBase::new: the incremental idx_by_log loop (fbaseIbl), compared with the code on the primes FBase::new selects",
    "sieve::Sieve::sieve_block, log accumulation (Ymq/Model/SieveLog.lean, one model per build profile): the byte array blk as the "
    "ordered list of all `blk[off] += log` sites (classes 2..12: 4-at-a-time unrolled loop + two tail loops per prime; classes 13..15 "
    "per cursor; bucket entries of the size-class tables, then of the large tables, overflow slots not accumulated; skipped primes "
    "not accumulated) applied with u8 semantics (checked: panic on overflow, release: wrap); Sieve::smooths first half: skipbits, "
    "threshold2, threshold2 - 1 (underflow), mzeros (u32 product), 16-byte chunk test, per-byte test, skipped-prime compensation and "
    "root-distance compensation in u8/i32 arithmetic of the profile, final comparison with the threshold",
]
UNMODELLED = [
    "the SIMD intrinsics of the threshold scan (wide::u8x16 max/compare) are modelled by their meaning (some byte of the 16-byte "
    "chunk exceeds threshold2 - 1)",
    "accumulator_spec / accumulator_no_overflow are GENERAL (any factor-base size: cursors, size-class tables, SieveTableLarge; "
    "path new -> any number of rounds [sieve the whole interval, rehash(roots)] -> b < nblocks rounds -> sieve_block, the path "
    "of listed_complete_rehash): blk[x] = sum of bitlen p over the non-skipped primes < 32768 with a root (given to new) at "
    "block rs.length*nblocks+b, plus sum of bitlen p over ALL primes >= 32768 with a root of the last root table at block b; "
    "exact when no table lost an entry, <= otherwise (entries lost to a bucket overflow are really not added); "
    "accumulator_no_overflow needs no hypothesis on the overflow counters. Hypotheses kept: the two roots of a prime >= 32768 "
    "differ in the last root table (debug_assert in new; rehash registers an equal root twice), recycled tables have the same "
    "nblocks, every round sieves the whole interval before rehash. The former accumulator_spec_partial / "
    "accumulator_no_overflow_partial are renamed accumulator_spec_hits / accumulator_no_overflow_hits (hits-level lemmas); the "
    "closed form is also checked on the code by the independent oracle",
    "log_sum_bound gives the region where the u8 log accumulators cannot overflow (bitlen(value) + number "
    "of distinct prime divisors <= 256); beyond it the overflow is reachable (finding reported: 398-bit n, Algo::Qs, checked profile)",
    "Dividers::{modu16, modi64, divmod_uint} are modelled as %, / (property C08); fbase::try_factor64 (Pollard rho / ECM) is a parameter "
    "of the cofactor model (the driver replays the pair returned by the implementation)",
    "outside the contract, documented and kept away from the generators: (a) Sieve::smooths with threshold 0 (`threshold2 - 1` "
    "underflows: panic at sieve.rs:576 in the checked profile): every caller passes n.bits/2 + log2(M) - max_cofactor.bits which is "
    ">= 1 for the parameter tables (a non-positive target would underflow in the caller first; parameters are C20/C03); (b) "
    "fbase::cofactor with maxlarge >= 2^32 (maxlarge * maxlarge overflows u64: model and checked profile panic, release wraps; "
    "corpus line, chk only): every caller clamps/asserts maxlarge <= 2^32 - 1 (C20 *_maxlarge_ok); (c) cofactor on the value 0 with "
    "a non-empty list never terminates (model: fuel exhausted = panic; not sent to the code): P(x) = 0 needs n to be a perfect "
    "square, which factor() removes before any sieve (x = 0 with an empty list is in the corpus)",
    "memory safety of get_unchecked / transmute((u8,u8)) layouts: the model indexes the same cells and returns `panic` where an index "
    "leaves the array, it does not model undefined behaviour",
]
CLAIM = ("Lean theorems, for all factor bases / root tables / block numbers / positions, about an executable model of sieve.rs and "
         "fbase::cofactor: after Sieve::new (fresh or recycled tables with arbitrary stale contents) and any number of "
         "sieve_block/next_block rounds the cursor of every small prime is (root - b*32768) mod p and reduced; the tests smooths applies "
         "(modu16(r) == off; r == off || r == off + p) hold exactly when the position is congruent to the root; every (offset, prime) "
         "added to a bucket table is found by the lookup except for exactly n_overflows - 32 counted losses (large tables: none); "
         "reset hides every stale entry; hence the factor list of ANY position contains every factor-base prime whose root matches, up "
         "to the counted losses of the size classes 16..18 (also after any number of rehash calls); on valid inputs no panic site of the modelled code is "
         "reached, with fresh or recycled tables, after rehash, and in cofactor (no_panic, no_panic_rehash, cofactor_no_panic); the idx_by_log "
         "loop of FBase::new yields the class partition the sieve relies on (fbase_new_classes); the byte array of sieve_block is the sum "
         "of the logs of its += sites, each prime adding its bit length once per position congruent to a cursor; the checked model "
         "panics exactly when a position's total reaches 256 (witness: the recorded finding as a theorem), never below the "
         "log_sum_bound region; smooths reports exactly the positions whose byte exceeds threshold2 and whose corrected value reaches "
         "the threshold; cofactor's factors multiply back and its cofactor has no "
         "listed prime factor, so it is 1 or has only prime factors above the bound when the list is complete. The model is tied to the "
         "code by differential runs through the public API (cursor hashes, overflow counters, bucket fill, factor lists) in the release "
         "and checked profiles; an independent Python oracle judges every reported position against every factor-base prime.")
LEVEL_NOTE = ("Trusted: Lean kernel (+propext, Classical.choice, Quot.sound); the hand-written model's correspondence to the Rust code "
              "(sampled by the harness in both profiles, not proved); Python integers in the oracle. Panic freedom of the modelled code is "
              "proved (no_panic, no_panic_rehash, cofactor_no_panic) under named hypotheses. Which positions are reported is modelled per build profile (Model/SieveLog.lean; two of its theorems are _partial). Dividers "
              "routines are taken exact (C08), try_factor64 enters as a named hypothesis.")
TECHNIQUE = "Lean 4 proof about a hand model + differential correspondence check + spec oracle"
