import Ymq.Lemmas.Arith
import Mathlib.NumberTheory.LegendreSymbol.Basic

namespace Ymq.Arith
open Ymq.Limbs (W)

/-! ### sqrt_mod -/

/-- the value `n·k·k mod p` examined by iteration `k` -/
def tsNk (n p k : Nat) : Nat := n * k % p * k % p

/-- iteration `k` of the Tonelli–Shanks variant succeeds -/
def tsOk (n p q1 k : Nat) : Prop :=
  (tsNk n p k ^ q1 % p) * (tsNk n p k ^ q1 % p) % p = tsNk n p k

/-- the value returned by a successful iteration `k` -/
def tsVal (n p q1 k : Nat) : Nat := (tsNk n p k ^ q1 % p) * (k ^ (p - 2) % p) % p

theorem tsLoop_some (B n p q1 : Nat) (hq1 : q1 ≠ 0) (hp : 2 < p) :
    ∀ (f k : Nat) (res : Option Nat), tsLoop B n p q1 f k = some res →
    ∃ j, k ≤ j ∧ (∀ i, k ≤ i → i < j → ¬ tsOk n p q1 i) ∧ tsOk n p q1 j ∧ res = some (tsVal n p q1 j) := by
  intro f
  induction f with
  | zero => intro k res h; simp [tsLoop] at h
  | succ f ih =>
    intro k res h
    unfold tsLoop at h
    cases h1 : mulmod B n k p with
    | none => rw [h1] at h; simp at h
    | some nk0 =>
      rw [h1] at h; simp only [] at h
      cases h2 : mulmod B nk0 k p with
      | none => rw [h2] at h; simp at h
      | some nk =>
        rw [h2] at h; simp only [] at h
        cases h3 : powMod B nk q1 p with
        | none => rw [h3] at h; simp at h
        | some root =>
          rw [h3] at h; simp only [] at h
          cases h4 : mulmod B root root p with
          | none => rw [h4] at h; simp at h
          | some rr =>
            rw [h4] at h; simp only [] at h
            obtain ⟨e1, _, _⟩ := mulmod_some h1
            obtain ⟨e2, _, _⟩ := mulmod_some h2
            obtain ⟨_, e3⟩ := powMod_some h3
            obtain ⟨e4, _, _⟩ := mulmod_some h4
            rw [if_neg hq1] at e3
            have hnk : nk = tsNk n p k := by rw [e2, e1]; rfl
            by_cases hs : rr = nk
            · rw [if_pos hs, if_neg (by omega)] at h
              cases h5 : powMod B k (p - 2) p with
              | none => rw [h5] at h; simp at h
              | some ki =>
                rw [h5] at h; simp only [] at h
                obtain ⟨_, e5⟩ := powMod_some h5
                rw [if_neg (by omega)] at e5
                cases h6 : mulmod B root ki p with
                | none => rw [h6] at h; simp at h
                | some v =>
                  rw [h6] at h
                  simp only [Option.map_some] at h
                  injection h with h
                  obtain ⟨e6, _, _⟩ := mulmod_some h6
                  refine ⟨k, le_refl _, fun i h1 h2 => by omega, ?_, ?_⟩
                  · unfold tsOk; rw [← hnk, ← e3, ← e4, hs]
                  · rw [← h, e6, e3, e5, hnk]; rfl
            · rw [if_neg hs] at h
              obtain ⟨j, hj1, hj2, hj3, hj4⟩ := ih _ _ h
              refine ⟨j, by omega, ?_, hj3, hj4⟩
              intro i hi1 hi2
              by_cases hik : i = k
              · subst hik
                unfold tsOk
                rw [← hnk, ← e3, ← e4]; exact hs
              · exact hj2 i (by omega) hi2

section prime
variable {p : Nat} [hpf : Fact p.Prime]

theorem cast_ne_zero_of_mod {n : Nat} (h : n % p ≠ 0) : (n : ZMod p) ≠ 0 := by
  intro h0
  rw [ZMod.natCast_eq_zero_iff] at h0
  exact h (Nat.mod_eq_zero_of_dvd h0)

theorem tsNk_cast (n k : Nat) : ((tsNk n p k : Nat) : ZMod p) = (n : ZMod p) * k * k := by
  unfold tsNk
  rw [ZMod.natCast_mod]; push_cast; rw [ZMod.natCast_mod]; push_cast; ring

omit hpf in
theorem tsNk_mod (n k : Nat) : tsNk n p k % p = tsNk n p k := by
  unfold tsNk; exact Nat.mod_mod _ _

theorem tsOk_iff (n q1 k : Nat) :
    tsOk n p q1 k ↔ (((n : ZMod p) * k * k) ^ q1) * (((n : ZMod p) * k * k) ^ q1) = (n : ZMod p) * k * k := by
  unfold tsOk
  rw [← tsNk_cast, ← tsNk_mod n k (p := p), ← ZMod.natCast_eq_natCast_iff', tsNk_mod]
  push_cast
  rw [ZMod.natCast_mod]
  push_cast
  rfl

/-- a quadratic residue makes some iteration `k < p` succeed -/
theorem ts_exists (n q1 : Nat) (hn : n % p ≠ 0) (hsq : IsSquare (n : ZMod p)) :
    ∃ k, 1 ≤ k ∧ k < p ∧ tsOk n p q1 k := by
  obtain ⟨y, hy⟩ := hsq
  have hN := cast_ne_zero_of_mod hn
  have hy0 : y ≠ 0 := by rintro rfl; simp at hy; exact hN hy
  have hyi : y⁻¹ ≠ 0 := inv_ne_zero hy0
  refine ⟨(y⁻¹).val, ?_, ZMod.val_lt _, ?_⟩
  · have : (y⁻¹).val ≠ 0 := by rwa [Ne, ZMod.val_eq_zero]
    omega
  · rw [tsOk_iff, ZMod.natCast_zmod_val, hy]
    have : y * y * y⁻¹ * y⁻¹ = 1 := by field_simp
    rw [this]; simp

end prime

theorem sqrtMod_sound (B n p r : Nat) (hp : p.Prime) (h : sqrtMod B n p = some (some r)) :
    r < p ∧ r * r % p = n % p := by
  have : Fact p.Prime := ⟨hp⟩
  have hp0 : 0 < p := hp.pos
  unfold sqrtMod at h
  rw [if_neg (by omega)] at h
  simp only [] at h
  by_cases hn0 : n % p = 0
  · rw [if_pos hn0] at h
    injection h with h; injection h with h; subst h
    exact ⟨hp0, by rw [hn0]; simp⟩
  rw [if_neg hn0] at h
  by_cases hp2 : p = 2
  · rw [if_pos hp2] at h
    injection h with h; injection h with h; subst h
    subst hp2
    have : n % 2 = 1 := by omega
    rw [this]; decide
  rw [if_neg hp2] at h
  have hp3 : 2 < p := by have := hp.two_le; omega
  by_cases h34 : p % 4 = 3
  · rw [if_pos h34] at h
    cases h1 : powMod B (n % p) (p / 4 + 1) p with
    | none => rw [h1] at h; simp at h
    | some r1 =>
      rw [h1] at h; simp only [] at h
      cases h2 : mulmod B r1 r1 p with
      | none => rw [h2] at h; simp at h
      | some rr =>
        rw [h2] at h; simp only [] at h
        injection h with h
        split_ifs at h with hrr
        injection h with h; subst h
        obtain ⟨e2, _, _⟩ := mulmod_some h2
        obtain ⟨_, e1⟩ := powMod_some h1
        rw [if_neg (by omega)] at e1
        refine ⟨by rw [e1]; exact Nat.mod_lt _ hp0, ?_⟩
        rw [← e2, hrr]
  rw [if_neg h34] at h
  cases h1 : powMod B (n % p) (p / 2) p with
  | none => rw [h1] at h; simp at h
  | some e =>
    rw [h1] at h; simp only [] at h
    by_cases he : e = 1
    · rw [if_neg (by simpa using he)] at h
      split_ifs at h with c1 c2
      cases h2 : oddPart (p + 1) (p / 2) with
      | none => rw [h2] at h; simp at h
      | some q =>
        rw [h2] at h; simp only [] at h
        obtain ⟨j, hj1, hj2, hj3, hj4⟩ := tsLoop_some B (n % p) p (q / 2 + 1) (by omega) hp3 _ _ _ h
        injection hj4 with hj4
        -- n is a square
        obtain ⟨_, e1⟩ := powMod_some h1
        rw [if_neg (by omega), he] at e1
        have hN : ((n % p : Nat) : ZMod p) ≠ 0 := cast_ne_zero_of_mod (by rwa [Nat.mod_mod])
        have hsq : IsSquare ((n % p : Nat) : ZMod p) := by
          rw [ZMod.euler_criterion p hN]
          have : (((n % p) ^ (p / 2) % p : Nat) : ZMod p) = ((1 : Nat) : ZMod p) := by rw [← e1]
          rw [ZMod.natCast_mod] at this
          push_cast at this
          exact this
        obtain ⟨k0, hk1, hk2, hk3⟩ := ts_exists (n % p) (q / 2 + 1) (by rwa [Nat.mod_mod]) hsq
        have hjk : j ≤ k0 := by
          by_contra hlt
          exact hj2 k0 hk1 (by omega) hk3
        have hjp : j < p := by omega
        have hj0 : (j : ZMod p) ≠ 0 := by
          intro h0
          rw [ZMod.natCast_eq_zero_iff] at h0
          have := Nat.le_of_dvd (by omega) h0
          omega
        subst hj4
        refine ⟨Nat.mod_lt _ hp0, ?_⟩
        have hgoal : ((tsVal (n % p) p (q / 2 + 1) j * tsVal (n % p) p (q / 2 + 1) j : Nat) : ZMod p)
            = ((n % p : Nat) : ZMod p) := by
          unfold tsVal
          rw [tsOk_iff] at hj3
          simp only [Nat.cast_mul, ZMod.natCast_mod, Nat.cast_pow, tsNk_cast]
          simp only [ZMod.natCast_mod] at hj3
          generalize (n : ZMod p) = N at *
          have hf : (j : ZMod p) ^ (p - 1) = 1 := ZMod.pow_card_sub_one_eq_one hj0
          have hpp : (j : ZMod p) ^ (p - 2) * (j : ZMod p) = 1 := by
            rw [← pow_succ]
            have : p - 2 + 1 = p - 1 := by omega
            rw [this, hf]
          calc (N * ↑j * ↑j) ^ (q / 2 + 1) * (j : ZMod p) ^ (p - 2) * ((N * ↑j * ↑j) ^ (q / 2 + 1) * (j : ZMod p) ^ (p - 2))
              = ((N * ↑j * ↑j) ^ (q / 2 + 1) * (N * ↑j * ↑j) ^ (q / 2 + 1)) * ((j : ZMod p) ^ (p - 2) * (j : ZMod p) ^ (p - 2)) := by ring
            _ = (N * ↑j * ↑j) * ((j : ZMod p) ^ (p - 2) * (j : ZMod p) ^ (p - 2)) := by rw [hj3]
            _ = N * (((j : ZMod p) ^ (p - 2) * j) * ((j : ZMod p) ^ (p - 2) * j)) := by ring
            _ = N := by rw [hpp]; ring
        rw [ZMod.natCast_eq_natCast_iff', Nat.mod_mod] at hgoal
        exact hgoal
    · rw [if_pos (by simpa using he)] at h
      simp at h

theorem tsLoop_ne_none (B n p q1 : Nat) (hq1 : q1 ≠ 0) (hp : 2 < p) (f k : Nat) :
    tsLoop B n p q1 f k ≠ some none := by
  intro h
  obtain ⟨j, _, _, _, h4⟩ := tsLoop_some B n p q1 hq1 hp f k none h
  simp at h4

/-- `None` is returned only for quadratic non-residues (p prime) -/
theorem sqrtMod_none (B n p : Nat) (hp : p.Prime) (h : sqrtMod B n p = some none) :
    ¬ ∃ x, x * x % p = n % p := by
  have : Fact p.Prime := ⟨hp⟩
  have hp0 : 0 < p := hp.pos
  unfold sqrtMod at h
  rw [if_neg (by omega)] at h
  simp only [] at h
  by_cases hn0 : n % p = 0
  · rw [if_pos hn0] at h; simp at h
  rw [if_neg hn0] at h
  by_cases hp2 : p = 2
  · rw [if_pos hp2] at h; simp at h
  rw [if_neg hp2] at h
  have hp3 : 2 < p := by have := hp.two_le; omega
  have hN : (n : ZMod p) ≠ 0 := cast_ne_zero_of_mod hn0
  -- a square root would make n a square in ZMod p
  have key : (∃ x, x * x % p = n % p) → (n : ZMod p) ^ (p / 2) = 1 := by
    rintro ⟨x, hx⟩
    rw [← ZMod.euler_criterion p hN]
    refine ⟨(x : ZMod p), ?_⟩
    rw [← ZMod.natCast_eq_natCast_iff'] at hx
    push_cast at hx
    exact hx.symm
  intro hex
  have hE := key hex
  by_cases h34 : p % 4 = 3
  · rw [if_pos h34] at h
    cases h1 : powMod B (n % p) (p / 4 + 1) p with
    | none => rw [h1] at h; simp at h
    | some r1 =>
      rw [h1] at h; simp only [] at h
      cases h2 : mulmod B r1 r1 p with
      | none => rw [h2] at h; simp at h
      | some rr =>
        rw [h2] at h; simp only [] at h
        injection h with h
        split_ifs at h with hrr
        apply hrr
        obtain ⟨e2, _, _⟩ := mulmod_some h2
        obtain ⟨_, e1⟩ := powMod_some h1
        rw [if_neg (by omega)] at e1
        rw [e2, e1, ← Nat.mod_mod n p, ← ZMod.natCast_eq_natCast_iff']
        simp only [Nat.cast_mul, ZMod.natCast_mod, Nat.cast_pow]
        have hexp : p / 4 + 1 + (p / 4 + 1) = p / 2 + 1 := by omega
        rw [← pow_add, hexp, pow_succ, hE, one_mul]
  · rw [if_neg h34] at h
    cases h1 : powMod B (n % p) (p / 2) p with
    | none => rw [h1] at h; simp at h
    | some e =>
      rw [h1] at h; simp only [] at h
      obtain ⟨_, e1⟩ := powMod_some h1
      rw [if_neg (by omega)] at e1
      by_cases he : e = 1
      · rw [if_neg (by simpa using he)] at h
        split_ifs at h with c1 c2
        cases h2 : oddPart (p + 1) (p / 2) with
        | none => rw [h2] at h; simp at h
        | some q =>
          rw [h2] at h; simp only [] at h
          exact tsLoop_ne_none B _ p _ (by omega) hp3 _ _ h
      · apply he
        rw [e1, ← Nat.mod_eq_of_lt (by omega : 1 < p), ← ZMod.natCast_eq_natCast_iff']
        simp only [ZMod.natCast_mod, Nat.cast_pow, Nat.cast_one]
        exact hE

theorem tzAux_dvd : ∀ (f n : Nat), 2 ^ tzAux f n ∣ n := by
  intro f
  induction f with
  | zero => intro n; simp [tzAux]
  | succ f ih =>
    intro n
    unfold tzAux
    by_cases h : n % 2 = 1
    · rw [if_pos h]; simp
    · rw [if_neg h]
      obtain ⟨c, hc⟩ := ih (n / 2)
      refine ⟨c, ?_⟩
      have h2 : n = 2 * (n / 2) := by omega
      generalize tzAux f (n / 2) = t at *
      rw [Nat.pow_add]
      calc n = 2 * (n / 2) := h2
        _ = 2 * (2 ^ t * c) := by rw [← hc]
        _ = 2 ^ 1 * 2 ^ t * c := by ring

theorem tz64_lt (n : Nat) (h0 : n ≠ 0) (hn : n < 2 ^ 24) : tz64 n < 24 := by
  unfold tz64
  rw [if_neg h0]
  by_contra hge
  have h1 := Nat.le_of_dvd (by omega) (tzAux_dvd 64 n)
  have : (2:Nat) ^ 24 ≤ 2 ^ tzAux 64 n := Nat.pow_le_pow_right (by decide) (by omega)
  omega

theorem oddPart_some : ∀ (f q : Nat), 0 < q → q < f → ∃ r, oddPart f q = some r := by
  intro f
  induction f with
  | zero => intro q _ h; omega
  | succ f ih =>
    intro q h0 hf
    unfold oddPart
    by_cases he : q % 2 = 0
    · rw [if_pos he]; exact ih _ (by omega) (by omega)
    · rw [if_neg he]; exact ⟨_, rfl⟩

/-- the loop finds a root when some iteration `k0 < p` succeeds and the products fit -/
theorem tsLoop_total (B n p q1 k0 : Nat) (hq1 : q1 ≠ 0) (hp : 2 < p) (hn : n < p)
    (hB : (p - 1) * (p - 1) < B) (hk0p : k0 < p) (hok : tsOk n p q1 k0) :
    ∀ (f k : Nat), k ≤ k0 → k0 < k + f → ∃ res, tsLoop B n p q1 f k = some res := by
  have hp0 : 0 < p := by omega
  have hlt : ∀ a b, a < p → b < p → a * b < B := by
    intro a b ha hb
    calc a * b ≤ (p - 1) * (p - 1) := Nat.mul_le_mul (by omega) (by omega)
      _ < B := hB
  intro f
  induction f with
  | zero => intro k h1 h2; omega
  | succ f ih =>
    intro k hk hkf
    have hkp : k < p := by omega
    unfold tsLoop
    rw [mulmod_eq hp0 (hlt _ _ hn hkp)]
    simp only []
    rw [mulmod_eq hp0 (hlt _ _ (Nat.mod_lt _ hp0) hkp)]
    simp only []
    rw [powMod_eq hp0 hB, if_neg hq1]
    simp only []
    rw [mulmod_eq hp0 (hlt _ _ (Nat.mod_lt _ hp0) (Nat.mod_lt _ hp0))]
    simp only []
    by_cases hs : (n * k % p * k % p) ^ q1 % p * ((n * k % p * k % p) ^ q1 % p) % p = n * k % p * k % p
    · rw [if_pos hs, if_neg (by omega), powMod_eq hp0 hB]
      simp only []
      rw [mulmod_eq hp0 (hlt _ _ (Nat.mod_lt _ hp0) (by
        split_ifs
        · omega
        · exact Nat.mod_lt _ hp0))]
      exact ⟨_, rfl⟩
    · rw [if_neg hs]
      have hne : k ≠ k0 := by
        rintro rfl
        exact hs hok
      exact ih (k + 1) (by omega) (by omega)

theorem sqrtMod_no_panic (B n p : Nat) (hp : p.Prime) (hB : (p - 1) * (p - 1) < B)
    (hsmall : p % 4 = 3 ∨ p < 2 ^ 24) : ∃ res, sqrtMod B n p = some res := by
  have : Fact p.Prime := ⟨hp⟩
  have hp0 : 0 < p := hp.pos
  unfold sqrtMod
  rw [if_neg (by omega)]
  simp only []
  by_cases hn0 : n % p = 0
  · rw [if_pos hn0]; exact ⟨_, rfl⟩
  rw [if_neg hn0]
  by_cases hp2 : p = 2
  · rw [if_pos hp2]; exact ⟨_, rfl⟩
  rw [if_neg hp2]
  have hp3 : 2 < p := by have := hp.two_le; omega
  have hnp : n % p < p := Nat.mod_lt _ hp0
  by_cases h34 : p % 4 = 3
  · rw [if_pos h34, powMod_eq hp0 hB]
    simp only []
    rw [mulmod_eq hp0 (by
      have : (n % p) ^ (p / 4 + 1) % p < p := Nat.mod_lt _ hp0
      rw [if_neg (by omega)]
      calc _ ≤ (p - 1) * (p - 1) := Nat.mul_le_mul (by omega) (by omega)
        _ < B := hB)]
    exact ⟨_, rfl⟩
  · rw [if_neg h34, powMod_eq hp0 hB, if_neg (by omega)]
    simp only []
    have hp24 : p < 2 ^ 24 := by
      rcases hsmall with h | h
      · exact absurd h h34
      · exact h
    by_cases he : (n % p) ^ (p / 2) % p = 1
    · rw [if_neg (by simpa using he)]
      have hW : W = 2 ^ 64 := by decide
      have hpW : p % W = p := Nat.mod_eq_of_lt (by rw [hW]; omega)
      rw [hpW, if_neg (by omega), if_neg (by have := tz64_lt (p - 1) (by omega) (by omega); omega)]
      obtain ⟨q, hq⟩ := oddPart_some (p + 1) (p / 2) (by omega) (by omega)
      rw [hq]
      simp only []
      -- Euler: n is a square, so some k0 < p succeeds
      have hN : ((n % p : Nat) : ZMod p) ≠ 0 := cast_ne_zero_of_mod (by rwa [Nat.mod_mod])
      have hsq : IsSquare ((n % p : Nat) : ZMod p) := by
        rw [ZMod.euler_criterion p hN]
        have : (((n % p) ^ (p / 2) % p : Nat) : ZMod p) = ((1 : Nat) : ZMod p) := by rw [he]
        rw [ZMod.natCast_mod] at this
        push_cast at this
        exact this
      obtain ⟨k0, hk1, hk2, hk3⟩ := ts_exists (n % p) (q / 2 + 1) (by rwa [Nat.mod_mod]) hsq
      exact tsLoop_total B (n % p) p (q / 2 + 1) k0 (by omega) hp3 hnp hB hk2 hk3 tsIters 1 hk1
        (by unfold tsIters; omega)
    · rw [if_pos (by simpa using he)]; exact ⟨_, rfl⟩

end Ymq.Arith
