/-
The two loops of squfof.rs and the code between / after them, on a reduced state (`Inv`):
no panic site is reached, the first loop either gives up or stops on a state whose `q` is the
square `q_sqrt²`, the inverse square root form `(p0, q_sqrt, (N − p0²)/q_sqrt)` is reduced again,
the second loop gives up or stops with `1 ≤ p_prev ≤ ⌊√N⌋`.
-/
import Ymq.Lemmas.SqufofIsqrt
import Ymq.Lemmas.SqufofStep

namespace Ymq.Squfof

/-- `maybe_square` cannot overflow on a `u64`: `n + 1` is evaluated only when `n & 6 == 0` or
`n & 7 == 4`, which `2^64 − 1` does not satisfy. -/
theorem maybeSquare_some {n : Nat} (h : n < W) : ∃ b, maybeSquare n = some b := by
  unfold maybeSquare
  unfold W at *
  split_ifs with h1 h2
  · exfalso; omega
  · exact ⟨_, rfl⟩
  · exact ⟨_, rfl⟩

theorem step_q0 (s P Q' : Nat) : step s P Q' 0 = none := by
  unfold step
  split_ifs <;> first | rfl | omega

variable {seed : Nat → Nat} {N s : Nat}

/-- first loop: gives up (`some none`) or breaks on `(q_sqrt, p)` with `(p, Q, q_sqrt²)` reduced -/
theorem fwdLoop_ok (hs : SeedOK seed) (c : Ctx N s) (iters : Nat) :
    ∀ (f i P Q' Q : Nat), Inv N s P Q' Q → i ≤ iters → f + i = iters + 1 →
      fwdLoop seed s iters f i P Q' Q = some none ∨
      ∃ qs p Qb, fwdLoop seed s iters f i P Q' Q = some (some (qs, p)) ∧ Inv N s p Qb (qs * qs) := by
  intro f
  induction f with
  | zero => intro i P Q' Q _ h1 h2; omega
  | succ f ih =>
    intro i P Q' Q hinv h1 h2
    rw [fwdLoop]
    by_cases hi : i = iters
    · left; rw [if_pos hi]
    · rw [if_neg hi]
      obtain ⟨p, qn, hst, hinv'⟩ := step_ok c hinv
      rw [hst]
      simp only []
      have hqnN : qn ≤ N := by
        have h1 : qn ≤ Q * qn := Nat.le_mul_of_pos_left qn (hinv.qpos c)
        have := hinv'.norm; omega
      have hqnW : qn < W := Nat.lt_of_le_of_lt hqnN c.lt
      obtain ⟨ms, hms⟩ := maybeSquare_some hqnW
      rw [hms]
      have hrec := ih (i + 1) p Q qn hinv' (by omega) (by omega)
      cases ms with
      | false => exact hrec
      | true =>
        simp only []
        rw [isqrt_eq hs hqnW]
        simp only []
        have hsq : Nat.sqrt qn * Nat.sqrt qn ≤ qn := Nat.sqrt_le qn
        rw [if_neg (by omega)]
        by_cases hc : qn = Nat.sqrt qn * Nat.sqrt qn ∧ i % 2 = 1
        · rw [if_pos hc]
          right
          refine ⟨Nat.sqrt qn, p, Q, rfl, ?_⟩
          rw [← hc.1]; exact hinv'
        · rw [if_neg hc]; exact hrec

/-- second loop: gives up or stops with `1 ≤ p_prev ≤ s` -/
theorem invLoop_ok (c : Ctx N s) (iters : Nat) :
    ∀ (f i P Q' Q : Nat), Inv N s P Q' Q →
      invLoop s iters f i P Q' Q = some none ∨
      ∃ pf, invLoop s iters f i P Q' Q = some (some pf) ∧ 1 ≤ pf ∧ pf ≤ s := by
  intro f
  induction f with
  | zero =>
    intro i P Q' Q hinv
    right; exact ⟨P, rfl, hinv.ppos, hinv.ple⟩
  | succ f ih =>
    intro i P Q' Q hinv
    rw [invLoop]
    by_cases hi : i = iters
    · left; rw [if_pos hi]
    · rw [if_neg hi]
      obtain ⟨p, qn, hst, hinv'⟩ := step_ok c hinv
      rw [hst]
      simp only []
      by_cases hp : p = P
      · rw [if_pos hp]; right; exact ⟨P, rfl, hinv.ppos, hinv.ple⟩
      · rw [if_neg hp]; exact ih _ _ _ _ hinv'

/-- outcome of a round that did not leave through the square test: `continue`, or the gcd exit
with a `p_prev` in `[1, s]` -/
def GcdExit (n s : Nat) (r : Step) : Prop :=
  r = .next ∨ ∃ pf, 1 ≤ pf ∧ pf ≤ s ∧ 1 < Nat.gcd n pf ∧ r = .ret (Nat.gcd n pf) (n / Nat.gcd n pf)

/-- the inverse square root form and everything after it -/
theorem finish_ok (c : Ctx N s) (n iters : Nat) {qs p Qb : Nat} (hinv : Inv N s p Qb (qs * qs)) :
    ∃ r, finish n N s iters qs p = some r ∧ GcdExit n s r := by
  have hs := c.s_lt
  have hNW := c.lt
  have hqq := hinv.qpos c
  have hqs : 1 ≤ qs := by
    rcases Nat.eq_zero_or_pos qs with h | h
    · subst h; omega
    · exact h
  have hple := hinv.ple
  have hnorm := hinv.norm
  obtain ⟨b, hb⟩ : ∃ b, b = (s - p) / qs := ⟨_, rfl⟩
  have hb1 : b * qs ≤ s - p := by rw [hb]; exact Nat.div_mul_le_self _ _
  have hb2 : s - p < b * qs + qs := by
    have := Nat.lt_mul_div_succ (s - p) (show 0 < qs by omega)
    rw [← hb] at this
    have e : qs * (b + 1) = b * qs + qs := by ring
    omega
  obtain ⟨p0, hp0⟩ : ∃ p0, p0 = b * qs + p := ⟨_, rfl⟩
  have hp0s : p0 ≤ s := by omega
  have hp0sq : p0 * p0 < N := Nat.lt_of_le_of_lt (Nat.mul_le_mul hp0s hp0s) c.lo
  -- exact division
  have hdiv : N - p0 * p0 = qs * (Qb * qs - b * (b * qs + 2 * p)) := by
    rw [Nat.mul_sub]
    have e1 : N = p * p + qs * (Qb * qs) := by rw [← hnorm]; ring
    have e2 : p0 * p0 = p * p + qs * (b * (b * qs + 2 * p)) := by rw [hp0]; ring
    omega
  obtain ⟨q1, hq1⟩ : ∃ q1, q1 = (N - p0 * p0) / qs := ⟨_, rfl⟩
  have hq1' : qs * q1 = N - p0 * p0 := by
    rw [hq1, hdiv, Nat.mul_div_cancel_left _ (show 0 < qs by omega)]
  have hinv0 : Inv N s p0 qs q1 := ⟨by omega, by have := hinv.ppos; omega, hp0s, by omega⟩
  unfold finish
  simp only []
  rw [← hb, ← hp0, ← hq1]
  rw [if_neg (by omega), if_neg (by omega), if_neg (by unfold W; omega),
    if_neg (by unfold W; omega), if_neg (by omega), if_neg (by omega)]
  rcases invLoop_ok c iters iters 1 p0 qs q1 hinv0 with h | ⟨pf, h, h1, h2⟩
  · rw [h]; exact ⟨_, rfl, Or.inl rfl⟩
  · rw [h]
    simp only []
    by_cases hg : Nat.gcd n pf > 1
    · rw [if_pos hg]
      have : n % Nat.gcd n pf = 0 := Nat.mod_eq_zero_of_dvd (Nat.gcd_dvd_left n pf)
      rw [if_neg (by omega)]
      exact ⟨_, rfl, Or.inr ⟨pf, h1, h2, hg, rfl⟩⟩
    · rw [if_neg hg]; exact ⟨_, rfl, Or.inl rfl⟩

/-! ### what a returned pair looks like, for ANY seed (no invariant needed) -/

theorem finish_ret {n nk s iters qs p a b : Nat} (h : finish n nk s iters qs p = some (.ret a b)) :
    a * b = n ∧ 1 < a := by
  unfold finish at h
  simp only [] at h
  split_ifs at h with h1 h2 h3 h4 h5 h6
  split at h
  · simp at h
  · simp at h
  · split_ifs at h with h7 h8
    · injection h with h; injection h with ha hb
      subst ha hb
      exact ⟨Nat.mul_div_cancel' (Nat.gcd_dvd_left _ _), h7⟩
    · simp at h

/-- a round returns a pair only through the square test or the guarded gcd -/
theorem attempt_ret {seed : Nat → Nat} {n k a b : Nat} (h : attempt seed n k = some (.ret a b)) :
    a * b = n ∧ ((a = b ∧ a * a = n) ∨ 1 < a) := by
  unfold attempt at h
  simp only [] at h
  by_cases h1 : n * k ≥ W
  · rw [if_pos h1] at h; simp at h
  rw [if_neg h1] at h
  cases hsq : isqrt seed (n * k) with
  | none => rw [hsq] at h; simp at h
  | some nsqrt =>
    rw [hsq] at h
    simp only [] at h
    by_cases h2 : nsqrt * nsqrt ≥ W
    · rw [if_pos h2] at h; simp at h
    rw [if_neg h2] at h
    by_cases h3 : nsqrt * nsqrt = n
    · rw [if_pos h3] at h
      injection h with h; injection h with ha hb
      subst ha hb
      exact ⟨h3, Or.inl ⟨rfl, h3⟩⟩
    rw [if_neg h3] at h
    cases hr : isqrt seed nsqrt with
    | none => rw [hr] at h; simp at h
    | some r =>
      rw [hr] at h
      simp only [] at h
      by_cases h4 : 3 * r ≥ W
      · rw [if_pos h4] at h; simp at h
      rw [if_neg h4] at h
      by_cases h5 : n * k < nsqrt * nsqrt
      · rw [if_pos h5] at h; simp at h
      rw [if_neg h5] at h
      by_cases h6 : n * k - nsqrt * nsqrt = 0
      · rw [if_pos h6] at h; simp at h
      rw [if_neg h6] at h
      cases hf : fwdLoop seed nsqrt (3 * r) (3 * r) 1 nsqrt 1 (n * k - nsqrt * nsqrt) with
      | none => rw [hf] at h; simp [afterFwd] at h
      | some x =>
        cases x with
        | none => rw [hf] at h; simp [afterFwd] at h
        | some qp =>
          obtain ⟨qs, pp⟩ := qp
          rw [hf] at h
          simp only [afterFwd] at h
          obtain ⟨e, g⟩ := finish_ret h
          exact ⟨e, Or.inr g⟩

/-- normal form of a round under the seed hypothesis: both `isqrt` calls are the floor roots and
the three arithmetic panic sites before the first loop are discharged (the `q == 0` skip stays) -/
theorem attempt_eq {seed : Nat → Nat} (hs : SeedOK seed) {n k : Nat} (hlt : n * k < W) :
    attempt seed n k =
      if Nat.sqrt (n * k) * Nat.sqrt (n * k) = n then
        some (.ret (Nat.sqrt (n * k)) (Nat.sqrt (n * k)))
      else if n * k - Nat.sqrt (n * k) * Nat.sqrt (n * k) = 0 then some .next
      else
        afterFwd n (n * k) (Nat.sqrt (n * k)) (3 * Nat.sqrt (Nat.sqrt (n * k)))
          (fwdLoop seed (Nat.sqrt (n * k)) (3 * Nat.sqrt (Nat.sqrt (n * k)))
            (3 * Nat.sqrt (Nat.sqrt (n * k))) 1 (Nat.sqrt (n * k)) 1
            (n * k - Nat.sqrt (n * k) * Nat.sqrt (n * k))) := by
  have h1 : Nat.sqrt (n * k) * Nat.sqrt (n * k) ≤ n * k := Nat.sqrt_le _
  have h2 : Nat.sqrt (n * k) ≤ n * k := Nat.sqrt_le_self _
  have h3 : Nat.sqrt (Nat.sqrt (n * k)) ≤ Nat.sqrt (n * k) := Nat.sqrt_le_self _
  have h4 : Nat.sqrt (n * k) < 4294967296 := by
    by_contra hc
    have : 4294967296 * 4294967296 ≤ Nat.sqrt (n * k) * Nat.sqrt (n * k) :=
      Nat.mul_le_mul (by omega) (by omega)
    unfold W at hlt; omega
  unfold attempt
  simp only []
  rw [if_neg (by omega), isqrt_eq hs hlt]
  simp only []
  rw [isqrt_eq hs (show Nat.sqrt (n * k) < W by omega)]
  simp only []
  rw [if_neg (show ¬ Nat.sqrt (n * k) * Nat.sqrt (n * k) ≥ W by omega)]
  by_cases hsq : Nat.sqrt (n * k) * Nat.sqrt (n * k) = n
  · rw [if_pos hsq, if_pos hsq]
  · rw [if_neg hsq, if_neg hsq,
      if_neg (show ¬ 3 * Nat.sqrt (Nat.sqrt (n * k)) ≥ W by unfold W; omega),
      if_neg (show ¬ n * k < Nat.sqrt (n * k) * Nat.sqrt (n * k) by omega)]

end Ymq.Squfof
