/-
C05 — an abort request stops work promptly and still yields a consistent answer.
Only property theorems live here (helper lemmas: Ymq/Lemmas/Factor*.lean).

In the model `abort` is a field of the stateful oracle: an ARBITRARY function of the oracle
state (which every sub-algorithm call may change). Quantifying over it covers every flip
instant and every non-monotone predicate. The poll points inside the sieves / ECM belong to
the sub-algorithms (C11/C16 side); here: the poll point of `factor_impl` (lib.rs:469).
-/
import Ymq.Lemmas.FactorExample

namespace Ymq.C05
open Ymq.Factor

variable {σ : Type}

/-- **never a wrong product**: under the oracle contract, for EVERY abort behaviour `ab`, every
selector, every fuel and `n` (no precondition at all): a list returned by `factor` multiplies to
exactly `n` (composite entries allowed), is sorted, and every entry divides `n`. -/
theorem abort_never_wrong_product (o : Oracle σ) (hok : OracleOK o) (ab : σ → Nat → Bool × σ)
    (fuel n : Nat) (alg : Algo) (os : σ) (l : List Nat)
    (h : factor { o with abort := ab } fuel n alg os = .ok l) :
    l.prod = n ∧ l.Pairwise (· ≤ ·) ∧ ∀ x ∈ l, x ∣ n := by
  have hok' := hok.with_abort ab
  rcases factor_ok h with ⟨rfl, rfl⟩ | ⟨h0, s', hrun, rfl, _⟩
  · exact ⟨by simp, by simp, by simp⟩
  · have hprod := factorRun_prod hok' h0 hrun
    refine ⟨by rw [sortNat_prod, hprod], sortNat_sorted _, ?_⟩
    intro x hx
    have hx' : x ∈ s'.factors := (sortNat_perm _).mem_iff.mp hx
    exact hprod ▸ List.dvd_prod hx'

/-- **`abort_consistent`** (all ten selectors): under the oracle contract, for EVERY abort
behaviour `ab` (arbitrary stateful function: any flip instant, monotone or not), selector
precondition met and enough fuel (both on the value after trial division, as in
`C03.factor_total`): `factor` returns a list with product exactly `n` or the declared failure
value — no panic, no non-termination of the recursion.

History: before the `fix:` 21688e6 of the `Algo::Rho` arm (see `C03.factor_total`) this needed
the extra hypothesis that `rho` never fails when the selector is Rho
(`abort_consistent_partial`). -/
theorem abort_consistent (o : Oracle σ) (hok : OracleOK o) (ab : σ → Nat → Bool × σ)
    (fuel n : Nat) (alg : Algo) (os : σ)
    (hsel : SelectorPre alg (trialDivideBy 1100 Ymq.Gen.Primality.smallPrimes n []).1)
    (hfuel : bits (trialDivideBy 1100 Ymq.Gen.Primality.smallPrimes n []).1 ≤ fuel) :
    (∃ l, factor { o with abort := ab } fuel n alg os = .ok l ∧ l.prod = n) ∨
      factor { o with abort := ab } fuel n alg os = .failure :=
  factor_total_aux (hok.with_abort ab) fuel n alg os (by rw [trialDiv_def]; exact hsel)
    (by rw [trialDiv_def]; exact hfuel)

/-- corollary: both bounds on the input `n` itself -/
theorem abort_consistent_of_input (o : Oracle σ) (hok : OracleOK o) (ab : σ → Nat → Bool × σ)
    (fuel n : Nat) (alg : Algo) (os : σ) (hsel : SelectorPre alg n) (hfuel : bits n ≤ fuel) :
    (∃ l, factor { o with abort := ab } fuel n alg os = .ok l ∧ l.prod = n) ∨
      factor { o with abort := ab } fuel n alg os = .failure :=
  factor_total_aux (hok.with_abort ab) fuel n alg os (pre_of_input hsel hfuel).1
    (pre_of_input hsel hfuel).2

/-- **`abort_stops`**: sieve selectors (Qs/Mpqs/Siqs), `n` neither 1, nor a perfect power, nor
accepted by `pseudoprime`. If the abort predicate answers `true` at the poll of lib.rs:469, then
`factor_impl` pushes `n` unsplit, logs the give-up and returns: the result is given in closed
form — it holds with fuel 1 (no recursive call is made), does not mention `o.sieve` (the sieve is
not started), and the final oracle state is the one left by the abort poll itself (no further
work unit of any kind is started in the modelled control flow). ANY oracle. -/
theorem abort_stops (o : Oracle σ) (fuel n : Nat) (alg : Algo) (s : St σ)
    (halg : alg = .qs ∨ alg = .mpqs ∨ alg = .siqs) (hn : n ≠ 1)
    (hpp : (o.pp s.os n).1 = none)
    (hprime : (o.prime (o.pp s.os n).2 n).1 = false)
    (habort : (o.abort (o.prime (o.pp s.os n).2 n).2 n).1 = true) :
    factorImpl o (fuel + 1) n alg s =
      .ok ({ s with os := (o.abort (o.prime (o.pp s.os n).2 n).2 n).2 }.giveup n) := by
  rw [factorImpl_succ]
  rcases halg with rfl | rfl | rfl <;>
    simp [factorStep, compositePhase, autoPhase, armPhase, sievePhase, hn, hpp, hprime, habort]

/-! ### non-vacuity -/

open Ymq.Factor.Toy

/-- every flip instant `k` and the non-monotone `flicker` are instances -/
example (k : Nat) :
    (∃ l, factor { toyN with abort := flipAt k } 18 188212 .siqs 0 = .ok l ∧ l.prod = 188212) ∨
      factor { toyN with abort := flipAt k } 18 188212 .siqs 0 = .failure :=
  abort_consistent toyN toyN_ok (flipAt k) 18 188212 .siqs 0 (fun h => by simp at h)
    (by decide +kernel)

/-- selector Rho with a failing `rho`, any constant abort answer -/
example (k : Nat) :
    (∃ l, factor { toyNoRho with abort := fun s _ => (decide (k = 0), s) } 18 188212 .rho () = .ok l ∧
      l.prod = 188212) ∨
      factor { toyNoRho with abort := fun s _ => (decide (k = 0), s) } 18 188212 .rho () = .failure :=
  abort_consistent toyNoRho toyNoRho_ok _ 18 188212 .rho () (fun _ => by decide +kernel)
    (by decide +kernel)

/-- flip before the first poll: n is returned unsplit (composite entry, product still n) -/
example : factor { toyN with abort := flipAt 0 } 18 188212 .siqs 0 = .ok [2, 2, 47053] := by
  decide +kernel

/-- flip after the poll: the sieve runs, full factorization -/
example : factor { toyN with abort := flipAt 3 } 18 188212 .siqs 0 = .ok [2, 2, 211, 223] := by
  decide +kernel

/-- non-monotone predicate (true on even ticks only): the poll happens at tick 2 -/
example : factor { toyN with abort := flicker } 18 188212 .siqs 0 = .ok [2, 2, 47053] := by
  decide +kernel

example : [2, 2, 47053].prod = 188212 ∧ [2, 2, 47053].Pairwise (· ≤ ·) ∧
    ∀ x ∈ [2, 2, 47053], x ∣ 188212 :=
  abort_never_wrong_product toyN toyN_ok (flipAt 0) 18 188212 .siqs 0 _ (by decide +kernel)

/-- `abort_stops` instantiated: fuel 1, state after = tick 3 (pp, prime, abort: three calls) -/
example : factorImpl { toyN with abort := flipAt 0 } 1 47053 .siqs (initSt 0 [2, 2]) =
    .ok { os := 3, factors := [2, 2, 47053], pm1done := false, giveups := [47053] } :=
  abort_stops { toyN with abort := flipAt 0 } 0 47053 .siqs (initSt 0 [2, 2]) (Or.inr (Or.inr rfl))
    (by decide) rfl rfl rfl

end Ymq.C05
