/-
C15 / C16 — one ECM curve run end to end (`ecm::ecm_curve`; model: Ymq/Model/EcmCurve.lean, an interpreter over
abstract point operations whose steps are the calls the routine makes; lemmas: Ymq/Lemmas/EcmCurveGroup.lean).

The group-level statements read the point operations in an additive commutative group `G` in which the curve
formulas are the group law (`grpOps`: both coordinate systems are `G`, `double`/`dblext` are `x + x`, `addext` /
`addextproj` are `+`, `subextproj` is `-`) — the same reading as `C15.chainmul_spec`; like there, the exceptional
points of the dedicated extended addition (`C15.addext_self_zero`, the listed finding) are outside the statements.
Only property theorems live here.
-/
import Ymq.Lemmas.EcmCurveGroup
import Ymq.Lemmas.EcmCurveTotal
import Ymq.Props.C15
import Ymq.Props.C16
import Ymq.Props.C17

namespace Ymq.C15
open Ymq.Chain Ymq.EcmCurve Ymq.Stage2 Ymq.Gen

section Group
variable {G : Type} [AddCommGroup G]

/-- **Stage 1.** For exponent blocks that fit their words (`SmoothBase::new` produces such blocks:
`stage1_point_of_smoothbase`), whatever `check_gcd_factor` answers and whatever coordinate it is shown: if stage 1
goes on to stage 2 it does so with the point `[∏ factors · ∏ larges] P`; it panics only if `check_gcd_factor` does
(or returns the factor 0); and with no early exit the blocks applied in order give that point. -/
theorem stage1_point_spec {X : Type} (n : Nat) (xOf : G → X) (one : X) (check : List X → Option (Option Nat))
    (factors larges : List Nat) (hf : ∀ f ∈ factors, f < 2 ^ 64) (hl : ∀ f ∈ larges, f < 2 ^ 1024) (P : G) :
    GoesTo (stage1 (grpOps : Ops G G) n xOf one check factors larges P) ((factors.prod * larges.prod) • P) ∧
    (CheckTotal check → NoPanic (stage1 (grpOps : Ops G G) n xOf one check factors larges P)) ∧
    stage1Point (grpOps : Ops G G) factors larges P = some ((factors.prod * larges.prod) • P) := by
  have hblocks : ∀ b ∈ chunks gcdInterval factors, ∀ f ∈ b, f < 2 ^ 64 := by
    intro b hb f hfb
    apply hf
    rw [← chunks_flatten gcdInterval (by decide) factors]
    exact List.mem_flatten.mpr ⟨b, hb, hfb⟩
  obtain ⟨h1, h2⟩ := stage1Blocks_spec (G := G) n xOf check (chunks gcdInterval factors) P one hblocks
  rw [chunks_flatten gcdInterval (by decide)] at h1
  refine ⟨?_, ?_, ?_⟩
  · unfold stage1
    cases hs : stage1Blocks n (grpOps : Ops G G).mul64 xOf check (chunks gcdInterval factors) P one with
    | panic => trivial
    | ret r => trivial
    | go g1 =>
      rw [hs] at h1
      have hg1 : g1 = factors.prod • P := h1
      obtain ⟨xs, e, _⟩ := mulBlock_spec (grpOps : Ops G G).mul1024 (2 ^ 1024) (fun k hk Q => grp_mul1024 k hk Q) xOf
        larges g1 hl
      simp only [e]
      apply checked_goesTo
      show larges.prod • g1 = _
      rw [hg1, ← mul_nsmul]
  · intro hc
    unfold stage1
    cases hs : stage1Blocks n (grpOps : Ops G G).mul64 xOf check (chunks gcdInterval factors) P one with
    | panic => have := h2 hc; rw [hs] at this; exact this
    | ret r => trivial
    | go g1 =>
      obtain ⟨xs, e, _⟩ := mulBlock_spec (grpOps : Ops G G).mul1024 (2 ^ 1024) (fun k hk Q => grp_mul1024 k hk Q) xOf
        larges g1 hl
      simp only [e]
      exact checked_noPanic n check hc _ _ trivial
  · unfold stage1Point
    obtain ⟨xs, e, _⟩ := mulBlock_spec (grpOps : Ops G G).mul64 (2 ^ 64) (fun k hk Q => grp_mul64 k hk Q)
      (fun _ => ()) factors P hf
    obtain ⟨ys, e', _⟩ := mulBlock_spec (grpOps : Ops G G).mul1024 (2 ^ 1024) (fun k hk Q => grp_mul1024 k hk Q)
      (fun _ => ()) larges (factors.prod • P) hl
    simp only [e, e', Option.map_some, ← mul_nsmul]

/-- … for the blocks of `SmoothBase::new(b1, true)` as `ecm()` builds them (C17: they exist, fit their words, and
every prime power below `b1` divides their product): stage 1 reaches `[E] P` with `q ∣ E` for every prime power
`q < b1`. -/
theorem stage1_point_of_smoothbase (b1 : Nat) (hb : b1 ≤ 2 ^ 24) (P : G) :
    ∃ f l, Ymq.SmoothBase.new b1 true = some (f, l) ∧
      stage1Point (grpOps : Ops G G) f l P = some ((f.prod * l.prod) • P) ∧
      ∀ p k, p.Prime → p ^ k < b1 → p ^ k ∣ f.prod * l.prod := by
  obtain ⟨f, l, h1, h2, h3, h4⟩ := Ymq.C17.smoothbase_divides_16M b1 true hb
  exact ⟨f, l, h1, (stage1_point_spec (X := Unit) 0 (fun _ => ()) () (fun _ => some none) f l h2 h3 P).2.2, h4⟩

/-- **Baby steps.** For an even `d1 ≥ 4` (every row of the table: `6 ∣ d1`) the walk over the `gaps` table never
indexes outside it and never underflows, and the table holds `[b] Q` for exactly the `b` of `babyIdx d1`, in order. -/
theorem baby_steps_spec (Q : G) {d1 : Nat} (hev : 2 ∣ d1) (h4 : 4 ≤ d1) :
    babySteps (grpOps : Ops G G) d1 Q = some ((babyIdx d1).map (· • Q)) :=
  babySteps_spec Q hev h4

/-- **Giant steps.** The table holds `[i d1] Q` for exactly the `i` of `giantIdx d2 = 1, 2, 3, …, d2` (for `d2 < 2`
still `1, 2`), in order: the first two by chain multiplication and doubling, the others by extended additions. -/
theorem giant_steps_spec (Q : G) {d1 : Nat} (hd : d1 < 2 ^ 64) (d2 : Nat) :
    giantSteps (grpOps : Ops G G) d1 d2 Q = some ((giantIdx d2).map (fun i => (i * d1) • Q)) :=
  giantSteps_spec Q hd d2

end Group

/-- **The index sets of the model are the ones C16 quantifies over.** `babyIdx` is the set `isEcmBabyOf ecmBaby`
and `giantIdx` the set `isGiant ecmGiant` that `ecmIsGrid` / `ecm_cover` / `ecm_grid_exact` are stated with (their
loop bounds are read from the source by the translator): `b ∈ babyIdx d1 ⇔ 1 ≤ b < d1/2 ∧ gcd(b, d1) = 1`,
`i ∈ giantIdx d2 ⇔ 1 ≤ i ≤ d2` — the closed range `[1, d2]`, not `[0, d2)` —, and the giant table has
`giantCount` entries. -/
theorem stage2_index_sets (d1 d2 : Nat) (h2 : 2 ≤ d2) :
    (∀ b, b ∈ babyIdx d1 ↔ isEcmBabyOf Stage2Arms.ecmBaby d1 b = true) ∧
    (∀ i, i ∈ giantIdx d2 ↔ isGiant Stage2Arms.ecmGiant d2 i = true) ∧
    (giantIdx d2).length = giantCount Stage2Arms.ecmGiant d2 ∧
    (∀ i, i ∈ giantIdx d2 ↔ 1 ≤ i ∧ i ≤ d2) := by
  refine ⟨?_, ?_, ?_, fun i => giantIdx_mem h2⟩
  · intro b
    rw [babyIdx_mem, ecmBaby_iff]
    constructor <;> (intro h; refine ⟨by omega, h.2.1, h.2.2⟩)
  · intro i
    rw [giantIdx_mem h2]
    simp only [isGiant, ecmGiantLo, ecmGiantHi d2 h2, Bool.and_eq_true, decide_eq_true_eq]
    omega
  · delta Stage2Arms.ecmGiant
    simp [giantIdx, giantCount]
    omega

section Cover
variable {G : Type} [AddCommGroup G]

/-- **The tables cover what C16 promises.** For a table row (`6 ∣ d1`, `2 ≤ d2`, `d1` a `u64`) and a prime `l` with
`d1/2 < l ≤ d2·d1 + d1/2 − 1` not dividing `d1` (`C16.ecm_cover`): the giant table computed by the model contains
`[i d1] Q` and the baby table contains `[b] Q` for a pair with `l = i d1 ± b`; so if `[l] Q = O` these two entries
are opposite or equal points (`C16.ecm_hit`: any even coordinate function takes the same value on them). -/
theorem stage2_tables_cover (Q : G) {d1 d2 l : Nat} (h6 : 6 ∣ d1) (hd : 0 < d1) (hd64 : d1 < 2 ^ 64) (hd2 : 2 ≤ d2)
    (hp : l.Prime) (hnd : ¬ l ∣ d1) (hlo : d1 / 2 < l) (hhi : l ≤ d2 * d1 + d1 / 2 - 1) :
    ∃ bt gt, babySteps (grpOps : Ops G G) d1 Q = some bt ∧ giantSteps (grpOps : Ops G G) d1 d2 Q = some gt ∧
      ∃ i b, (l = i * d1 + b ∨ l + b = i * d1) ∧ (i * d1) • Q ∈ gt ∧ b • Q ∈ bt ∧
        ∀ {Y : Type} (y : G → Y), (∀ P, y (-P) = y P) → l • Q = 0 → y ((i * d1) • Q) = y (b • Q) := by
  have hev : 2 ∣ d1 := Nat.dvd_trans (by decide) h6
  have h6' : 6 ≤ d1 := Nat.le_of_dvd hd h6
  obtain ⟨_, i, b, hi1, hi2, hb1, hb2, hbg, hm⟩ := Ymq.C16.ecm_cover h6 hd hd2 hp hnd hlo hhi
  refine ⟨_, _, baby_steps_spec Q hev (by omega), giant_steps_spec Q hd64 d2, i, b, hm, ?_, ?_, ?_⟩
  · exact List.mem_map.mpr ⟨i, (giantIdx_mem hd2).mpr ⟨hi1, hi2⟩, rfl⟩
  · exact List.mem_map.mpr ⟨b, babyIdx_mem.mpr ⟨hb1, hb2, hbg⟩, rfl⟩
  · intro Y y heven h0
    have := Ymq.C16.ecm_hit (E := 1) (G := Q) y heven (by rw [one_mul]; exact h0) hm
    simpa using this

end Cover

section Ring
variable {X : Type} [CommRing X]

/-- **The accumulated product vanishes.** In the direct path (`d1 < 4000`): if the (normalised) `y` of the giant step
in row `k` equals the `y` of some baby step, then the value pushed for row `k` and every later one — in particular the
last value, the whole product — is 0; there is one value per giant step. Over `Z/p` this is "`p` divides the
product"; `gcd_factors` then extracts it (C16 `gcd_factors_sound`). -/
theorem stage2_difference_vanishes (bys gys : List X) (buf : X) (k : Nat) (gy : X) (hk : gys[k]? = some gy)
    (hmem : gy ∈ bys) :
    (prodRows (· * ·) (· - ·) bys gys buf).length = gys.length ∧
    ∀ j, k ≤ j → ∀ v, (prodRows (· * ·) (· - ·) bys gys buf)[j]? = some v → v = 0 :=
  ⟨prodRows_length bys gys buf, prodRows_hit bys gys buf k gy hk hmem⟩

/-- … from the projective coordinates, through the normalisation the routine performs (`ExpModn.ynorm`, run on the
concatenated tables): over a domain, if no `z` vanishes and the affine `y/z` of step `ib` (a baby step: `ib < nb`) and
of step `nb + k` (giant step `k`) agree, then after normalisation the product for row `k` and all later rows is 0. -/
theorem stage2_hit_product_zero {F : Type} [CommRing F] [IsDomain F] (steps : List (F × F)) (hz : ∀ e ∈ steps, e.2 ≠ 0)
    (nb ib k : Nat) (hib : ib < nb) (eb eg : F × F) (hb : steps[ib]? = some eb) (hg : steps[nb + k]? = some eg)
    (haff : eg.1 * eb.2 = eb.1 * eg.2) (buf : F) :
    ∀ j, k ≤ j → ∀ v,
      (prodRows (· * ·) (· - ·) ((normY (· * ·) steps).take nb) ((normY (· * ·) steps).drop nb) buf)[j]? = some v →
      v = 0 := by
  have hlen : (Ymq.ExpModn.ynorm (· * ·) steps).length = steps.length := by
    rw [Ymq.ExpModn.ynorm_eq_spec]
    have : ∀ (u : F) (l : List (F × F)), (Ymq.ExpModn.ynSpec u l).length = l.length := by
      intro u l
      induction l generalizing u with
      | nil => rfl
      | cons a t ih => obtain ⟨y, z⟩ := a; simp [Ymq.ExpModn.ynSpec, ih]
    exact this 1 steps
  have hibl : ib < steps.length := (List.getElem?_eq_some_iff.mp hb).1
  have hgl : nb + k < steps.length := (List.getElem?_eq_some_iff.mp hg).1
  obtain ⟨eb', hb'⟩ : ∃ e, (Ymq.ExpModn.ynorm (· * ·) steps)[ib]? = some e :=
    ⟨_, List.getElem?_eq_getElem (by omega)⟩
  obtain ⟨eg', hg'⟩ : ∃ e, (Ymq.ExpModn.ynorm (· * ·) steps)[nb + k]? = some e :=
    ⟨_, List.getElem?_eq_getElem (by omega)⟩
  have hcmp := (Ymq.C16.ynorm_compare steps hz (nb + k) ib eg eb eg' eb' hg hb hg' hb').mpr haff
  have heq : eg'.1 = eb'.1 := sub_eq_zero.mp hcmp
  apply prodRows_hit _ _ buf k eg'.1
  · unfold normY
    rw [List.getElem?_drop, List.getElem?_map, hg']; rfl
  · rw [heq]
    unfold normY
    apply List.mem_of_getElem? (i := ib)
    rw [List.getElem?_take_of_lt hib, List.getElem?_map, hb']; rfl

end Ring

section NoPanic
open Ymq.Gen.Curves Ymq.Curve
variable {R : Type} [CommRing R]

/-- the curve formulas preserve "on the curve" (projective) and "on the curve and on the quadric" (extended): the
closure theorems of Props/C15.lean collected -/
theorem curve_ops_closed (d : R) (tw : Bool) :
    OpsInv (curveOps d tw) (ecmIsValid d tw) (fun e => ecmIsValidext d tw e ∧ OnQuadric e) where
  zero := by cases tw <;> simp [curveOps, ecmIsValid, ecmIsValidSides]
  toExt := fun p hp => to_extended_closed d tw p hp
  toProj := fun e he => toProj_valid d tw e he.1 he.2
  double := fun p hp => double_closed d tw p hp
  dblext := fun p hp => dblext_closed d tw p hp
  addext := fun a b ha hb => addext_closed d tw a b ha.1 ha.2 hb.1 hb.2
  addp := fun a b ha hb => addextproj_closed d tw a b ha.1 ha.2 hb.1 hb.2
  subp := fun a b ha hb => subextproj_closed d tw a b ha.1 ha.2 hb.1 hb.2

/-- **`ecm_curve` never panics on the domain `ecm()` passes** (the model returns a value): over any commutative ring,
for the translated curve formulas, a generator on the curve (`select_curve_sound`: every curve `ecm()` runs has one),
an `is_valid` that accepts the points of the curve, exponent blocks that fit their words, an even `d1 ≥ 4` that is a
`u64`, and `check_gcd_factor` / `roots_eval` that return (hypotheses `CheckTotal`, `hre`: these are the routines of C16
and C10, not re-proved here): no chain builder overflows, no `gaps` table is indexed outside, the gap
arithmetic `b - bexp`, `gap / 2 - 1` never underflows, `assert_eq!(bs[0], 1)` and `assert!(c.is_valid(&g))` hold. -/
theorem ecm_curve_no_panic {X : Type} (env : Env (Pt R) (Ext R) X) (d : R) (tw : Bool) (hops : env.ops = curveOps d tw)
    (hvalid : ∀ p, ecmIsValid d tw p → env.valid p = true) (hc : CheckTotal env.check)
    (hre : ∀ a b, env.rootsEval a b ≠ none) (factors larges : List Nat) (hf : ∀ f ∈ factors, f < 2 ^ 64)
    (hl : ∀ f ∈ larges, f < 2 ^ 1024) {d1 : Nat} (hev : 2 ∣ d1) (h4 : 4 ≤ d1) (hd : d1 < 2 ^ 64) (d2 : Nat)
    (g : Pt R) (hg : ecmIsValid d tw g) :
    ecmCurve env factors larges d1 d2 g ≠ none :=
  ecmCurve_total env (hops ▸ curve_ops_closed d tw) hvalid hc hre factors larges hf hl hev h4 hd d2 g hg

/-- … as `ecm()` calls it: `SmoothBase::new(b1, true)` for `b1 ≤ 2^24` (C17) and `stage2_params(b2)` for any `b2`
(every row of the table has an even `d1 ≥ 4` below `2^64`). -/
theorem ecm_curve_b_no_panic {X : Type} (env : Env (Pt R) (Ext R) X) (d : R) (tw : Bool) (hops : env.ops = curveOps d tw)
    (hvalid : ∀ p, ecmIsValid d tw p → env.valid p = true) (hc : CheckTotal env.check)
    (hre : ∀ a b, env.rootsEval a b ≠ none) (b1 b2 : Nat) (hb : b1 ≤ 2 ^ 24) (g : Pt R) (hg : ecmIsValid d tw g) :
    ecmCurveB env b1 b2 g ≠ none := by
  obtain ⟨f, l, h1, h2, h3, _⟩ := Ymq.C17.smoothbase_divides_16M b1 true hb
  obtain ⟨row, hr1, hr2, _⟩ := Ymq.Checked.nearestRow_spec Stage2.ecmTable (by decide) b2 1
  have hrows : (Stage2.ecmTable.all fun r => r.2.1 % 2 == 0 && decide (4 ≤ r.2.1) && decide (r.2.1 < 2 ^ 64)) = true := by
    decide
  have hrow := List.all_eq_true.mp hrows row hr2
  simp only [Bool.and_eq_true, beq_iff_eq, decide_eq_true_eq] at hrow
  obtain ⟨lab, d1, d2⟩ := row
  unfold ecmCurveB
  have hsel : Stage2.stage2Select b2 1 = some (lab, d1, d2) := hr1
  simp only [h1, hsel]
  exact ecm_curve_no_panic env d tw hops hvalid hc hre f l h2 h3 (Nat.dvd_of_mod_eq_zero hrow.1.1) hrow.1.2 hrow.2 d2 g hg

end NoPanic

/-- non-vacuity of `ecm_curve_no_panic` / `ecm_curve_b_no_panic`: an environment over ℤ satisfying every hypothesis -/
example : ecmCurveB (⟨curveOps (1 : Int) false, 35, fun p => p.x, fun p => (p.y, p.z), 1, (· * ·), (· - ·), fun _ => true,
    fun _ => some none, fun _ _ => some []⟩ : Env (Ymq.Gen.Curves.Pt Int) (Ymq.Gen.Curves.Ext Int) Int) 16 660 ⟨1, 2, 1⟩ ≠ none :=
  ecm_curve_b_no_panic _ 1 false rfl (fun _ _ => rfl) (fun _ => ⟨by simp, by simp⟩) (fun _ _ => by simp) 16 660 (by decide)
    ⟨1, 2, 1⟩ (by simp [Ymq.Gen.Curves.ecmIsValid, Ymq.Gen.Curves.ecmIsValidSides])

/-! ## non-vacuity -/

example : babyIdx 66 = [1, 5, 7, 13, 17, 19, 23, 25, 29, 31] ∧ giantIdx 10 = [1, 2, 3, 4, 5, 6, 7, 8, 9, 10] := by
  decide
example : babySteps (grpOps : Ops Int Int) 66 1 = some [1, 5, 7, 13, 17, 19, 23, 25, 29, 31] := by
  rw [baby_steps_spec (1 : Int) (by decide) (by decide)]; decide
example : giantSteps (grpOps : Ops Int Int) 66 4 1 = some [66, 132, 198, 264] := by
  rw [giant_steps_spec (1 : Int) (by decide) 4]; decide
example : (∀ f ∈ [43589145600, 10131543907], f < 2 ^ 64) ∧ (∀ f ∈ ([] : List Nat), f < 2 ^ 1024) := by decide
example : CheckTotal (fun _ : List Nat => some none) := fun _ => ⟨by simp, by simp⟩
example : (6 ∣ 66) ∧ Nat.Prime 691 ∧ ¬ 691 ∣ 66 ∧ 66 / 2 < 691 ∧ 691 ≤ 10 * 66 + 66 / 2 - 1 :=
  ⟨by decide, by norm_num, by decide, by decide, by decide⟩
/-- a hit in row 1 of two: both values pushed from there on are 0 (ℤ, baby `y`s 3 and 5, giant `y`s 7 and 5 and 9) -/
example : prodRows (· * ·) (· - ·) [3, 5] [7, 5, 9] (1 : Int) = [8, 0, 0] := by decide
example : ∃ steps : List (Int × Int), (∀ e ∈ steps, e.2 ≠ 0) ∧ steps[0]? = some (1, 2) ∧ steps[1 + 0]? = some (2, 4) ∧
    (2 : Int) * 2 = 1 * 4 := ⟨[(1, 2), (2, 4)], by decide, rfl, rfl, by decide⟩

/-- Sharpness of the giant range (what an off-by-one would lose): with `d2 = 10`, `d1 = 66` the value 691 = 10·66 + 31 is
on the grid only through the giant index `i = d2`; the model's table has that entry and no entry for `i = 0` or `11`. -/
theorem giant_range_sharp :
    10 ∈ giantIdx 10 ∧ 0 ∉ giantIdx 10 ∧ 11 ∉ giantIdx 10 ∧ ecmIsGrid 66 10 691 = true ∧ ecmIsGrid 66 9 691 = false := by
  decide

end Ymq.C15
