//! Dividers, Inverter, sqrt_mod, pow_mod, inv_mod64, perfect_power, isqrt (C08).
//!
//! Single-call ops answer with the value returned by the real code (compared with the Lean
//! model and judged by the Python oracle). The `*_all` / `*_sweep` ops loop inside Rust over a
//! whole finite domain and compare with native `/` and `%`; they answer `ok <count>` or the
//! first mismatch.
use crate::util::*;
use std::str::FromStr;
use yamaquasi::arith::verif_hooks as hk;
use yamaquasi::arith::{self, Dividers, Inverter, U1024, U256, U512};

fn u16_of(s: &str) -> Option<u16> {
    s.parse().ok()
}

fn show_div(d: &Dividers) -> String {
    let (p, r64, m64, s64, s16, m16) = hk::dividers_fields(d);
    format!("{} {} {} {} {} {}", p, r64, m64, s64, s16, m16)
}

macro_rules! with_uint {
    ($w:expr, $T:ident, $body:block) => {
        match $w {
            4 => {
                type $T = U256;
                $body
            }
            8 => {
                type $T = U512;
                $body
            }
            16 => {
                type $T = U1024;
                $body
            }
            _ => None,
        }
    };
}

fn width(a: &[&str], idx: usize) -> Option<usize> {
    if a.len() > idx {
        a[idx].parse().ok()
    } else {
        Some(16)
    }
}

fn show_opt_pair<T: ToString>(o: Option<(T, u32)>) -> String {
    match o {
        None => "none".to_string(),
        Some((r, k)) => format!("some {} {}", r.to_string(), k),
    }
}

struct Rng(u64);
impl Rng {
    fn next(&mut self) -> u64 {
        // xorshift64*
        let mut x = self.0;
        x ^= x >> 12;
        x ^= x << 25;
        x ^= x >> 27;
        self.0 = x;
        x.wrapping_mul(0x2545F4914F6CDD1D)
    }
}

/// compares every word-level routine with native arithmetic on one operand
fn sweep_one(d: &Dividers, p: u64, n: u64) -> Option<String> {
    let got = d.divmod64(n);
    if got != (n / p, n % p) {
        return Some(format!("mismatch divmod64 {} {} got {} {}", p, n, got.0, got.1));
    }
    let n63 = n >> 1;
    let got = d.modu63(n63);
    if got != n63 % p {
        return Some(format!("mismatch modu63 {} {} got {}", p, n63, got));
    }
    let i = n as i64;
    let got = d.modi64(i);
    let want = (i as i128).rem_euclid(p as i128) as u64;
    if got != want {
        return Some(format!("mismatch modi64 {} {} got {}", p, i, got));
    }
    let w = ((n as u128) << 64) | (n.rotate_left(17) as u128);
    for v in [w, w >> 1, (n as u128) << 63, (n as u128) * (p as u128), !w] {
        let got = d.mod_u128(v);
        if got != (v % p as u128) as u64 {
            return Some(format!("mismatch mod_u128 {} {} got {}", p, v, got));
        }
    }
    None
}

pub fn handle(op: &str, a: &[&str]) -> Option<String> {
    match (op, a) {
        ("div_new", [p]) => Some(show_div(&Dividers::new(u32_of(p)?))),
        ("div_divmod64", [p, n]) => {
            let (q, r) = Dividers::new(u32_of(p)?).divmod64(u64_of(n)?);
            Some(format!("{} {}", q, r))
        }
        ("div_modu63", [p, n]) => Some(Dividers::new(u32_of(p)?).modu63(u64_of(n)?).to_string()),
        ("div_modi64", [p, n]) => Some(Dividers::new(u32_of(p)?).modi64(i64_of(n)?).to_string()),
        ("div_modu16", [p, n]) => Some(Dividers::new(u32_of(p)?).modu16(u16_of(n)?).to_string()),
        ("div_mod_u128", [p, n]) => {
            Some(Dividers::new(u32_of(p)?).mod_u128(u128_of(n)?).to_string())
        }
        ("div_mod_uint", [p, n, ..]) => {
            let d = Dividers::new(u32_of(p)?);
            with_uint!(width(a, 2)?, T, {
                let n = T::from_str(n).ok()?;
                Some(d.mod_uint(&n).to_string())
            })
        }
        ("div_divmod_uint", [p, n, ..]) => {
            let d = Dividers::new(u32_of(p)?);
            with_uint!(width(a, 2)?, T, {
                let n = T::from_str(n).ok()?;
                let (q, r) = d.divmod_uint(&n);
                Some(format!("{} {}", q, r))
            })
        }
        // the in-place routine alone (no p == 2 shortcut, no final debug assertion)
        ("div_inplace", [p, n, ..]) => {
            let d = Dividers::new(u32_of(p)?);
            with_uint!(width(a, 2)?, T, {
                let n = T::from_str(n).ok()?;
                let mut digits = n.digits().clone();
                let r = hk::divmod_uint_inplace(&d, &mut digits);
                Some(format!("{} {}", T::from_digits(digits), r))
            })
        }
        ("inverter_new", [p]) => {
            let inv = Inverter::new(u32_of(p)?);
            Some(show_list(&hk::inverter_table(&inv)))
        }
        ("inverter", [p, x]) => {
            let p = u32_of(p)?;
            let d = Dividers::new(p);
            let inv = Inverter::new(p);
            Some(inv.invert(u32_of(x)?, &d).to_string())
        }
        ("sqrt_mod", [n, p]) => Some(show_opt(arith::sqrt_mod(u64_of(n)?, u64_of(p)?))),
        ("sqrt_mod_uint", [n, p]) => {
            Some(show_opt(arith::sqrt_mod(uint_of(n)?, uint_of(p)?)))
        }
        ("pow_mod", [n, k, p]) => {
            Some(arith::pow_mod(u64_of(n)?, u64_of(k)?, u64_of(p)?).to_string())
        }
        ("pow_mod_uint", [n, k, p]) => {
            Some(arith::pow_mod(uint_of(n)?, uint_of(k)?, uint_of(p)?).to_string())
        }
        ("mulmod", [x, y, p]) => Some(hk::mulmod(u64_of(x)?, u64_of(y)?, u64_of(p)?).to_string()),
        ("mulmod_uint", [x, y, p]) => {
            Some(hk::mulmod(uint_of(x)?, uint_of(y)?, uint_of(p)?).to_string())
        }
        ("inv_mod64", [n, p]) => Some(show_opt(arith::inv_mod64(u64_of(n)?, u64_of(p)?))),
        ("perfect_power", [n]) => Some(show_opt_pair(arith::perfect_power(u64_of(n)?))),
        ("perfect_power_uint", [n]) => Some(show_opt_pair(arith::perfect_power(uint_of(n)?))),
        ("isqrt", [n]) => Some(arith::isqrt(u64_of(n)?).to_string()),
        ("isqrt_uint", [n]) => Some(arith::isqrt(uint_of(n)?).to_string()),
        // the seed is recomputed here exactly as squfof::isqrt does; a request that carries a
        // different seed is refused, so the model (which takes the seed as input) is run on
        // the seed the real code used.
        ("squfof_isqrt", [n, seed]) => {
            let n = u64_of(n)?;
            let s = (n as f64).sqrt() as u64;
            if s != u64_of(seed)? {
                return Some(format!("seed-mismatch {}", s));
            }
            Some(yamaquasi::squfof::verif_hooks::isqrt(n).to_string())
        }
        ("squfof_isqrt", [n]) => {
            Some(yamaquasi::squfof::verif_hooks::isqrt(u64_of(n)?).to_string())
        }

        // ---------------------------------------------------------------- bulk ops
        ("div_modu16_all", [p]) => {
            let p = u32_of(p)?;
            let d = Dividers::new(p);
            if p >> 16 != 0 {
                return None;
            }
            let mut cnt = 0u64;
            for n in 0..=u16::MAX {
                let got = d.modu16(n);
                if got != n % (p as u16) {
                    return Some(format!("mismatch modu16 {} {} got {}", p, n, got));
                }
                cnt += 1;
            }
            Some(format!("ok {}", cnt))
        }
        // p, seed, count: boundary operands for this p plus `count` pseudo-random ones
        ("div_sweep", [p, seed, count]) => {
            let p32 = u32_of(p)?;
            let d = Dividers::new(p32);
            let p = p32 as u64;
            let mut cnt = 0u64;
            let mut bounds: Vec<u64> = vec![];
            for b in [0u64, 1 << 16, 1 << 31, 1 << 32, 1 << 62, 1 << 63, u64::MAX] {
                let m = b - b % p;
                for k in 0..3u64 {
                    for dlt in [0u64, 1, 2, p - 1] {
                        bounds.push(m.wrapping_add(k.wrapping_mul(p)).wrapping_add(dlt));
                        bounds.push(m.wrapping_sub(k.wrapping_mul(p)).wrapping_sub(dlt));
                    }
                }
            }
            for n in bounds {
                if let Some(m) = sweep_one(&d, p, n) {
                    return Some(m);
                }
                cnt += 1;
            }
            let mut rng = Rng(u64_of(seed)? | 1);
            for i in 0..u64_of(count)? {
                let mut n = rng.next();
                if i % 4 == 1 {
                    n >>= rng.next() % 64;
                }
                if i % 4 == 2 {
                    // multiples of p minus one: the only operands where the estimate overshoots
                    n = (n - n % p).wrapping_sub(1);
                }
                if let Some(m) = sweep_one(&d, p, n) {
                    return Some(m);
                }
                cnt += 1;
            }
            Some(format!("ok {}", cnt))
        }
        // all x in [1, p): x * invert(x) % p == 1
        ("inverter_all", [p]) => {
            let p = u32_of(p)?;
            let d = Dividers::new(p);
            let inv = Inverter::new(p);
            let mut cnt = 0u64;
            for x in 1..p {
                let y = inv.invert(x, &d);
                if y >= p || (x as u64 * y as u64) % p as u64 != 1 {
                    return Some(format!("mismatch inverter {} {} got {}", p, x, y));
                }
                cnt += 1;
            }
            Some(format!("ok {}", cnt))
        }
        // all residues n in [0, p): every `Some(r)` is checked (r < p, r*r = n); answers the
        // number of Some and None so that the caller can compare with the number of squares.
        ("sqrt_mod_all", [p]) => {
            let p = u64_of(p)?;
            let (mut some, mut none) = (0u64, 0u64);
            for n in 0..p {
                match arith::sqrt_mod(n, p) {
                    Some(r) => {
                        if r >= p || (r as u128 * r as u128) % p as u128 != n as u128 {
                            return Some(format!("mismatch sqrt_mod {} {} got {}", n, p, r));
                        }
                        some += 1
                    }
                    None => none += 1,
                }
            }
            Some(format!("ok {} {}", some, none))
        }
        _ => None,
    }
}
