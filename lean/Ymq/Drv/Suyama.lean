import Ymq.Drv.Util
import Ymq.Drv.Chain
import Ymq.Model.Suyama

/-!
Driver for the curve constructors of C15 (Model/Suyama.lean) over canonical residues modulo `n`.
-/
namespace Ymq.Drv
open Ymq.Suyama Ymq.Gen.Curves Ymq.Chain

/-- the context of `ZmodN::new(n)` on residues as bare naturals: used by the stage-by-stage op `suyama`, by
Drv/Ecm128Curve.lean, and for the degenerate modulus `n = 0`. The ops `curve_build`, `from_point`, `ecm_select` run
`finCtx n` (Model/Suyama.lean), the context proved lawful in Lemmas/CurveBuildFin.lean, through the functions
`suyamaNewFin`, `suyamaCurveFin`, `fromPointFin`, `selectCurveFin` that Props/C15Suyama.lean speaks about. -/
def znCtx (n : Nat) : Ctx (Zn n) where
  n := n
  inv := fun x => (invNat x.v n).map fun i => ⟨i % n⟩
  gcd := fun x => Nat.gcd n x.v
  eq := fun x y => x.v == y.v
  ofNat := fun k => ⟨k % n⟩

def showRes {α : Type} (f : α → String) : Res α → String
  | .ok v => f v
  | .err d => s!"err {d}"
  | .panic => "panic"

def showCurve {n} (c : CurveData (Zn n)) : String :=
  s!"{if c.twisted then "-1" else "1"} {c.d.v} {showPt c.g}"

def parseProf : String → Option Bool
  | "chk" => some true
  | "release" => some false
  | _ => none

/-- the low-level stages of the Suyama-11 construction, in the format of the harness op `suyama` -/
def suyamaStages (n seed : Nat) : String :=
  let ctx := znCtx n
  match Suyama.suyamaNew false ctx with
  | .panic => "panic"
  | .err f => s!"err {f}"
  | .ok (a, b, gx, gy) =>
    let consts := s!"{a.v} {b.v} {gx.v} {gy.v}"
    match element ctx a b gx gy seed with
    | .panic => "panic"
    | .err f => s!"{consts} ; err {f}"
    | .ok el =>
      let valid := sidesEq (suyamaIsValidSides a b gx gy el)
      match params ctx a b gx gy el with
      | .panic => "panic"
      | .err f => s!"{consts} ; {showPt el} {valid} ; err {f}"
      | .ok (s, r) =>
        match paramsPoint ctx a b gx gy el with
        | .ok g =>
          let d := match twistedFromPoint ctx g with
            | .ok c => s!"{c.d.v}"
            | .err f => s!"err {f}"
            | .panic => "panic"
          if d = "panic" then "panic" else
          s!"{consts} ; {showPt el} {valid} ; {s.v} {r.v} ; {showPt g} ; {d}"
        | _ => "?"

/-- `ecm::ecm(n, curves, ..)` as far as the curve construction decides it: the seeds in order (no thread
pool); `p q` when a seed returns a factor, `none` when every seed gives up, `curve <seed>` at the first seed
whose curve is run (the outcome then depends on `ecm_curve`). -/
def ecmSelect (chk : Bool) (n curves : Nat) : String :=
  let ctx := znCtx n
  match Suyama.suyamaNew chk ctx with
  | .ok (a, b, gx, gy) =>
    match ecmSeeds n curves with
    | none => "panic"
    | some seeds =>
      let rec go : List Nat → String
        | [] => "none"
        | s :: rest =>
          match selectCurve chk ctx a b gx gy s with
          | .curve _ => s!"curve {s}"
          | .factor p => s!"{p} {n / p}"
          | .none => go rest
          | .panic => "panic"
      go seeds
  | _ => "panic"        -- `Suyama11::new(&zn).unwrap()`

def showCurveF {n} (c : CurveData (Fin n)) : String :=
  s!"{if c.twisted then "-1" else "1"} {c.d.val} {c.g.x.val} {c.g.y.val} {c.g.z.val}"

/-- `ecmSelect` on the lawful context `finCtx n` (`n > 0`): what the op `ecm_select` answers -/
def ecmSelectFin (chk : Bool) (n : Nat) [NeZero n] (curves : Nat) : String :=
  match suyamaNewFin n chk with
  | .ok (a, b, gx, gy) =>
    match ecmSeeds n curves with
    | none => "panic"
    | some seeds =>
      let rec go : List Nat → String
        | [] => "none"
        | s :: rest =>
          match selectCurveFin n chk a b gx gy s with
          | .curve _ => s!"curve {s}"
          | .factor p => s!"{p} {n / p}"
          | .none => go rest
          | .panic => "panic"
      go seeds
  | _ => "panic"        -- `Suyama11::new(&zn).unwrap()`

/-- `curve_build` / `from_point` on `finCtx n` -/
def curveBuildFin (chk : Bool) (n : Nat) [NeZero n] (fam : String) (seed : Nat) : Option String :=
  match fam with
  | "s" =>
    match suyamaNewFin n chk with
    | .ok (a, b, gx, gy) => some (showRes showCurveF (suyamaCurveFin n a b gx gy seed))
    | .err f => some s!"err {f}"
    | .panic => some "panic"
  | "e" =>
    let fb := fallbackPoint seed
    some (showRes showCurveF (fromPointFin n chk fb.1 fb.2))
  | _ => none

/-- `ecm128::ecm(n, curves, ..)` likewise -/
def ecm128Select (n curves : Nat) : String :=
  let ctx := znCtx n
  match Suyama.suyamaNew false ctx with
  | .ok (a, b, gx, gy) =>
    let rec go : List Nat → String
      | [] => "none"
      | s :: rest =>
        match select128 ctx a b gx gy s with
        | .gen _ => s!"curve {s}"
        | .factor p => s!"{p} {n / p}"
        | .skip => go rest
        | .panic => "panic"
    go ((List.range curves).map (· + 1))
  | _ => "panic"

/-- `ecm128Select` on the lawful context `finCtx n` (`n > 0`): what the op `ecm128_select` answers -/
def ecm128SelectFin (n : Nat) [NeZero n] (curves : Nat) : String :=
  match suyamaNewFin n false with
  | .ok (a, b, gx, gy) =>
    let rec go : List Nat → String
      | [] => "none"
      | s :: rest =>
        match select128Fin n a b gx gy s with
        | .gen _ => s!"curve {s}"
        | .factor p => s!"{p} {n / p}"
        | .skip => go rest
        | .panic => "panic"
    go ((List.range curves).map (· + 1))
  | _ => "panic"

def handleSuyama : Handler
  | ["suyama", n, seed] => do
    let n ← parseNat n; let seed ← parseNat seed
    some (suyamaStages n seed)
  | ["curve_build", prof, n, fam, seed] => do
    let chk ← parseProf prof; let n ← parseNat n; let seed ← parseNat seed
    if h : n = 0 then
    let ctx := znCtx n
    match fam with
    | "s" =>
      match Suyama.suyamaNew chk ctx with
      | .ok (a, b, gx, gy) => some (showRes showCurve (suyamaCurve ctx a b gx gy seed))
      | .err f => some s!"err {f}"
      | .panic => some "panic"
    | "e" =>
      let fb := fallbackPoint seed
      some (showRes showCurve (fromPoint chk ctx fb.1 fb.2))
    | _ => none
    else
      haveI : NeZero n := ⟨h⟩
      curveBuildFin chk n fam seed
  | ["from_point", prof, n, x, y] => do
    let chk ← parseProf prof; let n ← parseNat n; let x ← parseNat x; let y ← parseNat y
    if x ≥ W ∨ y ≥ W then none else
    if h : n = 0 then some (showRes showCurve (fromPoint chk (znCtx n) x y)) else
      haveI : NeZero n := ⟨h⟩
      some (showRes showCurveF (fromPointFin n chk x y))
  | ["ecm_select", prof, n, curves] => do
    let chk ← parseProf prof; let n ← parseNat n; let curves ← parseNat curves
    if h : n = 0 then some (ecmSelect chk n curves) else
      haveI : NeZero n := ⟨h⟩
      some (ecmSelectFin chk n curves)
  | ["ecm128_select", n, curves] => do
    let n ← parseNat n; let curves ← parseNat curves
    if h : n = 0 then some (ecm128Select n curves) else
      haveI : NeZero n := ⟨h⟩
      some (ecm128SelectFin n curves)
  | ["curve128_from", n, tw, d, x, y, z] => do
    let n ← parseNat n; let tw ← parseBool tw
    let r := fun s => (parseNat s).map (Zn.mk' n)
    let c : CurveData (Zn n) := ⟨tw, ← r d, ⟨← r x, ← r y, ← r z⟩⟩
    match curve128From c ((bitLen n + 63) / 64) with
    | some g => some (showPt g)
    | none => some "panic"
  | _ => none

end Ymq.Drv
