/-
Model of the MPQS polynomial machinery of src/mpqs.rs: `make_poly` (Hensel lift of the square
root of `n` modulo `D` to `D²`, parity fix), `Poly::prepare_prime` (three branches: `p = 2`,
`p ∣ D`, generic), `Poly::eval`, and the specification of `Workspace::batch_inversion`.

Conventions as in Ymq/Model/SiqsPoly.lean: `none` = a panic site of the checked profile;
`Dividers::*` are `%`; `arith_gcd::inv_mod` (property C09), `arith::Inverter::invert`
(property C08) are the exact modular inverse `invMod`.  `Uint` is 1024 bits wide: a product or sum
that does not fit, or a negative difference, is `none`.
No Mathlib import.
-/
import Ymq.Model.SiqsPoly
import Ymq.Gen.Primality

namespace Ymq.MpqsPoly
open Ymq.SiqsPoly (invMod chk256 wrap256 bitlen Prime)

/-- 2^1024 -/
def U1024 : Nat :=
  179769313486231590772930519078902473361797697894230657273430081157732675805500963132708477322407536021120113879871393357658789768814416622492847430639474124377767893424865485276302219601246094119453082952085005768838150682342462881473913110540827237163350510684586298239947245938479716304835356329624224137216

/-- a `Uint` result -/
def chkU (x : Nat) : Option Nat := if x < U1024 then some x else none

/-- `mpqs::Poly` -/
structure Poly where
  a : Nat
  b : Nat
  c : Int
  bb : Nat
  d : Nat
  dinv : Nat
deriving Repr

/-- the Hensel lift of `make_poly`: `b = h1 + h2·D` with `h1 = r`,
`h2 = c·(2 h1)⁻¹ mod D`, `c = (n − h1²)/D mod D` (for tiny `n` with `h1² > n`: `c = −((h1² − n)/D) mod D`) -/
def henselB (n d r : Nat) : Option Nat :=
  if d = 0 then none                                             -- `% d`
  else if r * r % d ≠ n % d then none                            -- debug_assert
  else
    match chkU (r * r) with
    | none => none
    | some hh =>
      -- let c = if h1sq <= *n { ((n - h1sq) / d) % d } else { (d - ((h1sq - *n) / d) % d) % d };
      let c := if hh ≤ n then (n - hh) / d % d else (d - (hh - n) / d % d) % d
      match invMod (2 * r) d with                                -- inv_mod(&(h1 << 1), &d).unwrap()
      | none => none
      | some i => chkU (r + c * i % d * d)

/-- `if !b.bit(0) { b = d * d - b }` -/
def oddB (d b0 : Nat) : Nat := if b0 % 2 = 0 then d * d - b0 else b0

/-- `if b.bit(0) { b = d * d - b }` -/
def evenB (d b0 : Nat) : Nat := if b0 % 2 = 1 then d * d - b0 else b0

/-- `n ≡ 1 (mod 4)`: odd `b`, `C = (b² − n)/(4D²)` -/
def mkOdd (n d b0 dinv : Nat) : Option Poly :=
  if d * d < b0 ∧ b0 % 2 = 0 then none                           -- d * d - b underflows
  else
    let b := oddB d b0
    if b * b % (4 * (d * d)) ≠ n % (4 * (d * d)) then none       -- debug_assert
    else
      let c := Int.tdiv (((b * b : Nat) : Int) - (n : Int)) ((4 * (d * d) : Nat) : Int)
      if ¬ (bitlen c.natAbs < 256) then none                     -- assert!
      else some { a := d * d % 2 ^ 256, b := b % 2 ^ 256, c := wrap256 c,
                  bb := (n + b) / 2, d, dinv }

/-- otherwise: even `b`, `C = (b² − n)/D²`, the stored `b` is `2b` -/
def mkEven (n d b0 dinv : Nat) : Option Poly :=
  if d * d < b0 ∧ b0 % 2 = 1 then none
  else
    let b := evenB d b0
    let c := Int.tdiv (((b * b : Nat) : Int) - (n : Int)) ((d * d : Nat) : Int)
    if ¬ (bitlen c.natAbs < 256) then none                       -- assert!
    else some { a := d * d % 2 ^ 256, b := 2 * b % 2 ^ 256, c := wrap256 c, bb := b, d, dinv }

/-- `make_poly(n, d, r)` -/
def makePoly (n d r : Nat) : Option Poly :=
  match henselB n d r with
  | none => none
  | some b =>
    match (if n = 0 then none else invMod d n) with              -- inv_mod(&d, &n).unwrap()
    | none => none
    | some dinv =>
      if ¬ (bitlen d < 128) then none                            -- assert!
      else if ¬ (bitlen b < 256) then none                       -- assert!
      else if b * b % (d * d) ≠ n % (d * d) then none            -- debug_assert
      else if n % 4 = 1 then mkOdd n d b dinv else mkEven n d b dinv

/-- `Poly::eval(x)`: `(P(x), y)`, `y = |ax + bb| · dinv` (unreduced `Uint` product). -/
def eval (pol : Poly) (x : Int) : Option (Int × Nat) := do
  let ax ← chk256 (wrap256 (pol.a : Int) * x)
  let u ← chk256 (ax + wrap256 (pol.b : Int))
  let w ← chk256 (u * x)
  let v ← chk256 (w + pol.c)
  let y ← chkU ((ax + (pol.bb : Int)).natAbs * pol.dinv)
  some (v, y)

/-- the closure `shift` of `prepare_prime`: position relative to the start of the interval -/
def shift (p off r : Nat) : Nat := if r < off then r + p - off else r - off

/-- `x / 2 mod p` for odd `p`: `if x & 1 == 0 { x >> 1 } else { (x + p) >> 1 }` -/
def halfMod (p x : Nat) : Nat := if x % 2 = 0 then x / 2 else (x + p) / 2

/-- `Poly::prepare_prime(p, r, div, inv, dinv, offset)`; `dinv` = inverse of `D` modulo `p`
(0 when `p ∣ D`), as `Workspace::batch_inversion` provides it. -/
def preparePrime (pol : Poly) (p r dinv : Nat) (offset : Int) : Option (Nat × Nat) :=
  if p = 0 then none
  else
    let off := (offset % (p : Int)).toNat                        -- div.modi64(offset) as u32
    if p = 2 then some (0, 1)
    else if dinv = 0 then
      -- D inside the factor base: the roots are the roots of Bx + C
      let b := pol.b % p
      if b = 0 then none                                         -- Inverter::invert: assert!(x != 0)
      else
        match invMod b p with
        | none => none
        | some binv =>
          let c0 := pol.c.natAbs % p
          let c := if pol.c < 0 ∨ c0 = 0 then c0 else p - c0
          let r := shift p off (c * binv % p)
          some (r, r)
    else
      let d2inv := dinv * dinv % p
      let ab : Nat × Nat :=
        if pol.b % 2 = 1 then
          (halfMod p d2inv, pol.b % p)
        else (d2inv, pol.bb % p)
      let ainv := ab.1
      let b := ab.2
      if 2 * p < r + b then none                                 -- 2p - r - b underflows
      else
        let r1 := shift p off ((p + r - b) * ainv % p)
        let r2 := shift p off ((2 * p - r - b) * ainv % p)
        some (r1, r2)

/-- specification of one entry of `Workspace::batch_inversion`: the inverse of `d` modulo `p`,
0 when `p ∣ d` -/
def dinvModp (d p : Nat) : Nat := (invMod (d % p) p).getD 0

/-! ### sieve_for_polys -/

/-- `while k > zero { … }` of `arith::pow_mod` (`U256`; operands below `2^128`, no overflow) -/
def powModAux : Nat → Nat → Nat → Nat → Nat → Nat
  | 0, res, _, _, _ => res
  | f + 1, res, nn, k, p =>
    if k = 0 then res
    else powModAux f (if k % 2 = 1 then res * nn % p else res) (nn * nn % p) (k / 2) p

/-- `pow_mod(n, k, p)` -/
def powMod (n k p : Nat) : Nat := powModAux (bitlen k + 1) 1 (n % p) k p

/-- position `i` of the window is marked composite by the small prime `p`: the multiples of `p` from `bmin` on
when `bmin > p`, from `2p` on otherwise -/
def marked (bmin i p : Nat) : Bool :=
  (bmin + i) % p == 0 && (decide (bmin > p) || decide (bmin + i ≥ 2 * p))

/-- `sieve_for_polys(n, bmin, width)`: the pairs `(D, r)` with `D = bmin + i ≡ 3 (mod 4)` not marked by a small
prime, `gcd(n mod D, D) = 1` (`inv_mod` succeeds) and `r = (n mod D)^((D+1)/4)` a square root of `n` modulo `D` -/
def sieveForPolys (n bmin width : Nat) : List (Nat × Nat) :=
  (List.range width).filterMap fun i =>
    let d := bmin + i
    if Ymq.Gen.Primality.smallPrimes.any (marked bmin i) then none
    else if (bmin % 4 + i) % 4 ≠ 3 then none
    else if d = 0 then none
    else
      let nm := n % d
      let r := powMod nm ((d + 1) / 4) d
      if Nat.gcd nm d ≠ 1 then none
      else if r * r % d = nm then some (d, r) else none

end Ymq.MpqsPoly
