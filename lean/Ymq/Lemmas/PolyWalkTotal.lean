/-
SIQS (C12): totality on the parameter domain — `prepare_a`, `Poly::first` and every `Poly::next` of the
Gray walk return (no assertion, overflow or missing inverse is reachable).
-/
import Ymq.Lemmas.PolyFinishTotal
import Mathlib.Data.List.Prime
namespace Ymq.PolySizes
open Ymq.SiqsPoly Ymq.PolyInv Ymq.PolyBits Ymq.PolySiqs Ymq.PolyCrt Ymq.PolyWalkB

set_option exponentiation.threshold 1100

/-- the selected primes do not divide `n` (`select_siqs_factors` skips the primes with root 0) -/
def SelNz (n : Int) (sel : List Prime) : Prop := ∀ q ∈ sel, ¬ ((q.p : Int) ∣ n)

theorem afs_mem_sel {n : Int} {sel : List Prime} {f : Factors} {a : Nat} (hf : mkFactors n sel = some f) :
    f.n = n ∧ ∀ x ∈ afsOf f a, x.2 ∈ sel := by
  unfold mkFactors at hf
  simp only [Option.bind_eq_bind] at hf
  cases htbl : mkInverses sel with
  | none => simp [htbl] at hf
  | some tbl =>
    simp only [htbl, Option.bind_some, Option.some.injEq] at hf
    subst hf
    refine ⟨rfl, ?_⟩
    intro x hx
    have hsub : (afsOf { n := n, factors := sel, inverses := tbl } a).Sublist (withIdx 0 sel) := by
      unfold afsOf; exact List.filter_sublist
    obtain ⟨j, q⟩ := x
    obtain ⟨i, hi, _, hq⟩ := (mem_withIdx sel 0 j q).mp (hsub.subset hx)
    simp only; rw [hq]; exact List.getElem_mem hi

/-- a prime dividing `A` is one of the selected primes -/
theorem prime_dvd_a {n : Int} {sel : List Prime} {f : Factors} {a p : Nat} (hs : SelOk n sel)
    (hf : mkFactors n sel = some f) (ha : a = ((afsOf f a).map (·.2.p)).prod) (hp : Nat.Prime p)
    (hpa : p ∣ a) : ∃ q ∈ sel, q.p = p := by
  rw [ha] at hpa
  obtain ⟨y, hy, hpy⟩ := (Nat.Prime.prime hp).dvd_prod_iff.mp hpa
  obtain ⟨x, hx, rfl⟩ := List.mem_map.mp hy
  have hxs := (afs_mem_sel (a := a) hf).2 x hx
  have := (Nat.prime_dvd_prime_iff_eq hp (hs.prime _ hxs)).mp hpy
  exact ⟨x.2, hxs, this.symm⟩

/-- consequences of `A ∣ B² − n` for `B` -/
theorem b_facts {n : Int} {sel : List Prime} {f : Factors} {a : Nat} {b : Int} (hs : SelOk n sel) (hz : SelNz n sel)
    (hf : mkFactors n sel = some f) (ha : a = ((afsOf f a).map (·.2.p)).prod)
    (hne : afsOf f a ≠ []) (hdvd : (a : Int) ∣ b * b - n) :
    b ≠ 0 ∧ ∀ p : Nat, Nat.Prime p → p ∣ a → ¬ ((p : Int) ∣ b) := by
  have key : ∀ p : Nat, Nat.Prime p → p ∣ a → ¬ ((p : Int) ∣ b) := by
    intro p hp hpa hpb
    obtain ⟨q, hq, rfl⟩ := prime_dvd_a hs hf ha hp hpa
    apply hz q hq
    have h1 : ((q.p : Nat) : Int) ∣ b * b - n := Int.dvd_trans (Int.natCast_dvd_natCast.mpr hpa) hdvd
    have h2 : ((q.p : Nat) : Int) ∣ b * b := Dvd.dvd.mul_right hpb b
    have := Int.dvd_sub h2 h1
    simpa using this
  refine ⟨?_, key⟩
  intro hb0
  obtain ⟨x, hx⟩ := List.exists_mem_of_ne_nil _ hne
  have hxs := (afs_mem_sel (a := a) hf).2 x hx
  have hpa : x.2.p ∣ a := by
    rw [ha]; exact List.dvd_prod (List.mem_map.mpr ⟨x, hx, rfl⟩)
  exact key x.2.p (hs.prime _ hxs) hpa (by rw [hb0]; exact dvd_zero _)

/-- the inverses needed by `_finish_polynomial` for the primes dividing `A` exist -/
theorem finish_inv_ok {n : Int} {fb : List Prime} {so : Int} {pa : APrep} {B0 : Nat} {ds : List Nat}
    (fam : Fam n fb so pa B0 ds) (hprime : ∀ q ∈ fb, Nat.Prime q.p) {b : Int} {t2 : Bool}
    (hb : ∀ p : Nat, Nat.Prime p → p ∣ pa.a → ¬ ((p : Int) ∣ b)) (hb0 : 0 ≤ b) :
    ∀ pp ∈ pa.pps, pp.divA = true →
      ∃ v, invMod ((if t2 then 1 else 2) * (b.toNat % pp.p)) pp.p = some v := by
  intro pp hpp hdiv
  obtain ⟨i, hi, rfl⟩ := List.mem_iff_getElem.mp hpp
  have hi' : i < fb.length := by rw [← fam.len]; exact hi
  obtain ⟨_, hp, _, hdivA⟩ := mkPP_basic (fam.pp i hi' hi)
  rw [hdiv] at hdivA
  have hpr := hprime _ (List.getElem_mem hi')
  rw [hp]
  have h2 : a2aOf n pa.a % fb[i].p = 0 ∧ fb[i].p ≠ 2 := by
    have := hdivA.symm
    simp only [Bool.and_eq_true, beq_iff_eq, bne_iff_ne, ne_eq] at this
    exact this
  have hpa : fb[i].p ∣ pa.a := by
    have hd : fb[i].p ∣ a2aOf n pa.a := Nat.dvd_of_mod_eq_zero h2.1
    unfold a2aOf at hd
    split at hd
    · rcases (Nat.Prime.dvd_mul hpr).mp hd with h | h
      · exact absurd ((Nat.prime_dvd_prime_iff_eq hpr Nat.prime_two).mp h) h2.2
      · exact h
    · exact hd
  have hnb := hb _ hpr hpa
  have hbn : ((b.toNat : Nat) : Int) = b := Int.toNat_of_nonneg hb0
  have hnb' : ¬ fb[i].p ∣ b.toNat := by
    intro hd; apply hnb; rw [← hbn]; exact Int.natCast_dvd_natCast.mpr hd
  have hodd : fb[i].p % 2 = 1 := hpr.eq_two_or_odd.resolve_left h2.2
  have hne0 : (if t2 = true then 1 else 2) * (b.toNat % fb[i].p) % fb[i].p ≠ 0 := by
    intro h0
    have hd : fb[i].p ∣ (if t2 = true then 1 else 2) * (b.toNat % fb[i].p) := Nat.dvd_of_mod_eq_zero h0
    rcases (Nat.Prime.dvd_mul hpr).mp hd with h | h
    · have h2' : fb[i].p ∣ 2 := by
        split at h
        · exact Nat.dvd_trans h (by norm_num)
        · exact h
      have : fb[i].p ≤ 2 := Nat.le_of_dvd (by norm_num) h2'
      have := hpr.two_le
      omega
    · exact hnb' ((Nat.dvd_mod_iff (dvd_refl _)).mp h)
  obtain ⟨x, hx, _⟩ := invMod_prime hpr hne0
  exact ⟨x, hx⟩

/-- everything the walk needs to know about the family of `A` for totality -/
structure WalkDom (n : Int) (sel fb : List Prime) (f : Factors) (a mm : Nat) (pa : APrep) : Prop where
  fbprime : ∀ q ∈ fb, Nat.Prime q.p
  selok : SelOk n sel
  nz : SelNz n sel
  hf : mkFactors n sel = some f
  ha : a = ((afsOf f a).map (·.2.p)).prod
  aodd : isType2 n = true → a % 2 = 1
  hpa : prepareA f a fb (-((mm : Int) / 2)) = some pa
  hne : pa.factors.isEmpty = false
  dom : SizeDom n mm a pa.factors.length
  root : pa.factors.length ≥ 5 → 3 * siqsTarget n mm ≤ 4 * a

theorem chk256_isSome {x : Int} (h1 : -(2 ^ 254 : Int) ≤ x) (h2 : x < 2 ^ 254) : chk256 x = some x := by
  unfold chk256 P255
  rw [if_pos]
  have e : (2 : Int) ^ 254 < 57896044618658097711785492504343953926634992332820282019728792003956564819968 := by
    norm_num
  constructor <;> omega

/-- for every choice of roots, `B` passes all the checks that depend on it -/
theorem entry_ok {n : Int} {sel fb : List Prime} {f : Factors} {a mm : Nat} {pa : APrep}
    (w : WalkDom n sel fb f a mm pa) (g : Nat → Bool) :
    0 < bsumZ g 0 pa.roots ∧ bsumZ g 0 pa.roots ≤ 2 * (pa.factors.length : Int) * a ∧
    (isType2 n = true → bsumZ g 0 pa.roots % 2 = 1) ∧
    polyM (isType2 n) a ∣ bsumZ g 0 pa.roots * bsumZ g 0 pa.roots - n ∧
    (∀ p : Nat, Nat.Prime p → p ∣ a → ¬ ((p : Int) ∣ bsumZ g 0 pa.roots)) := by
  obtain ⟨prs, hprs, _, _, _, hfac, hroots, _, _⟩ := prepareA_some w.hpa
  obtain ⟨hlen, hle⟩ := rootPairs_le (f := f) (a := a) (afs := afsOf f a) _ _ _ hprs
  have hhi := rootPairs_hi (f := f) (a := a) (afs := afsOf f a) _ _ _ hprs
  have hbnd := bsumZ_le g a pa.roots 0 (by
    intro pr hpr
    rw [hroots] at hpr
    obtain ⟨x, hx, rfl⟩ := List.mem_map.mp hpr
    have h1 := (hle x hx).1
    have h2 := hhi x hx
    simp only
    refine ⟨by positivity, by exact_mod_cast h1, by exact_mod_cast h2⟩)
  have hl : pa.roots.length = pa.factors.length := by rw [hroots, hfac]; simp [hlen]
  rw [hl] at hbnd
  have hbz : bsumZ g 0 pa.roots = ((bsum g 0 prs : Nat) : Int) := by rw [hroots]; exact bsumZ_cast _ _ _
  obtain ⟨hA, h4⟩ := crt_B_sq w.selok w.hf w.ha hprs g
  rw [← hbz] at hA h4
  have hafs : afsOf f a ≠ [] := by
    intro he
    have := w.hne
    rw [hfac, he] at this
    simp at this
  have hprs_ne : prs ≠ [] := by
    intro he
    rw [he] at hlen
    exact hafs (List.length_eq_zero_iff.mp hlen.symm)
  obtain ⟨hb0, hbp⟩ := b_facts w.selok w.nz w.hf w.ha hafs hA
  refine ⟨lt_of_le_of_ne hbnd.1 (Ne.symm hb0), hbnd.2, ?_, ?_, hbp⟩
  · intro ht
    have h4n : n % 4 = 1 := by simpa [isType2] using ht
    have := (h4 h4n (w.aodd ht) hprs_ne).1
    rw [hbz]; omega
  · rw [polyM]
    split
    · rename_i ht
      have h4n : n % 4 = 1 := by simpa [isType2] using ht
      exact (h4 h4n (w.aodd ht) hprs_ne).2
    · exact hA

/-- `_finish_polynomial` returns for every `B` of the family, on the domain -/
theorem finish_ok {n : Int} {sel fb : List Prime} {f : Factors} {a mm : Nat} {pa : APrep}
    (w : WalkDom n sel fb f a mm pa) (g : Nat → Bool) (pol0 : Poly)
    (hb : pol0.b = bsumZ g 0 pa.roots) (ht : pol0.type2 = isType2 n) (hn : pol0.n = n)
    (hc1 : -(2 ^ 254 : Int) < pol0.c) (hc2 : pol0.c < 2 ^ 254) :
    ∃ pol, finish (mkSieve n mm) pa pol0 = some pol := by
  obtain ⟨B0, ds, fam, hpaa, ha0, _⟩ := prepareA_fam w.hpa
  rw [(afs_mem_sel (a := a) w.hf).1] at fam
  obtain ⟨hb0, hble, _, hdvd, hbp⟩ := entry_ok w g
  rw [← hb] at hb0 hble hdvd hbp
  have hbn : ((pol0.b.toNat : Nat) : Int) = pol0.b := Int.toNat_of_nonneg (le_of_lt hb0)
  obtain ⟨hs1, hs2⟩ := dom_bits w.dom pol0.b (le_of_lt hb0) hble
  apply finish_isSome hb0 (by rw [hpaa]; exact ha0)
  · rw [ht, hn, hpaa]; push_cast; rw [hbn]; exact hdvd
  · exact finish_inv_ok fam w.fbprime (by rw [hpaa]; exact hbp) (le_of_lt hb0)
  · intro h5
    rw [ht, hpaa]
    exact dom_root w.dom (w.root h5)
  · rw [hpaa]; exact hs1
  · exact hs2
  · have : pol0.c.natAbs < 2 ^ 254 := by omega
    have := bitlen_le_of_lt this
    omega

theorem first_isSome {n : Int} {sel fb : List Prime} {f : Factors} {a mm : Nat} {pa : APrep}
    (w : WalkDom n sel fb f a mm pa) : ∃ pol, first (mkSieve n mm) pa = some pol := by
  obtain ⟨hb0, hble, hodd, _, _⟩ := entry_ok w (fun _ => false)
  have hsum : (pa.roots.map (·.1)).sum = bsumZ (fun _ => false) 0 pa.roots := (bsumZ_false pa.roots 0).symm
  have hA := dom_A_lt w.dom
  have hnf : (pa.factors.length : Int) ≤ 32 := by exact_mod_cast w.dom.nfhi
  have hchk : chk256 ((pa.roots.map (·.1)).sum) = some (bsumZ (fun _ => false) 0 pa.roots) := by
    rw [hsum]
    apply chk256_isSome
    · have : (0 : Int) < 2 ^ 254 := by norm_num
      omega
    · have hA' : (a : Int) < 2 ^ 213 := by exact_mod_cast hA
      have e : (2 : Int) ^ 254 = 64 * 2 ^ 213 * 2 ^ 35 := by norm_num
      nlinarith
  unfold first
  dsimp only
  rw [w.hne]
  simp only [Bool.false_eq_true, if_false]
  rw [hchk]
  dsimp only
  rw [if_neg (by
    rintro ⟨ht, hne⟩
    exact hne (hodd ht))]
  exact finish_ok w (fun _ => false) _ rfl rfl rfl (by norm_num) (by norm_num)

/-- the update of `B` in `Poly::next` lands on the Gray-selected sum of the next index -/
theorem b_step (roots : List (Int × Int)) (i : Nat) (h64 : i + 1 < 2 ^ 64) (b r0 r1 : Int)
    (hb : b = bsumZ (grayBits i) 0 roots)
    (hroots : roots[tz64 ((i ^^^ i >>> 1) ^^^ (i + 1 ^^^ (i + 1) >>> 1))]? = some (r0, r1)) :
    (if ((i ^^^ i >>> 1) >>> tz64 ((i ^^^ i >>> 1) ^^^ (i + 1 ^^^ (i + 1) >>> 1))) % 2 = 0
      then b + r1 - r0 else b + r0 - r1) = bsumZ (grayBits (i + 1)) 0 roots := by
  obtain ⟨hbit, hlt, hng, htest⟩ := gray_step_aux i h64
  generalize hbitdef : tz64 ((i ^^^ i >>> 1) ^^^ (i + 1 ^^^ (i + 1) >>> 1)) = bit at *
  have hbr : bit < roots.length := by
    by_contra hc
    rw [List.getElem?_eq_none (by omega)] at hroots; cases hroots
  have hr : roots[bit] = (r0, r1) := by
    rw [List.getElem?_eq_getElem hbr] at hroots; exact Option.some.inj hroots
  have hflip := bsumZ_flip (grayBits i) (grayBits (i + 1)) roots 0 bit hbr (by
    intro j
    simp only [grayBits, Nat.zero_add]
    exact htest j)
  rw [hflip, hb, hr]
  simp only [Nat.zero_add]
  have htb : grayBits i bit = decide (((i ^^^ i >>> 1) >>> bit) % 2 = 1) := by
    simp only [grayBits, Nat.testBit_eq_decide_div_mod_eq, Nat.shiftRight_eq_div_pow]
  by_cases hup : ((i ^^^ i >>> 1) >>> bit) % 2 = 0
  · have : grayBits i bit = false := by rw [htb]; exact decide_eq_false (by omega)
    rw [if_pos hup, this]; simp; ring
  · have : grayBits i bit = true := by rw [htb]; exact decide_eq_true (by omega)
    rw [if_neg hup, this]; simp; ring

/-- the bit flipped at step `i → i + 1` is below `nf − 1` as long as `i + 1 < 2^(nf−1)` -/
theorem bit_lt (i nf : Nat) (h : i + 1 < 2 ^ (nf - 1)) (h64 : i + 1 < 2 ^ 64) :
    tz64 ((i ^^^ i >>> 1) ^^^ (i + 1 ^^^ (i + 1) >>> 1)) < nf - 1 ∧
    tz64 ((i ^^^ i >>> 1) ^^^ (i + 1 ^^^ (i + 1) >>> 1)) < 64 ∧
    (i + 1 ^^^ (i + 1) >>> 1) = (i ^^^ i >>> 1) ^^^
      1 <<< tz64 ((i ^^^ i >>> 1) ^^^ (i + 1 ^^^ (i + 1) >>> 1)) := by
  obtain ⟨hbit, hlt, hng, _⟩ := gray_step_aux i h64
  obtain ⟨hd, _⟩ := tzN_pos_spec (i + 1) (by omega)
  refine ⟨?_, hlt, hng⟩
  rw [hbit]
  by_contra hc
  have h1 : 2 ^ (nf - 1) ∣ i + 1 := Nat.dvd_trans (pow_dvd_pow 2 (by omega)) hd
  have := Nat.le_of_dvd (by omega) h1
  omega

theorem next_isSome {n : Int} {sel fb : List Prime} {f : Factors} {a mm : Nat} {pa : APrep}
    (w : WalkDom n sel fb f a mm pa) (pol : Poly) (i : Nat) (hidx : pol.idx = i)
    (hb : pol.b = bsumZ (grayBits i) 0 pa.roots) (ht : pol.type2 = isType2 n) (hn : pol.n = n)
    (hc1 : -(2 ^ 254 : Int) < pol.c) (hc2 : pol.c < 2 ^ 254)
    (hi : i + 1 < 2 ^ (pa.factors.length - 1)) :
    ∃ pol', next (mkSieve n mm) pa pol = some pol' := by
  have hnf32 : pa.factors.length ≤ 32 := w.dom.nfhi
  have h64 : i + 1 < 2 ^ 64 := by
    have : 2 ^ (pa.factors.length - 1) ≤ 2 ^ 64 := Nat.pow_le_pow_right (by norm_num) (by omega)
    omega
  obtain ⟨hbl, hb64, hng⟩ := bit_lt i pa.factors.length hi h64
  obtain ⟨prs, hprs, _, _, _, hfac, hrootsdef, _, _⟩ := prepareA_some w.hpa
  obtain ⟨hlen, hle⟩ := rootPairs_le (f := f) (a := a) (afs := afsOf f a) _ _ _ hprs
  have hhi := rootPairs_hi (f := f) (a := a) (afs := afsOf f a) _ _ _ hprs
  have hl : pa.roots.length = pa.factors.length := by rw [hrootsdef, hfac]; simp [hlen]
  generalize hbitdef : tz64 ((i ^^^ i >>> 1) ^^^ (i + 1 ^^^ (i + 1) >>> 1)) = bit at *
  have hbr : bit < pa.roots.length := by omega
  -- the pair to flip, with its bounds
  obtain ⟨r0, r1, hr, hr0, hr01, hr1⟩ : ∃ r0 r1 : Int, pa.roots[bit]? = some (r0, r1) ∧ 0 ≤ r0 ∧ r0 ≤ r1 ∧
      r1 ≤ 2 * (a : Int) := by
    have hbp : bit < prs.length := by rw [hrootsdef] at hbr; simpa using hbr
    refine ⟨(prs[bit].1 : Int), (prs[bit].2 : Int), ?_, by positivity, ?_, ?_⟩
    · rw [List.getElem?_eq_getElem hbr]; simp [hrootsdef]
    · exact_mod_cast (hle _ (List.getElem_mem hbp)).1
    · exact_mod_cast hhi _ (List.getElem_mem hbp)
  have hstep := b_step pa.roots i h64 pol.b r0 r1 hb (by rw [hbitdef]; exact hr)
  rw [hbitdef] at hstep
  obtain ⟨hb0, hble, _, _, _⟩ := entry_ok w (grayBits i)
  obtain ⟨hb0', hble', hodd', _, _⟩ := entry_ok w (grayBits (i + 1))
  rw [← hb] at hb0 hble
  have hA := dom_A_lt w.dom
  have hA' : (a : Int) < 2 ^ 213 := by exact_mod_cast hA
  have hnf : (pa.factors.length : Int) ≤ 32 := by exact_mod_cast hnf32
  have e254 : (2 : Int) ^ 254 = 64 * 2 ^ 213 * 2 ^ 35 := by norm_num
  have hbig : 2 * (pa.factors.length : Int) * a + 2 * a < 2 ^ 254 := by nlinarith
  unfold next
  dsimp only
  rw [hidx, if_neg (by omega), hbitdef, if_neg (by omega), if_neg (by
    intro hne; exact hne hng), hr]
  dsimp only
  by_cases hup : ((i ^^^ i >>> 1) >>> bit) % 2 = 0
  · rw [if_pos hup] at hstep ⊢
    rw [chk256_isSome (by omega) (by omega)]
    dsimp only
    rw [chk256_isSome (by omega) (by omega)]
    dsimp only
    exact finish_ok w (grayBits (i + 1)) _ (by simp only; rw [← hstep]) ht hn hc1 hc2
  · rw [if_neg hup] at hstep ⊢
    rw [chk256_isSome (by omega) (by omega)]
    dsimp only
    rw [chk256_isSome (by omega) (by omega)]
    dsimp only
    rw [if_neg (by
      rintro ⟨htt, hne⟩
      rw [ht] at htt
      apply hne
      rw [hstep]; exact hodd' htt)]
    exact finish_ok w (grayBits (i + 1)) _ (by simp only; rw [← hstep]) ht hn hc1 hc2

/-- totality of the walk on the domain: every polynomial of the family is produced -/
theorem walk_total_aux {n : Int} {sel fb : List Prime} {f : Factors} {a mm : Nat} {pa : APrep}
    (w : WalkDom n sel fb f a mm pa) :
    ∀ idx, idx < 2 ^ (pa.factors.length - 1) → ∃ pol, polyAt (mkSieve n mm) pa idx = some pol := by
  intro idx
  induction idx with
  | zero => intro _; exact first_isSome w
  | succ i ih =>
    intro hi
    obtain ⟨pol, hpol⟩ := ih (by omega)
    obtain ⟨hidx, hb⟩ := polyAt_b w.hne i pol hpol
    have hfn := (afs_mem_sel (a := a) w.hf).1
    obtain ⟨_, hc1, hc2⟩ := poly_exact_dom hfn w.hpa w.hne hpol w.dom
    obtain ⟨B0, ds, fam, _, _, _⟩ := prepareA_fam w.hpa
    rw [hfn] at fam
    obtain ⟨hw, _⟩ := polyAt_walk (mm := mm) fam (by
      show SoOk (-((mm : Int) / 2))
      have := w.dom.mhi
      unfold SoOk; omega) i pol hpol
    obtain ⟨pol', hpol'⟩ := next_isSome w pol i hidx hb hw.2.1 hw.2.2.1 hc1 hc2 hi
    exact ⟨pol', by simp only [polyAt, hpol, hpol']⟩

/-! ### totality of `prepare_a` -/

theorem crtLoop_isSome {f : Factors} {idx p : Nat} (hp0 : p ≠ 0) :
    ∀ (l : List (Nat × Prime)) (c inv : Nat), InvOk f idx p l → ∃ r, crtLoop f idx p l c inv = some r := by
  intro l
  induction l with
  | nil => intro c inv _; exact ⟨_, rfl⟩
  | cons x xs ih =>
    intro c inv hok
    obtain ⟨jdx, q⟩ := x
    have hok' : InvOk f idx p xs := fun jq hm hne => hok jq (List.mem_cons_of_mem _ hm) hne
    by_cases hj : jdx = idx
    · subst hj
      simp only [crtLoop, ne_eq, not_true_eq_false, if_false]
      exact ih c inv hok'
    · obtain ⟨row, v, hrow, hv, _⟩ := hok (jdx, q) (List.mem_cons_self) hj
      simp only [crtLoop, ne_eq, hj, not_false_eq_true, if_true, hrow, hv, hp0, if_false]
      exact ih _ _ hok'

theorem rootPair_isSome {a i : Nat} {fp : Prime} {c inv : Nat} (hp0 : fp.p ≠ 0) (hac : a = fp.p * c) :
    ∃ pr, rootPair a i fp c inv = some pr := by
  have hR : fp.r * inv % fp.p * c ≤ a := by
    rw [hac]
    exact Nat.mul_le_mul_right c (le_of_lt (Nat.mod_lt _ (Nat.pos_of_ne_zero hp0)))
  unfold rootPair
  rw [if_neg hp0]
  dsimp only
  split
  · rw [if_neg (by omega)]; exact ⟨_, rfl⟩
  · rw [if_neg (by omega), if_pos (by omega)]; exact ⟨_, rfl⟩

theorem rootPairs_isSome {f : Factors} {n : Int} {a : Nat} {afs : List (Nat × Prime)} :
    ∀ (l : List (Nat × Prime)) (i : Nat), (∀ x ∈ l, ElemOk f n a afs x) →
      ∃ prs, rootPairs f a afs i l = some prs := by
  intro l
  induction l with
  | nil => intro i _; exact ⟨[], rfl⟩
  | cons x xs ih =>
    intro i hok
    obtain ⟨idx, fp⟩ := x
    have ex := hok (idx, fp) (List.mem_cons_self)
    have hp0 : fp.p ≠ 0 := by have := ex.one_lt; simp only at this; omega
    obtain ⟨⟨c, inv⟩, h1⟩ := crtLoop_isSome hp0 afs 1 1 ex.inv
    obtain ⟨hc, _⟩ := crtLoop_spec ex.one_lt afs 1 1 c inv ex.inv h1
    have hc' : c = (others idx afs).prod := by rw [hc, Nat.one_mul]
    obtain ⟨pr, h2⟩ := rootPair_isSome (a := a) (i := i) (c := c) (inv := inv) hp0 (by rw [hc']; exact ex.prod)
    obtain ⟨tl, h3⟩ := ih (i + 1) (fun y hy => hok y (List.mem_cons_of_mem _ hy))
    exact ⟨pr :: tl, by simp [rootPairs, h1, h2, h3]⟩

theorem mkPP_isSome {a2a root0 : Nat} {ds : List Nat} {so : Int} {q : Prime} (hp0 : q.p ≠ 0)
    (hp24 : q.p < 2 ^ 24) (hso1 : -(2 ^ 20 : Int) ≤ so) (hso2 : so ≤ 0) :
    ∃ pp, mkPP a2a root0 ds so q = some pp := by
  have hpos : 0 < q.p := Nat.pos_of_ne_zero hp0
  unfold mkPP
  rw [if_neg hp0]
  dsimp only
  have h1 : root0 % q.p * ((invMod (a2a % q.p) q.p).getD 1) % q.p < q.p := Nat.mod_lt _ hpos
  have h2 : (invMod (a2a % q.p) q.p).getD 1 * q.r % q.p < q.p := Nat.mod_lt _ hpos
  have e24 : (2 : Nat) ^ 24 = 16777216 := by norm_num
  have e20 : (2 : Int) ^ 20 = 1048576 := by norm_num
  rw [e24] at hp24; rw [e20] at hso1
  have hw : wrapI32 so = so := by unfold wrapI32; omega
  have c1 : chkI32 (-((root0 % q.p * ((invMod (a2a % q.p) q.p).getD 1) % q.p : Nat) : Int)
      - (((invMod (a2a % q.p) q.p).getD 1 * q.r % q.p : Nat) : Int))
      = some (-((root0 % q.p * ((invMod (a2a % q.p) q.p).getD 1) % q.p : Nat) : Int)
      - (((invMod (a2a % q.p) q.p).getD 1 * q.r % q.p : Nat) : Int)) := by
    unfold chkI32; rw [if_pos]; omega
  rw [c1]
  dsimp only
  rw [hw]
  have c2 : chkI32 (-((root0 % q.p * ((invMod (a2a % q.p) q.p).getD 1) % q.p : Nat) : Int)
      - (((invMod (a2a % q.p) q.p).getD 1 * q.r % q.p : Nat) : Int) - so)
      = some (-((root0 % q.p * ((invMod (a2a % q.p) q.p).getD 1) % q.p : Nat) : Int)
      - (((invMod (a2a % q.p) q.p).getD 1 * q.r % q.p : Nat) : Int) - so) := by
    unfold chkI32; rw [if_pos]; omega
  rw [c2]
  exact ⟨_, rfl⟩

theorem bsum_false : ∀ (prs : List (Nat × Nat)) (k : Nat), bsum (fun _ => false) k prs = (prs.map (·.1)).sum := by
  intro prs
  induction prs with
  | nil => intro k; rfl
  | cons x xs ih => intro k; simp [bsum, ih]

/-- `prepare_a` returns on the domain -/
theorem prepareA_isSome {n : Int} {sel fb : List Prime} {f : Factors} {a mm nf : Nat}
    (hs : SelOk n sel) (hf : mkFactors n sel = some f) (ha : a = ((afsOf f a).map (·.2.p)).prod)
    (hne : afsOf f a ≠ []) (hfb : ∀ q ∈ fb, q.p ≠ 0 ∧ q.p < 2 ^ 24) (d : SizeDom n mm a nf) :
    ∃ pa, prepareA f a fb (-((mm : Int) / 2)) = some pa := by
  obtain ⟨_, _, helem⟩ := afs_elem_ok hs hf ha
  obtain ⟨prs, hprs⟩ := rootPairs_isSome (afsOf f a) 0 helem
  obtain ⟨hA, _⟩ := crt_B_sq hs hf ha hprs (fun _ => false)
  have hfn := (afs_mem_sel (a := a) hf).1
  have hA213 := dom_A_lt d
  obtain ⟨_, _, _, _, _, _, _, _, _, _, _, _, hA500⟩ := target_facts d
  have hroot0 : root0Of f.n (afsOf f a).isEmpty prs = bsum (fun _ => false) 0 prs := by
    unfold root0Of
    have : (afsOf f a).isEmpty = false := by simpa using hne
    rw [this, bsum_false]; simp
  obtain ⟨pps, hpps⟩ := allSome_isSome (fb.map (mkPP (a2aOf f.n a) (root0Of f.n (afsOf f a).isEmpty prs)
      (prs.map fun pr => pr.2 - pr.1) (-((mm : Int) / 2)))) (by
    intro x hx
    obtain ⟨q, hq, rfl⟩ := List.mem_map.mp hx
    obtain ⟨h0, h24⟩ := hfb q hq
    have := d.mhi
    have e : (2 : Nat) ^ 20 = 1048576 := by norm_num
    have e' : (2 : Int) ^ 20 = 1048576 := by norm_num
    exact mkPP_isSome h0 h24 (by omega) (by omega))
  unfold prepareA
  rw [if_neg (by
    have : (2 : Nat) ^ 213 < 2 ^ 254 := by norm_num
    omega)]
  dsimp only
  rw [hprs]
  dsimp only
  rw [if_neg (by omega), if_neg (by
    intro hne'
    apply hne'
    rw [hroot0, hfn]
    apply Int.emod_eq_zero_of_dvd
    push_cast
    exact hA), hpps]
  exact ⟨_, rfl⟩

end Ymq.PolySizes
