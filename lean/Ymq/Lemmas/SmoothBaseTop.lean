/-
`SmoothBase::new` on its two prime sources (C17): `primes(b1/2)` below 65536 and the blocks of the
`PrimeSieve` above.  In both cases the list consumed by the packing loop is strictly increasing,
consists of numbers `≥ 2` and contains every prime below `b1`.
-/
import Ymq.Lemmas.SmoothBaseLoop
import Ymq.Lemmas.PrimesStream

namespace Ymq.SmoothBase
open Ymq.Primes

/-- what the packing theorem needs from the list of primes -/
structure Source (b1 : Nat) (l : List Nat) : Prop where
  ge2 : ∀ p ∈ l, 2 ≤ p
  sorted : l.Pairwise (· < ·)
  complete : ∀ p, p.Prime → p < b1 → p ∈ l

/-- fewer than `m/2 + 1` primes below `m`: apart from 2 they are odd -/
theorem length_primesBelow_odd (j : Nat) : (primesBelow (2 * j + 1)).length ≤ j := by
  induction j with
  | zero => simp [primesBelow, List.range_succ, Nat.not_prime_zero]
  | succ j ih =>
    by_cases hj : j = 0
    · subst hj
      have : primesBelow (2 * (0 + 1) + 1) = [2] := by
        simp [primesBelow, List.range_succ, Nat.not_prime_zero, Nat.not_prime_one, Nat.prime_two]
      rw [this]; simp
    · rw [primesBelow_step j (by omega)]
      split
      · rw [List.length_append]; simp; exact ih
      · omega

theorem length_primesBelow_le (m : Nat) : (primesBelow m).length ≤ m / 2 := by
  rcases Nat.even_or_odd' m with ⟨j, rfl | rfl⟩
  · -- m = 2j
    have h1 := length_primesBelow_odd j
    obtain ⟨X, hX⟩ := primesBelow_add (2 * j) 1
    rw [hX, List.length_append] at h1
    omega
  · have := length_primesBelow_odd j
    omega

theorem bitlen_ge_three {k : Nat} (hk : 4 ≤ k) : 3 ≤ bitlen k := by
  unfold bitlen
  rw [if_neg (by omega)]
  have : 2 ≤ k.log2 := (Nat.le_log2 (by omega)).mpr (by omega)
  omega

theorem bitlen_le_15 {k : Nat} (hk : k < 32768) : bitlen k ≤ 15 :=
  bitlen_le_of_lt (by omega)

/-- below 65536: `primes(b1 / 2)` contains every prime below `b1` -/
theorem sbPrimes_small (b1 : Nat) (hb : b1 < 65536) :
    ∃ l, sbPrimes b1 = some l ∧ Source b1 l := by
  unfold sbPrimes
  rw [if_pos hb, Nat.mod_eq_of_lt (by omega : b1 < 2 ^ 32)]
  set k := b1 / 2 with hk
  have hk15 := bitlen_le_15 (by omega : k < 32768)
  have hmul : k * bitlen k < 2 ^ 32 := by
    have : k * bitlen k ≤ 32768 * 15 := Nat.mul_le_mul (by omega) hk15
    omega
  -- the output of `primes k`
  have hbound : bound k = some (max 100 (k * bitlen k)) := by
    unfold bound; rw [if_pos hmul]
  set bnd := max 100 (k * bitlen k) with hbnd
  have hloop := primesLoop_spec k bnd (bnd / 2) (by omega) (bnd / 2) 1
    (Array.replicate (bnd / 2) false) #[2] (by simp) (by omega) (by omega) (by omega)
    (markInv_init bnd (bnd / 2))
    (by simp [primesBelow, List.range_succ, Nat.not_prime_zero, Nat.not_prime_one, Nat.prime_two])
  refine ⟨_, by unfold primes; rw [hbound], ?_⟩
  rw [hloop]
  -- b1 ≤ 2 * (bnd / 2) + 1
  have hM : b1 ≤ 2 * (bnd / 2) + 1 := by
    by_cases h100 : b1 ≤ 100
    · omega
    · have h3 := bitlen_ge_three (by omega : 4 ≤ k)
      have : k * 3 ≤ k * bitlen k := Nat.mul_le_mul_left _ h3
      omega
  obtain ⟨X, hX⟩ := primesBelow_add b1 (2 * (bnd / 2) + 1 - b1)
  rw [show b1 + (2 * (bnd / 2) + 1 - b1) = 2 * (bnd / 2) + 1 by omega] at hX
  have hlen := length_primesBelow_le b1
  refine ⟨?_, ?_, ?_⟩
  · intro p hp
    have := List.mem_of_mem_take hp
    rw [mem_primesBelow] at this
    exact this.2.two_le
  · exact List.Pairwise.sublist (List.take_sublist _ _) (primesBelow_sorted _)
  · intro p hp hpb
    rw [hX, List.take_append]
    apply List.mem_append_left
    rw [List.take_of_length_le (by omega)]
    rw [mem_primesBelow]; exact ⟨hpb, hp⟩

/-- the loop over sieve blocks: it is at block `c`, `acc` holds every prime below `65536·c` -/
theorem sbPrimesLarge_spec (b1 : Nat)
    (HGap : ∀ c, c ≤ b1 / 65536 + 1 → primesFrom (65536 * c) 65536 ≠ [])
    (hb : b1 / 65536 + 1 < 65536) :
    ∀ d c f (ps : PrimeSieve), c + d = b1 / 65536 + 1 → d < f → 1 ≤ c → Good ps c →
      ∃ c', b1 < 65536 * (c' + 1) ∧
        sbPrimesLarge f b1 ps (primesBelow (65536 * c)) = some (primesBelow (65536 * (c' + 1))) := by
  intro d
  induction d with
  | zero =>
    intro c f ps hcd hf hc1 hgood
    obtain ⟨f, rfl⟩ : ∃ f', f = f' + 1 := ⟨f - 1, by omega⟩
    obtain ⟨ps', hnext, _⟩ := next_spec ps c hgood hc1 (by omega)
    have hne := HGap c (by omega)
    obtain ⟨l, hl⟩ : ∃ l, (primesFrom (65536 * c) 65536).getLast? = some l := by
      cases h : (primesFrom (65536 * c) 65536).getLast? with
      | none => exact absurd (List.getLast?_eq_none_iff.mp h) hne
      | some l => exact ⟨l, rfl⟩
    have hlm : l ∈ primesFrom (65536 * c) 65536 := List.mem_of_getLast? hl
    have hlb := (mem_primesFrom.mp hlm).1
    have hdiv := Nat.div_add_mod b1 65536
    have hmodlt := Nat.mod_lt b1 (by decide : 65536 > 0)
    have hgt : l > b1 := by omega
    rw [sbPrimesLarge, hnext]
    simp only
    rw [hl]
    simp only
    rw [if_pos hgt]
    refine ⟨c, by omega, ?_⟩
    rw [show 65536 * (c + 1) = 65536 * c + 65536 by ring, primesBelow_append]
  | succ d ih =>
    intro c f ps hcd hf hc1 hgood
    obtain ⟨f, rfl⟩ : ∃ f', f = f' + 1 := ⟨f - 1, by omega⟩
    obtain ⟨ps', hnext, hgood'⟩ := next_spec ps c hgood hc1 (by omega)
    have hne := HGap c (by omega)
    obtain ⟨l, hl⟩ : ∃ l, (primesFrom (65536 * c) 65536).getLast? = some l := by
      cases h : (primesFrom (65536 * c) 65536).getLast? with
      | none => exact absurd (List.getLast?_eq_none_iff.mp h) hne
      | some l => exact ⟨l, rfl⟩
    have hlm : l ∈ primesFrom (65536 * c) 65536 := List.mem_of_getLast? hl
    have hlb := (mem_primesFrom.mp hlm).1
    have happ : primesBelow (65536 * c) ++ primesFrom (65536 * c) 65536 =
        primesBelow (65536 * (c + 1)) := by
      rw [show 65536 * (c + 1) = 65536 * c + 65536 by ring, primesBelow_append]
    rw [sbPrimesLarge, hnext]
    simp only
    rw [hl]
    simp only
    by_cases hgt : l > b1
    · rw [if_pos hgt]
      exact ⟨c, by omega, by rw [happ]⟩
    · rw [if_neg hgt, happ]
      exact ih (c + 1) f ps' (by omega) (by omega) (by omega) hgood'

/-- from 65536 on: the concatenated sieve blocks contain every prime below `b1` -/
theorem sbPrimes_large (b1 : Nat) (hb1 : 65536 ≤ b1) (hb : b1 < 4294901760)
    (HSmall : primes 6542 = some (primesBelow 65536))
    (HGap : ∀ c, c ≤ b1 / 65536 + 1 → primesFrom (65536 * c) 65536 ≠ []) :
    ∃ l, sbPrimes b1 = some l ∧ Source b1 l := by
  obtain ⟨ps0, ps1, hnew, hnext, hgood⟩ := new_spec HSmall
  have hdiv : b1 / 65536 + 1 < 65536 := by omega
  obtain ⟨c', hc', hrun⟩ := sbPrimesLarge_spec b1 HGap hdiv (b1 / 65536) 1 65536 ps1 (by omega)
    (by omega) (by omega) hgood
  have hlast : (primesBelow 65536).getLast? = some 65521 := by
    rw [primesBelow_65536]; simp
  unfold sbPrimes
  rw [if_neg (by omega), hnew]
  simp only
  rw [Nat.mod_eq_of_lt (by omega : b1 < 2 ^ 32)]
  rw [show (65537 : Nat) = 65536 + 1 from rfl, sbPrimesLarge, hnext]
  simp only
  rw [hlast]
  simp only
  rw [if_neg (by omega), List.nil_append]
  rw [show 65536 * 1 = 65536 from rfl] at hrun
  refine ⟨_, hrun, ?_, primesBelow_sorted _, ?_⟩
  · intro p hp
    rw [mem_primesBelow] at hp
    exact hp.2.two_le
  · intro p hp hpb
    rw [mem_primesBelow]
    exact ⟨by omega, hp⟩

/-- **`SmoothBase::new`** from a good prime source -/
theorem new_of_source (b1 : Nat) (ul : Bool) (hb : b1 < 2 ^ 32) (l : List Nat)
    (hl : sbPrimes b1 = some l) (hsrc : Source b1 l) :
    ∃ f lg, SmoothBase.new b1 ul = some (f, lg) ∧ (∀ x ∈ f, x < 2 ^ 64) ∧
      (∀ x ∈ lg, x < 2 ^ 1024) ∧
      ∀ p k, p.Prime → p ^ k < b1 → p ^ k ∣ f.prod * lg.prod := by
  obtain ⟨f, lg, hpack, hf, hlg, hall⟩ := pack_spec b1 ul l hb hsrc.ge2 hsrc.sorted
  refine ⟨f, lg, by unfold SmoothBase.new; rw [hl]; exact hpack, hf, hlg, ?_⟩
  intro p k hp hk
  cases k with
  | zero => simp
  | succ k =>
    have hpb : p < b1 := by
      have : p ^ 1 ≤ p ^ (k + 1) := Nat.pow_le_pow_right hp.pos (by omega)
      simp at this; omega
    exact hall p (hsrc.complete p hp hpb) hpb (k + 1) hk

end Ymq.SmoothBase
