import Ymq.Props.C19Wied

#print axioms Ymq.C19Wied.krylov_recurrence
#print axioms Ymq.C19Wied.detp4_spec_full_complexity
#print axioms Ymq.C19Wied.detp4_false_zero_iff_deficient
#print axioms Ymq.C19Wied.detz_of_detp_partial
#print axioms Ymq.C19Wied.detz_early_termination_witness
#print axioms Ymq.C19Wied.mulp_spec
#print axioms Ymq.C19Wied.mulp_overflow_witness
#print axioms Ymq.C19Wied.detp4_lane_of_model
#print axioms Ymq.C19Wied.detp4_lane_of_norm
#print axioms Ymq.C19Wied.isprime64_isprimeSound
#print axioms Ymq.C19Wied.select_crtprimes_spec
#print axioms Ymq.C19Wied.select_crtprimes_zero_norm
#print axioms Ymq.C19Wied.detz_of_detp_selected_partial
#print axioms Ymq.C19Wied.mkMat_valid
#print axioms Ymq.C19Wied.ker_p256_sound
#print axioms Ymq.C19Wied.ker_p256_none_iff
#print axioms Ymq.C19Wied.ker_p256_panics
#print axioms Ymq.C19Wied.detz_early_termination_witness_closed
#print axioms Ymq.C19Wied.ker_p256_singular
