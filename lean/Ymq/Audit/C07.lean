import Ymq.Props.C07
#print axioms Ymq.C07.mgRedc_spec
#print axioms Ymq.C07.mgMul_spec
