import Ymq.Props.C19
#print axioms Ymq.C19.crt_symmetric
#print axioms Ymq.C19.crt_sparse_symmetric
#print axioms Ymq.C19.perm_sign
#print axioms Ymq.C19.snf_ops_unimodular_partial
#print axioms Ymq.C19.snf_diag
#print axioms Ymq.C19.snf_reduce_cols_iso_partial
#print axioms Ymq.C19.echelon_det_partial
#print axioms Ymq.C19.det_exact_partial
#print axioms Ymq.C19.crt_symmetric_closed
