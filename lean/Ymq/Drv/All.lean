import Ymq.Drv.Util
import Ymq.Drv.Mg64

namespace Ymq.Drv

def handlers : List Handler := [handleMg64]

end Ymq.Drv
