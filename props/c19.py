"""C19 — integer determinants, lattice indices and Smith forms are exact.

matrix/intdense.rs (crt, GFpEchelonBuilder, det_matz, CRTDetBuilder, compute_lattice_index, SmithNormalForm)
and matrix/intsparse.rs (SparseMat::{detz,detp4,ker_p256}, berlekamp_massey, crt, compute_lattice_index).
Request lines: see harness/src/ops_intmat.rs and lean/Ymq/Drv/IntMat.lean.
"""
# SIZE AUDIT (quick tier), measured on cases('quick', Random(1)) before the boundary family was added
#   op                         quick max                 thorough           code supports                         boundary classes reached in quick (before the audit)
#   im_crt / im_crt_sparse     64 moduli of 62 bits      same               <= 64 moduli (I4096)                  0..64 moduli, > 64 in chk: reached (designed)
#   im_echelon / im_detp       dim 20, p to 2^61-1,      same (x30 count)   p < 2^62 (Montgomery), i64 entries    entries to 2^62, 8-row blocks (>= 10 rows): reached
#   im_det / im_det_gram       dim 60, full i64, 64 CRT  same               <= 64 primes of 62 bits               1..64 primes: reached
#   im_crtdet                  estimates across the 60/120-bit prime-count steps                                   reached (designed)
#   snf_* (single operations)  h to 125 bits             same               h: u128, divider asserts h < 2^125    h of 63 / 64 / 65 bits: 2..12 cases per op; 124, 125 bits: 1..34 per
#                                                                                                                 op; 60|61 (the 2^63/N limit of submul_n): 16 each in snf_reduce; 126: refused
#   im_lattice_index           index to 108 bits (3      < 2^120 (cap in    hmax < 2^126                          index above 2^64: 3 of 163 cases, nothing at 64|65 exactly, nothing
#                              cases above 64 bits)      the generator)                                           above 108 bits: MISSING at the top of the range in both tiers
#   im_snf / im_snf_new        index to 99 bits          < 2^100 (cap)      index < 2^125                         60..64 bits: 10+ each; 65, 100..125: MISSING in both tiers
#   im_det_sparse / detp4 /    dim 60, |coef| <= 32768   dim 300            dim < 2^16, coef i16, p*norm < 2^63   i16 limits +-32767/8 and refusals: reached; primes next to 2^63/norm: reached
#     mulp4 / norm / primes
#   im_ker_p256                p of 20,44,61,89,127,     same 7 moduli      U256 p; arithmetic chosen by          the three type limits 55|56, 119|120, 181|182 bits and the 64|65 switch of the
#                              180,250 bits (18 cases)   (540 cases)        p.bits() < 56 / < 120 / < 182 and     start vector were NEVER hit in either tier (each fixed modulus sits inside an
#                                                                           norm < 256 / < 256 / < 1024;          arm); norm limits 255|256, 1023|1024 only by chance of the random coefficients
#                                                                           p * norm < 2^253
#   im_bm / im_bm_big          p <= 61 bits              same               u64 p / <u128, U256> (used by         im_bm_big never ran above 61 bits although ker_p256 uses that instantiation
#                                                                           ker_p256 below 120 bits)              up to 119 bits: MISSING
#   im_sparse_lattice_index    dim 24, index to 39 bits  same               as im_lattice_index                   small sizes only (f64 selection findings live here; not extended)
# Added (boundary_cases, first in both tiers): im_ker_p256 at p of exactly 55,56,63,64,65,119,120,127,128,129,181,182,249,250
# bits x norm in {small, 255, 256, 1023, 1024} (rank n-1, simple root, full Krylov sequence: a kernel vector is due);
# im_bm_big at 62..65, 118, 119 bits; im_lattice_index and im_snf with an index of exactly 64,65,100,119,120,124,125 bits.
import math, struct, json, os, random, itertools
from fractions import Fraction
from vlib.pipeline import Case, ROOT
from vlib import gen

import props.c19_bm as bm
import props.c19_wied as wied

PID = "C19"
GEN = []
LEAN = ["Ymq.Props.C19", "Ymq.Props.C19Dense"] + bm.LEAN + wied.LEAN
AUDIT = "Ymq.Audit.C19"
THEOREMS = ["Ymq.C19." + t for t in (
    "crt_symmetric crt_sparse_symmetric perm_sign snf_ops_unimodular_partial snf_diag snf_reduce_cols_iso_partial echelon_det_partial det_exact_partial crt_symmetric_closed "
    "echelon_total echelon_det det_exact_total_partial mg_redc_wide echelon_submul_montgomery_partial").split()] + bm.THEOREMS + wied.THEOREMS
HYPOTHESES = ["inv_mod64_spec = Ymq.IntMat.InvSpec (theorems crt_symmetric, crt_sparse_symmetric, det_exact_partial): arith::inv_mod64(a, p) on u64 "
              "arguments returns Some(i) with i < p and a*i = 1 (mod p) whenever p > 1 and gcd(a, p) = 1; discharged for the model invMod64 that the "
              "driver runs by theorem invMod64_spec of property C08 (invMod64_invSpec, crt_symmetric_closed has no hypothesis left)"]
PROFILES = ["release", "chk"]
TIMEOUT = 30.0
W = 1 << 64

# ======================================================================================
# exact integer linear algebra (plain Python integers; independent of yamaquasi and of the Lean model)
# ======================================================================================


def xgcd(a, b):
    """(g, x, y) with a*x + b*y = g = gcd(a, b) >= 0"""
    x0, x1, y0, y1 = 1, 0, 0, 1
    while b:
        q = a // b
        a, b = b, a - q * b
        x0, x1 = x1, x0 - q * x1
        y0, y1 = y1, y0 - q * y1
    if a < 0:
        a, x0, y0 = -a, -x0, -y0
    return a, x0, y0


def bareiss(M):
    """exact determinant (fraction-free elimination)"""
    n = len(M)
    if n == 0:
        return 1
    A = [list(r) for r in M]
    sign, prev = 1, 1
    for k in range(n - 1):
        if A[k][k] == 0:
            for i in range(k + 1, n):
                if A[i][k] != 0:
                    A[k], A[i] = A[i], A[k]
                    sign = -sign
                    break
            else:
                return 0
        akk = A[k][k]
        rk = A[k]
        for i in range(k + 1, n):
            ri = A[i]
            aik = ri[k]
            if aik == 0:
                if akk != prev:
                    for j in range(k + 1, n):
                        ri[j] = ri[j] * akk // prev
            else:
                for j in range(k + 1, n):
                    ri[j] = (ri[j] * akk - aik * rk[j]) // prev
        prev = akk
    return sign * A[n - 1][n - 1]


def det_mod(M, p):
    """determinant modulo a prime p (Gaussian elimination)"""
    n = len(M)
    A = [[x % p for x in r] for r in M]
    det = 1
    for k in range(n):
        piv = next((i for i in range(k, n) if A[i][k]), None)
        if piv is None:
            return 0
        if piv != k:
            A[k], A[piv] = A[piv], A[k]
            det = -det
        det = det * A[k][k] % p
        inv = pow(A[k][k], -1, p)
        rk = A[k]
        for i in range(k + 1, n):
            f = A[i][k] * inv % p
            if f:
                ri = A[i]
                for j in range(k, n):
                    ri[j] = (ri[j] - f * rk[j]) % p
    return det % p


def rank_mod(M, ncols, p):
    A = [[x % p for x in r] for r in M]
    r = 0
    for c in range(ncols):
        piv = next((i for i in range(r, len(A)) if A[i][c]), None)
        if piv is None:
            continue
        A[r], A[piv] = A[piv], A[r]
        inv = pow(A[r][c], -1, p)
        for i in range(len(A)):
            if i != r and A[i][c]:
                f = A[i][c] * inv % p
                A[i] = [(a - f * b) % p for a, b in zip(A[i], A[r])]
        r += 1
    return r


def full_rank_det(rows, n):
    """|det| of n independent rows chosen greedily (0 when the rank is below n)"""
    A = [list(r) for r in rows]
    m = len(A)
    if m < n:
        return 0
    prev = 1
    for k in range(n):
        piv = next((i for i in range(k, m) if A[i][k] != 0), None)
        if piv is None:
            return 0
        A[k], A[piv] = A[piv], A[k]
        akk, rk = A[k][k], A[k]
        for i in range(k + 1, m):
            ri = A[i]
            aik = ri[k]
            for j in range(k + 1, n):
                ri[j] = (ri[j] * akk - aik * rk[j]) // prev
            ri[k] = 0
        prev = akk
    return abs(A[n - 1][n - 1]) if n else 1


def diag_mod(rows, n, D):
    """diagonalise the matrix over Z/D by unimodular row and column operations on integer representatives:
    returns d_1..d_n with Z^n / (rowlattice + D Z^n) isomorphic to the sum of Z/gcd(d_i, D)."""
    A = [[x % D for x in r] for r in rows]
    A = [r for r in A if any(r)]
    out = []
    cols = n
    while cols > 0 and A:
        # smallest non-zero entry as pivot
        best = None
        for i, r in enumerate(A):
            for j, x in enumerate(r):
                if x and (best is None or x < best[0]):
                    best = (x, i, j)
        if best is None:
            break
        _, pi, pj = best
        A[0], A[pi] = A[pi], A[0]
        if pj != 0:
            for r in A:
                r[0], r[pj] = r[pj], r[0]
        while True:
            p = A[0][0]
            dirty = False
            # column 0 below the pivot
            for i in range(1, len(A)):
                x = A[i][0]
                if x:
                    q = x // p
                    r0 = A[0]
                    A[i] = [(a - q * b) % D for a, b in zip(A[i], r0)]
                    if A[i][0]:
                        A[0], A[i] = A[i], A[0]
                        p = A[0][0]
                        dirty = True
            if dirty:
                continue
            # row 0 right of the pivot
            for j in range(1, cols):
                x = A[0][j]
                if x:
                    q = x // p
                    for r in A:
                        r[j] = (r[j] - q * r[0]) % D
                    if A[0][j]:
                        for r in A:
                            r[0], r[j] = r[j], r[0]
                        p = A[0][0]
                        dirty = True
                        break
            if not dirty:
                break
        out.append(A[0][0])
        A = [r[1:] for r in A[1:]]
        A = [r for r in A if any(r)]
        cols -= 1
    out += [0] * (n - len(out))
    return out


def normal_form(ds):
    """multiset of non-trivial invariant factors of the sum of Z/d (d > 0), as a sorted list"""
    ds = [d for d in ds if d != 1]
    # repeated gcd/lcm passes
    changed = True
    while changed:
        changed = False
        for i in range(len(ds)):
            for j in range(i + 1, len(ds)):
                g = math.gcd(ds[i], ds[j])
                if g != ds[i] and g != ds[j] or (g == ds[j] and ds[i] != ds[j] and ds[i] > ds[j]):
                    l = ds[i] // g * ds[j]
                    if (ds[i], ds[j]) != (g, l):
                        ds[i], ds[j] = g, l
                        changed = True
    return sorted(d for d in ds if d != 1)


def lattice_group(rows, n, D=None):
    """(index, invariant factors) of the row lattice in Z^n (plus D Z^n when D is given);
    index 0 = not of full rank"""
    if D is None:
        D = full_rank_det(rows, n)
        if D == 0:
            return 0, None
    ds = [math.gcd(d, D) for d in diag_mod(rows, n, D)]
    idx = 1
    for d in ds:
        idx *= d
    return idx, normal_form(ds)


def lattice_index(rows, n):
    return lattice_group(rows, n)[0]


def minors_gcd(rows, n):
    """gcd of all maximal minors (brute force; self-test only)"""
    from itertools import combinations
    g = 0
    for c in combinations(range(len(rows)), n):
        g = math.gcd(g, bareiss([rows[i] for i in c]))
    return g


_selftested = False


def selftest(rng):
    global _selftested
    if _selftested:
        return
    _selftested = True
    for _ in range(60):
        n = rng.randrange(1, 4)
        m = n + rng.randrange(0, 3)
        rows = [[rng.randrange(-6, 7) for _ in range(n)] for _ in range(m)]
        g = minors_gcd(rows, n)
        assert lattice_index(rows, n) == g, (rows, g, lattice_index(rows, n))
        if m == n:
            assert abs(bareiss(rows)) == g
        p = 1000003
        if m == n:
            assert det_mod(rows, p) == bareiss(rows) % p
    assert normal_form([2, 3, 4]) == [2, 12] and normal_form([6, 10, 15]) == [30, 30] and normal_form([1, 5]) == [5]
    assert lattice_group([[2, 0], [0, 2]], 2) == (4, [2, 2]) and lattice_group([[2, 1], [0, 2]], 2) == (4, [4])


# ======================================================================================
# encodings
# ======================================================================================


def f64bits(x):
    return struct.unpack("<Q", struct.pack("<d", float(x)))[0]


def bits_f64(b):
    return struct.unpack("<d", struct.pack("<Q", b))[0]


def enc(M):
    return ";".join(",".join(str(x) for x in r) if r else "-" for r in M) if M else "-"


def dec(s):
    if s == "-":
        return []
    return [[int(x) for x in r.split(",")] if r != "-" else [] for r in s.split(";")]


def lst(l):
    return ",".join(str(x) for x in l) if l else "-"


def unlst(s):
    return [] if s == "-" else [int(x) for x in s.split(",")]


def enc_sparse(rows):
    return ";".join(",".join(f"{j}:{e}" for j, e in r) if r else "-" for r in rows) if rows else "-"


def dec_sparse(s):
    if s == "-":
        return []
    return [[(int(e.split(":")[0]), int(e.split(":")[1])) for e in r.split(",")] if r != "-" else [] for r in s.split(";")]


def to_sparse(M):
    return [[(j, x) for j, x in enumerate(r) if x] for r in M]


def to_dense(rows, n):
    M = [[0] * n for _ in rows]
    for i, r in enumerate(rows):
        for j, e in r:
            M[i][j] += e
    return M


def log2int(d):
    d = abs(d)
    if d == 0:
        return float("-inf")
    b = d.bit_length()
    if b > 1000:
        return (b - 1000) + math.log2(d >> (b - 1000))
    return math.log2(d)


def rust_round(x):
    return math.floor(x + 0.5) if x >= 0 else -math.floor(-x + 0.5)


# ======================================================================================
# generators
# ======================================================================================

PRIMES_SMALL = [3, 5, 7, 11, 13, 101, 257, 65537, 1000003]
# primes of [2^62, 2^63): 2^63 - 25, 3*2^61 + 9, 2^62 + 2^59 + .., the first prime above 2^62
P63_EDGE = [9223372036854775783, 8070450532247928827, 6917529027641081737, 5188146770730811387, 4611686018427388039]
_P62 = []
_P61 = []


def walk_primes(start_pow, count):
    p = ((1 << start_pow) // 30) * 30 - 1
    out = []
    while len(out) < count:
        p -= 30
        while not gen.is_prime(p):
            p -= 30
        out.append(p)
    return out


def p62(k):
    global _P62
    if len(_P62) < k:
        _P62 = walk_primes(62, max(k, 70))
    return _P62[:k]


def p61(k):
    global _P61
    if len(_P61) < k:
        _P61 = walk_primes(61, max(k, 70))
    return _P61[:k]


def rand_entry(rng, style):
    if style == "tiny":
        return rng.choice([0, 0, 0, 1, -1, 1, -1, 2, -2, 3])
    if style == "small":
        return rng.randrange(-9, 10)
    if style == "medium":
        return rng.randrange(-10 ** 4, 10 ** 4 + 1)
    if style == "big":
        return rng.randrange(-(1 << 40), (1 << 40) + 1)
    if style == "huge":
        return rng.randrange(-(1 << 62), (1 << 62) + 1)
    if style == "mixed":
        return rand_entry(rng, rng.choice(["tiny", "small", "small", "medium", "big", "huge"]))
    if style == "edge":
        return rng.choice([0, 1, -1, (1 << 63) - 1, -(1 << 63), (1 << 62), -(1 << 62) + 1, (1 << 32), -(1 << 31)])
    raise ValueError(style)


def rand_matrix(rng, m, n, style):
    return [[rand_entry(rng, style) for _ in range(n)] for _ in range(m)]


def unimodular_ops(rng, M, ops, maxabs=None, rows=True, cols=True):
    """apply random elementary unimodular row/column operations in place (entries kept below maxabs)"""
    m = len(M)
    n = len(M[0]) if M else 0
    for _ in range(ops):
        kind = rng.randrange(6)
        if rows and m >= 2 and kind < 3:
            i, j = rng.sample(range(m), 2)
            if kind == 0:
                M[i], M[j] = M[j], M[i]
            elif kind == 1:
                M[i] = [-x for x in M[i]]
            else:
                k = rng.choice([1, -1, 1, -1, 2, -2, 3])
                new = [a + k * b for a, b in zip(M[i], M[j])]
                if maxabs is None or max(abs(x) for x in new) <= maxabs:
                    M[i] = new
        elif cols and n >= 2 and kind >= 3:
            i, j = rng.sample(range(n), 2)
            if kind == 3:
                for r in M:
                    r[i], r[j] = r[j], r[i]
            elif kind == 4:
                for r in M:
                    r[i] = -r[i]
            else:
                k = rng.choice([1, -1, 1, -1, 2, -2])
                if maxabs is None or all(abs(r[i] + k * r[j]) <= maxabs for r in M):
                    for r in M:
                        r[i] += k * r[j]
    return M


def udv(rng, n, diag, ops, maxabs=(1 << 62)):
    """U·D·V with the given diagonal: known Smith form / |det| = prod(diag) by construction"""
    M = [[diag[i] if i == j else 0 for j in range(n)] for i in range(n)]
    return unimodular_ops(rng, M, ops, maxabs)


def rand_diag(rng, n, style, maxd=1 << 40):
    if style == "unit":
        return [1] * n
    if style == "one-big":
        return [1] * (n - 1) + [rng.choice([2, 3, 12, 97, 2 ** 10, 10 ** 6 + 3, rng.randrange(maxd) | 1])]
    if style == "chain":
        d, out = 1, []
        for _ in range(n):
            if rng.randrange(3) == 0:
                d *= rng.choice([2, 2, 3, 5, 7])
            out.append(d)
        return out
    if style == "mixed":
        return [rng.choice([1, 1, 1, 2, 3, 4, 6, 5, 9, 12]) for _ in range(n)]
    if style == "singular":
        out = [rng.choice([1, 2, 3]) for _ in range(n)]
        out[rng.randrange(n)] = 0
        return out
    raise ValueError(style)


def det_request(M, d=None):
    """im_det line with the estimate derived from the exact determinant"""
    if d is None:
        d = bareiss(M)
    if d == 0:
        return None, 0
    e = log2int(d)
    return f"im_det {enc(M)} {f64bits(e)} {rust_round(e)}", d


def crt_cases(rng, N):
    pool62, pool61 = p62(70), p61(70)
    for i in range(N):
        k = rng.choice([1, 1, 2, 2, 3, 4, 5, 8, 12, 16, 20]) if i % 9 else rng.choice([0, 1, 30, 48, 64])
        src = rng.randrange(4)
        if src == 0:
            primes = rng.sample(pool62, k)
        elif src == 1:
            primes = rng.sample(pool61, k)
        elif src == 2:
            cand = PRIMES_SMALL + pool62[:8] + [gen.rand_prime(rng, rng.randrange(3, 64)) for _ in range(8)]
            primes = []
            for p in rng.sample(cand, min(k, len(cand))):
                if p not in primes:
                    primes.append(p)
            k = len(primes)
        else:
            primes = sorted(rng.sample(pool62, k), reverse=True)
        P = 1
        for p in primes:
            P *= p
        c = rng.randrange(8)
        if c == 0:
            d = 0
        elif c == 1:
            d = (P - 1) // 2
        elif c == 2:
            d = -((P - 1) // 2)
        elif c == 3:
            d = P // 2
        elif c == 4:
            d = rng.choice([1, -1, 2, -2])
        elif c == 5:
            d = rng.randrange(-(P // 2) + (1 if P > 1 else 0), P // 2 + 1) if P > 1 else 0
        else:
            b = rng.randrange(1, max(2, P.bit_length() - 1))
            d = rng.getrandbits(b) * rng.choice([1, -1])
        if 2 * d > P or 2 * d <= -P:
            d = 0
        res = [d % p for p in primes]
        op = "im_crt" if rng.randrange(3) else "im_crt_sparse"
        yield Case(f"{op} {lst(res)} {lst(primes)}", tag=str(d))
    # residues that are not reduced / arbitrary u64
    for _ in range(N // 10):
        k = rng.randrange(1, 6)
        primes = rng.sample(pool62 + PRIMES_SMALL, k)
        res = [rng.getrandbits(64) for _ in primes]
        yield Case(f"im_crt {lst(res)} {lst(primes)}")
    # outside the domain: common factors, zero modulus, too few moduli (model predicts the panic)
    for _ in range(N // 20):
        c = rng.randrange(4)
        if c == 0:
            yield Case(f"im_crt 1,2 {lst([15, 21])}", o=False)
        elif c == 1:
            yield Case(f"im_crt 1,2,3 7,11", o=False)
        elif c == 2:
            yield Case(f"im_crt 1,0 7,0", o=False)
        else:
            yield Case(f"im_crt_sparse 1,2 {lst([15, 21])}", o=False)
    # more than 64 moduli: the I4096 sum overflows (checked profile panics, release wraps): model = checked profile
    for k in (64, 65, 66, 68):
        primes = pool62[:k]
        d = rng.getrandbits(62 * k - 3)
        yield Case(f"im_crt {lst([d % p for p in primes])} {lst(primes)}", o=(k <= 64), profiles=["chk"], tag=str(d))


def perm_cases(rng, N):
    for i in range(N):
        n = rng.choice([1, 2, 3, 4, 5, 6, 8, 10, 16, 25, 40, 60])
        c = rng.randrange(6)
        p = list(range(n))
        if c == 0:
            pass
        elif c == 1:
            p.reverse()
        elif c == 2:
            p = p[1:] + p[:1]
        elif c == 3:
            for _ in range(rng.randrange(1, 4)):
                if n >= 2:
                    a, b = rng.sample(range(n), 2)
                    p[a], p[b] = p[b], p[a]
        else:
            rng.shuffle(p)
        yield Case(f"im_perm_sign {lst(p)}")
    yield Case("im_perm_sign -", o=False)
    yield Case("im_perm_sign 0,5,1", o=False)


def echelon_cases(rng, N):
    pool = PRIMES_SMALL + p61(4) + p62(4) + [(1 << 61) - 1]
    for i in range(N):
        p = rng.choice(pool)
        n = rng.choice([1, 2, 3, 4, 5, 6, 8, 10, 11, 12, 14, 18, 20])
        # `add` reduces an entry by repeated subtraction of p: keep |entry| / p small
        style = rng.choice(["tiny", "small", "medium", "mixed", "huge"] if p > 1 << 60 else ["tiny", "small", "medium"] if p > 1000 else ["tiny", "small"])
        c = rng.randrange(6)
        m = n
        if c == 0:
            m = n + rng.randrange(1, 4)
        M = rand_matrix(rng, m, n, style)
        if c == 1 and m >= 2:
            M[rng.randrange(1, m)] = [x * 2 for x in M[0]]            # dependent row
        if c == 2:
            M[rng.randrange(m)] = [0] * n
        if c == 3 and n >= 2:
            j = rng.randrange(n)
            for r in M:
                r[j] = 0                                              # zero column: never full rank
        if c == 4:
            M = [[x * p + rng.choice([0, 0, 1]) for x in r] for r in rand_matrix(rng, m, n, "tiny")] if p < 1 << 20 else M
        op = "im_echelon" if rng.randrange(3) else "im_detp"
        yield Case(f"{op} {p} {enc(M)}")
    # moduli in [2^62, 2^63) with at least 10 rows: `add` must not take the 8-row block path there (the sum of 8 products
    # leaves the range mg_redc + one subtraction can reduce; fixed in a30f559), below 2^62 it must
    for p in P63_EDGE:
        for n in (10, 12, 17, 24):
            M = rand_matrix(rng, n + rng.choice([0, 0, 1]), n, rng.choice(["huge", "mixed", "medium"]))
            yield Case(f"{rng.choice(['im_echelon', 'im_detp'])} {p} {enc(M)}", tag="p63")
    # one `add` on a builder state given word by word: the panic sites of `add` that no sequence of `add` calls reaches
    # (the slice indices[i..i+8] of the block path, position(..).unwrap(), indices.swap beyond the end), and a regular state
    z12 = ";".join(",".join("1" if c == r else "0" for c in range(12)) for r in range(10))
    yield Case(f"im_ech_raw 101 0,1,2,3,4 {z12} 1,1,1,1,1,1,1,1,1,1 1,1,1,1,1,1,1,1,1,1,1,1", o=False)
    yield Case(f"im_ech_raw 101 0,1,2,3,4,5,6,7,8 {z12} 1,1,1,1,1,1,1,1,1,1 1,1,1,1,1,1,1,1,1,1,1,1", o=False)
    yield Case(f"im_ech_raw 101 0,1,2,3,4,5,6,7,8,9,10,11 {z12} 1,1,1,1,1,1,1,1,1,1 1,1,1,1,1,1,1,1,1,1,1,1", o=False)
    yield Case("im_ech_raw 101 0,0,0 0,0,0 1 0,1,0", o=False)
    yield Case("im_ech_raw 101 0,1,2 0,0,0;0,0,0;0,0,0 1,1,1 1,0,0", o=False)
    yield Case("im_ech_raw 101 0,1,2 1,0,0 5 3,4,1", o=False)
    yield Case("im_ech_raw 101 0,1 - - 3,4", o=False)
    yield Case("im_ech_raw 101 0,1,2 1,0,0 5 3,4", o=False)
    # composite modulus / shapes outside the domain: K only
    yield Case("im_echelon 15 3,1;1,2", o=False)
    yield Case("im_echelon 15 1,1;1,2", o=False)
    yield Case("im_echelon 101 1,2;3", o=False)
    yield Case("im_detp 101 -", o=False)


def det_cases(rng, tier, scale):
    """dense det_matz: K for dim <= 12, O for every case"""
    dims_k = [1, 2, 3, 4, 5, 6, 8, 10, 11, 12]
    dims_o = [14, 16, 20, 24, 30, 40, 50, 60]
    plan = []
    for _ in range(30 * scale):
        plan.append((rng.choice(dims_k), True))
    for _ in range(12 * scale):
        plan.append((rng.choice(dims_o), False))
    for n, k in plan:
        c = rng.randrange(8)
        if c <= 2:
            M = rand_matrix(rng, n, n, rng.choice(["small", "medium", "mixed", "big", "huge", "tiny"]))
        elif c == 3:
            M = udv(rng, n, rand_diag(rng, n, rng.choice(["one-big", "chain", "mixed"])), 6 * n)
        elif c == 4:
            M = udv(rng, n, rand_diag(rng, n, "one-big"), 40 * n, maxabs=1 << 62)
        elif c == 5:
            # few big entries among small ones
            M = rand_matrix(rng, n, n, "small")
            for _ in range(rng.randrange(1, n + 1)):
                M[rng.randrange(n)][rng.randrange(n)] = rand_entry(rng, rng.choice(["big", "huge", "edge"]))
        elif c == 6:
            M = rand_matrix(rng, n, n, "huge")
        else:
            M = rand_matrix(rng, n, n, "edge") if n <= 8 else rand_matrix(rng, n, n, "mixed")
        line, d = det_request(M)
        if d == 0:
            continue
        yield Case(line, k=k, tag=str(d))
        if rng.randrange(4) == 0:
            yield Case(f"im_det_gram {enc(M)}", k=False, tag=str(d))
    # singular matrices through the Gram front end
    for _ in range(6 * scale):
        n = rng.choice([2, 3, 5, 8, 12, 20])
        M = udv(rng, n, rand_diag(rng, n, "singular"), 5 * n, maxabs=10 ** 6)
        yield Case(f"im_det_gram {enc(M)}", k=False, tag="0")
    # |det| <= 1 and estimates beyond the supported size: refused by assertion
    yield Case(det_request([[1, 0], [0, 1]])[0], tag="1")
    yield Case(det_request([[2, 1], [1, 1]])[0], tag="1")
    yield Case(det_request([[3, 1], [1, 1]])[0], tag="2")


def crtdet_cases(rng, scale):
    for _ in range(25 * scale):
        n = rng.choice([1, 2, 3, 4, 5, 6, 8, 12, 16, 24])
        k = n <= 8
        rows = rand_matrix(rng, n - 1, n, rng.choice(["tiny", "small", "medium"]))
        cands, ds = [], []
        for _ in range(rng.randrange(1, 6)):
            c = rand_matrix(rng, 1, n, rng.choice(["small", "medium", "big", "huge", "huge"]))[0]
            d = bareiss(rows + [c])
            if abs(d) >= 2:
                cands.append(c)
                ds.append(d)
        if not cands:
            continue
        es = [log2int(d) for d in ds]
        yield Case(f"im_crtdet {enc(rows)} {enc(cands)} {lst([f64bits(e) for e in es])} {lst([rust_round(e) for e in es])}",
                   k=k, tag=lst(ds))
    # determinants around 2^60 and 2^120 (prime-count boundaries)
    for v in ((1 << 60) - 5, (1 << 60) + 12345, (1 << 59) + 3, 3 * (1 << 58) + 1, -(1 << 60) + 77, (1 << 61) - 1):
        rows, c = [[1, 0]], [0, v]
        e = log2int(v)
        yield Case(f"im_crtdet {enc(rows)} {enc([c])} {f64bits(e)} {rust_round(e)}", tag=str(bareiss(rows + [c])))


def bracket(rng, h):
    """(hmin, hmax) floats with hmin <= h <= hmax and a width the routine accepts"""
    c = rng.randrange(5)
    if c == 0:
        lo, hi = h * (1 - 1e-9), h * (1 + 1e-9)
    elif c == 1:
        lo, hi = h * 0.99, h * 1.01
    elif c == 2:
        lo, hi = h * (1 - rng.random() * 0.1), h * (1 + rng.random() * 0.1)
    elif c == 3:
        lo, hi = h * 0.9, h * 1.02
    else:
        lo, hi = float(h), float(h)
    lo, hi = float(lo), float(hi)
    if Fraction(lo) > h:
        lo = math.nextafter(lo, 0.0)
    if Fraction(hi) < h:
        hi = math.nextafter(hi, math.inf)
    return lo, hi


def relation_lattice(rng, n, extra, diag_style="one-big", ops=None, small=True, maxd=1 << 40):
    """rows generating a full-rank lattice of Z^n with known Smith form: a basis U·D·V followed by `extra`
    integer combinations, shuffled (more rows than columns, as relationcls.rs produces)"""
    diag = rand_diag(rng, n, diag_style, maxd)
    B = udv(rng, n, diag, ops if ops is not None else 5 * n, maxabs=max(diag) * (30 if small else 10 ** 6))
    rows = [r[:] for r in B]
    for _ in range(extra):
        v = [0] * n
        for _ in range(rng.randrange(1, 4)):
            k = rng.choice([1, -1, 1, -1, 2, -2, 3])
            r = rng.choice(B)
            v = [a + k * b for a, b in zip(v, r)]
        if any(v):
            rows.append(v)
    rng.shuffle(rows)
    return rows, diag


def lattice_cases(rng, scale):
    for _ in range(40 * scale):
        n = rng.choice([1, 1, 2, 3, 4, 5, 6, 8, 10, 12, 16, 20, 30, 40, 60])
        extra = rng.choice([0, 1, 2, 4, 8, n, 2 * n]) if n < 40 else rng.choice([0, 4, 10])
        style = rng.choice(["one-big", "chain", "mixed", "unit"])
        # moderate entries: the Gram-Schmidt estimate in f64 must keep 24 correct bits (ill-conditioned bases with
        # 40-bit entries are refused by the logdiff assertion; big entries go to im_det / im_crtdet with exact estimates)
        rows, diag = relation_lattice(rng, n, extra, style, small=True, maxd=1 << 16)
        h = 1
        for d in diag:
            h *= d
        if h >= 1 << 120:
            continue
        lo, hi = bracket(rng, h)
        yield Case(f"im_lattice_index {enc(rows)} {f64bits(lo)} {f64bits(hi)}", k=False, tag=str(h))
    # rank deficient / empty
    yield Case(f"im_lattice_index - {f64bits(0.99)} {f64bits(1.01)}", k=False, tag="1")
    yield Case(f"im_lattice_index 1,2;2,4;3,6 {f64bits(0.99)} {f64bits(1.01)}", k=False, tag="0")
    # single column: the model answers too (exact window arithmetic)
    for _ in range(60 * scale):
        m = rng.choice([1, 2, 3, 4, 5, 8, 12])
        g = rng.choice([1, 2, 3, 6, 10, 97, 1000, rng.getrandbits(20) + 1, rng.getrandbits(29) + 1])
        col = [g * rng.choice([0, 1, -1, 2, 3, -4, 5, 6, 7, 10, 12, 30]) for _ in range(m)]
        col = [x for x in col if abs(x) <= 1 << 30]
        h = 0
        for x in col:
            h = math.gcd(h, x)
        if h == 0:
            h = 1 if not col else 0
        den = rng.choice([1, 2, 4, 16, 1024])
        c = rng.randrange(5)
        target = h if (h and rng.randrange(5)) else max(1, h + rng.choice([1, 2, -1]) * max(1, h // 3))
        if c == 0:
            lo_n, hi_n = target * den, target * den
        elif c == 1:
            lo_n, hi_n = target * den - 1, target * den + 1
        elif c == 2:
            lo_n, hi_n = (target * den * 97) // 100, (target * den * 103) // 100 + 1
        elif c == 3:
            lo_n, hi_n = (target * den * 9) // 10, (target * den * 102) // 100 + 1
        else:
            lo_n, hi_n = (target * den * 3) // 4, (target * den * 5) // 4      # too wide: refused by assertion
        lo_n = max(lo_n, 1)
        if lo_n >= 1 << 53 or hi_n >= 1 << 53:
            continue
        safe = window_safe(col, lo_n, hi_n, den)
        inb = (h and lo_n <= h * den <= hi_n) or not window_ok(lo_n, hi_n, den)
        yield Case(f"im_lattice_index1 {lst(col)} {lo_n} {den} {hi_n} {den}", k=safe, o=bool(inb), tag=str(h))


def window_ok(lo_n, hi_n, den):
    """the assertions of compute_lattice_index on the widened window (exact arithmetic)"""
    lo, hi = Fraction(lo_n, den), Fraction(hi_n, den)
    prec = abs(hi - lo)
    L = max(Fraction(9, 10) * lo, lo - 3 * prec)
    H = min(Fraction(11, 10) * hi, hi + 3 * prec)
    return L <= H and L > 0 and 2 * H < 3 * L


def window_safe(col, lo_n, hi_n, den):
    """True when no comparison of the candidate selection is close to a tie, so that f64 and exact
    arithmetic must agree"""
    lo, hi = Fraction(lo_n, den), Fraction(hi_n, den)
    prec = abs(hi - lo)
    L = max(Fraction(9, 10) * lo, lo - 3 * prec)
    H = min(Fraction(11, 10) * hi, hi + 3 * prec)
    eps = Fraction(1, 10 ** 9)

    def far(a, b):
        return abs(a - b) > eps * max(abs(a), abs(b), 1)
    if not (far(L, H) or L == H) or not far(2 * H, 3 * L) or L <= 0:
        return False
    if not far(Fraction(9, 10) * lo, lo - 3 * prec) and prec != 0:
        return False
    if not col:
        return far(L, 1) and far(H, 1)
    gs = set()
    g = 0
    for x in sorted(col, key=lambda y: y * y):
        if x:
            g = math.gcd(g, x)
            gs.add(g)
    # all gcds that can occur: gcds of suffixes as well
    s = sorted(col, key=lambda y: y * y)
    for k in range(len(s)):
        g2 = 0
        for x in s[k:]:
            if x:
                g2 = math.gcd(g2, x)
                gs.add(g2)
                gs.add(math.gcd(g, g2))
    for g in gs:
        if not far(Fraction(g), 10000 * L):
            return False
        for b in (L, H):
            r = Fraction(g) / b
            if not far(r - math.floor(r), Fraction(1, 2)):
                return False
        m1 = math.floor(Fraction(g) / H + Fraction(1, 2))
        m2 = math.floor(Fraction(g) / L + Fraction(1, 2))
        if m2 - m1 > 100000:
            return False
        for m in range(max(m1, 1), m2 + 1):
            if g % m == 0:
                q = g // m
                if not far(Fraction(q), Fraction(9, 10) * L) or not far(Fraction(q), Fraction(11, 10) * H):
                    return False
    return True


GENS = [2, 3, 5, 7, 11, 13, 17, 19, 23, 29, 31, 37, 41, 43, 47, 53, 59, 61, 67, 71, 73, 79, 83, 89, 97, 101, 103, 107, 109,
        113, 127, 131, 137, 139, 149, 151, 157, 163, 167, 173, 179, 181, 191, 193, 197, 199, 211, 223, 227, 229, 233, 239,
        241, 251, 257, 263, 269, 271, 277, 281, 283, 293, 307, 311, 313, 317, 331, 337, 347, 349]


def band_factors(rng, band, nf):
    """nf primes (repetitions allowed: non-cyclic groups) below 2^31 whose product lies in [2^lo, 2^hi)"""
    lo, hi = band
    for _ in range(200):
        bits = (lo + hi) / 2 / nf
        fs = []
        for _ in range(nf - 1):
            b = min(30.9, max(2.0, bits + rng.uniform(-1.5, 1.5)))
            fs.append(gen.prev_prime(int(2 ** b)))
        if rng.randrange(3) == 0 and nf >= 3:
            fs[1] = fs[0]
        prod = 1
        for f in fs:
            prod *= f
        target_lo, target_hi = 2 ** lo / prod, 2 ** hi / prod
        if target_hi >= 1 << 31 or target_lo < 2:
            continue
        last = gen.prev_prime(int(rng.uniform(target_lo, target_hi)) + 1)
        if last < 2:
            continue
        h = prod * last
        if 2 ** lo <= h < 2 ** hi:
            return fs + [last]
    return None


def rels_of(rows, gens_desc):
    """sparse relations (generator, exponent), generators ascending inside a row, for dense rows whose
    columns are the generators in decreasing order"""
    out = []
    for r in rows:
        out.append(sorted((gens_desc[j], e) for j, e in enumerate(r) if e))
    return out


def snf_cases(rng, scale):
    # full pipeline new + reduce on relation lattices
    for _ in range(40 * scale):
        n = rng.choice([1, 2, 3, 4, 5, 6, 8, 10, 12, 12, 16, 24, 40, 60])
        extra = rng.choice([0, 1, 3, n, 2 * n])
        style = rng.choice(["one-big", "chain", "mixed", "unit", "one-big"])
        rows, diag = relation_lattice(rng, n, extra, style, ops=4 * n, small=True, maxd=1 << 24)
        h = 1
        for d in diag:
            h *= d
        if h >= 1 << 100 or any(abs(x) >= 1 << 31 for r in rows for x in r):
            continue
        # every generator must occur (new() derives the generator list from the relations)
        if any(all(r[j] == 0 for r in rows) for j in range(n)):
            continue
        gens_desc = sorted(rng.sample(GENS, n), reverse=True)
        rels = rels_of(rows, gens_desc)
        lo, hi = bracket(rng, h)
        # the model is asked through followup() with the index the implementation found
        yield Case(f"im_snf {enc_sparse(rels)} {f64bits(lo)} {f64bits(hi)}", k=False, tag=str(h))
        if rng.randrange(3) == 0:
            yield Case(f"im_snf_new {enc_sparse(rels)} {f64bits(lo)} {f64bits(hi)}", k=False, tag=str(h))
    # direct states: reduce on dense rows with the exact index given (both arithmetic paths: h < 2^63 and above)
    for _ in range(40 * scale):
        n = rng.choice([1, 2, 3, 4, 5, 6, 8, 10, 12])
        big = rng.randrange(4) == 0
        diag = rand_diag(rng, n, rng.choice(["one-big", "chain", "mixed"]))
        if big:
            diag[-1] *= gen.rand_prime(rng, rng.choice([64, 80, 100]))
        rows = udv(rng, n, diag, 4 * n, maxabs=(1 << 62))
        extra = rng.choice([0, 1, n])
        for _ in range(extra):
            a, b = rng.choice(rows[:n]), rng.choice(rows[:n])
            v = [x + y for x, y in zip(a, b)]
            if max(abs(x) for x in v) < 1 << 63:
                rows.append(v)
        h = 1
        for d in diag:
            h *= d
        if h >= 1 << 124:
            continue
        gens_desc = sorted(rng.sample(GENS, n), reverse=True)
        yield Case(f"snf_reduce {h} {lst(gens_desc)} {enc(rows)}", tag=str(h))
    # class numbers around the switch between the i128 and the I256 arithmetic (submul_n: h < 2^63/N, other operations:
    # h < 2^63), 12..16 generators of which most are redundant so that the 8-row blocked elimination runs with residues as
    # large as h: bands (2^62.5, 2^63), [2^63, 2^64), just below 2^62, and (2^59.5, 2^60) = 2^63/8
    for _ in range(4 * scale):
        for band in ((62.5, 63.0), (63.0, 64.0), (61.5, 62.0), (59.6, 60.0), (60.0, 60.4)):
            n = rng.choice([12, 13, 14, 16])
            nf = rng.choice([2, 3, 3, 4])
            fs = band_factors(rng, band, nf)
            if fs is None:
                continue
            h = 1
            for f in fs:
                h *= f
            diag = [1] * (n - len(fs)) + fs
            rng.shuffle(diag)
            B = udv(rng, n, diag, 6 * n, maxabs=max(fs) * 8)
            rows = [r[:] for r in B]
            for _ in range(rng.choice([0, 2, n])):
                a, b = rng.choice(B), rng.choice(B)
                k = rng.choice([1, -1, 2])
                rows.append([x + k * y for x, y in zip(a, b)])
            rng.shuffle(rows)
            gens_desc = sorted(rng.sample(GENS, n), reverse=True)
            yield Case(f"snf_reduce {h} {lst(gens_desc)} {enc(rows)}", tag=str(h))
            if all(abs(x) < 1 << 31 for r in rows for x in r) and not any(all(r[j] == 0 for r in rows) for j in range(n)):
                lo, hi = bracket(rng, h)
                yield Case(f"im_snf {enc_sparse(rels_of(rows, gens_desc))} {f64bits(lo)} {f64bits(hi)}", k=False, tag=str(h))
    # the orphan-generator HACK: first generator huge, relation g0^2 = 1, det = 2h
    for _ in range(6 * scale):
        n = rng.choice([2, 3, 4, 6])
        rows, diag = relation_lattice(rng, n - 1, rng.choice([0, 2]), "one-big", ops=3 * n)
        h = 1
        for d in diag:
            h *= d
        rows = [[0] + r for r in rows] + [[2] + [rng.choice([0, 1]) for _ in range(n - 1)]]
        rng.shuffle(rows)
        g1 = rng.choice([11, 13, 17])
        gens_desc = [rng.choice([g1 * 21, g1 * 101, g1 * 19])] + sorted(rng.sample([g for g in GENS if g < g1], min(n - 2, 4)) + [g1], reverse=True)
        if len(gens_desc) != n:
            continue
        yield Case(f"snf_reduce {h} {lst(gens_desc)} {enc(rows)}", o=False, tag=str(h))
    # elementary operations on random states (K; O = the group Z^n/(L + hZ^n) is unchanged)
    for _ in range(120 * scale):
        n = rng.choice([2, 3, 4, 5, 9, 10, 12])
        big = rng.randrange(3) == 0
        h = rng.choice([1, 2, 6, 12, 97, 360, 2 ** 20, 10 ** 9 + 7, (1 << 62) + 57, (1 << 63) - 25]) if not big else \
            rng.choice([(1 << 63) + 9, (1 << 64) + 13, (1 << 100) + 277, (1 << 124) + 1, rng.getrandbits(110) | 1 | (1 << 109)])
        gens_desc = sorted(rng.sample(GENS, n), reverse=True)
        style = rng.randrange(3)
        if style == 0:
            rows = [[rng.randrange(h) for _ in range(n)] for _ in range(n)]
        elif style == 1:
            rows = [[(rng.randrange(h) if j >= i else 0) for j in range(n)] for i in range(n)]
        else:
            rows = rand_matrix(rng, n, n, rng.choice(["tiny", "small", "medium"]))
        q = [[rng.randrange(h) for _ in range(n)] for _ in range(n)] if rng.randrange(2) else \
            [[1 if i == j else 0 for j in range(n)] for i in range(n)]
        st = f"{h} {lst(gens_desc)} {enc(rows)} {enc(q)}"
        c = rng.randrange(7)
        i, j = rng.sample(range(n), 2)
        if c == 0:
            yield Case(f"snf_colsub {st} {i} {j} {rng.choice([1, -1, 2, 7, rng.randrange(h), -rng.randrange(h + 1)])}")
        elif c == 1:
            yield Case(f"snf_normalize {st} {i} {rng.randrange(n)}")
        elif c == 2:
            # submul_n debug-asserts that its source row is in echelon form: on other states only the checked
            # profile has a defined answer
            yield Case(f"snf_eliminate {st} {i} {j} {rng.randrange(n)}", profiles=(None if style == 1 and i < j else ["chk"]))
        elif c == 3:
            # submul_n needs the source rows in echelon form (debug assertion)
            tri = [[(rng.randrange(h) if jj > ii else (1 if jj == ii else 0)) for jj in range(n)] for ii in range(n)]
            src = rng.randrange(n - 1)
            tgt = rng.choice([t for t in range(n) if t != src])
            yield Case(f"snf_submul {h} {lst(gens_desc)} {enc(tri)} - {tgt} {src} {rng.choice([1, 3, rng.randrange(h), -rng.randrange(h + 1)])}")
        elif c == 4:
            a, b = min(i, j), max(i, j)
            tri = [[(rng.randrange(h) if jj >= ii else 0) for jj in range(n)] for ii in range(n)]
            yield Case(f"snf_colswap {h} {lst(gens_desc)} {enc(tri)} {enc(q)} {a} {b}")
        elif c == 5:
            # eliminate_block with unit diagonal: reaches the blocked branch when n >= 10
            tri = [[(rng.randrange(h) if jj > ii else (1 if jj == ii else 0)) for jj in range(n)] for ii in range(n)]
            if n >= 3:
                tri[n - 1] = [rng.randrange(h) for _ in range(n)]
                yield Case(f"snf_eliminate_block {h} {lst(gens_desc)} {enc(tri)} - {n - 1} 0 {n - 1} {rng.choice(['true', 'false'])}")
        else:
            tri = [[(rng.randrange(h) if jj >= ii else 0) for jj in range(n)] for ii in range(n)]
            for ii in range(n):
                if tri[ii][ii] == 0:
                    tri[ii][ii] = 1
            yield Case(f"snf_reduce_cols {h} {lst(gens_desc[:min(n, 5)])} {enc([r[:min(n, 5)] for r in tri[:min(n, 5)]])}", o=False)
    # reciprocal division
    for _ in range(200 * scale):
        big = rng.randrange(2)
        h = rng.choice([1, 2, 3, 97, 12345, (1 << 31) - 1, (1 << 62) + 57, (1 << 63) - 1, rng.getrandbits(62) + 1]) if not big else \
            rng.choice([(1 << 63), (1 << 64) + 13, (1 << 100) + 277, (1 << 125) - 1, rng.getrandbits(124) + 1])
        c = rng.randrange(3)
        if c == 0:
            yield Case(f"snf_divider {h}")
        elif c == 1:
            x = rng.choice([0, 1, -1, h, -h, h - 1, 1 - h, h * h if h < 1 << 63 else h, -(h * h) if h < 1 << 63 else -h,
                            rng.getrandbits(126), -rng.getrandbits(126), rng.randrange(h) * rng.randrange(h) % (1 << 126)])
            if -(1 << 127) <= x < (1 << 127):
                yield Case(f"snf_modh128 {h} {x}")
        else:
            # the callers reduce products of two residues: |x| / h stays below 2^127 (the quotient is a u128)
            lim = min(h << 126, 1 << 254)
            x = rng.choice([0, 1, -1, h, -h, 3 * h, -7 * h, h * h, -(h * h), rng.randrange(lim), -rng.randrange(lim),
                            rng.getrandbits(130) % lim, -(rng.getrandbits(128) % lim), rng.randrange(h) * rng.randrange(h),
                            -(rng.randrange(h) * rng.randrange(h)), 8 * h * h - rng.randrange(h), -8 * h * h + rng.randrange(h)])
            yield Case(f"snf_modh256 {h} {x}")
    yield Case("snf_divider 0", o=False)
    yield Case(f"snf_divider {1 << 125}", o=False)


def sparse_matrix(rng, n, style):
    """sparse square matrix as rows of (col, coef), columns distinct and ascending in a row"""
    rows = []
    for i in range(n):
        k = min(n, rng.choice([1, 2, 2, 3, 3, 4, 6]))
        cols = sorted(rng.sample(range(n), k))
        if style == "diagdom" and i not in cols:
            cols = sorted(set(cols[:-1] + [i]))
        row = []
        for j in cols:
            c = rng.randrange(10)
            e = 1 if c < 4 else -1 if c < 7 else rng.choice([2, -2, 3, -3, 5, 7, -11, 30, -200, 1000, 32767, -32768])
            if style == "pm1":
                e = 1 if c < 6 else -1
            row.append((j, e))
        rows.append(row)
    return rows


def sparse_cases(rng, tier, scale):
    dims = [1, 2, 3, 4, 5, 7, 8, 9, 12, 16, 20, 30, 40, 60]
    if tier != "quick":
        dims += [80, 100, 150, 200, 300]
    for _ in range(36 * scale):
        n = rng.choice(dims)
        rows = sparse_matrix(rng, n, rng.choice(["rand", "rand", "pm1", "diagdom"]))
        M = to_dense(rows, n)
        d = bareiss(M) if n <= 100 else None
        if d is None:
            # dimension above 100: determinant through 3 independent 61-bit primes would not be exact; use the
            # block construction instead (known by construction)
            continue
        s = enc_sparse(rows)
        yield Case(f"im_det_sparse {s}", k=False, tag=str(d))
        if rng.randrange(4) == 0:
            yield Case(f"im_det_sparse_par {s} 4", k=False, tag=str(d))
        norm = sparse_norm(rows)
        if rng.randrange(3) == 0 and norm:
            # documented precondition of mulp: p * norm < 2^63
            pool = [q for q in p61(12) + [1000000000000037, 100000000000031, 65537, 1000003, 4611686018427387847 // 2048]
                    if q * norm < 1 << 63 and gen.is_prime(q)]
            pool += [gen.prev_prime((1 << 63) // norm - k) for k in (0, 1000, 5000, 70000)]
            ps = rng.sample(pool, 4)
            yield Case(f"im_detp4 {s} {lst(ps)}", k=False, tag=str(d))
        if rng.randrange(4) == 0:
            yield Case(f"im_sparse_norm {s}", k=False)
            yield Case(f"im_sparse_primes {s}", k=False)
        if rng.randrange(4) == 0 and norm:
            ps = [gen.prev_prime((1 << 63) // norm - k) for k in (0, 1000, 5000, 70000)]
            v = [rng.randrange(p) for _ in range(n) for p in ps]
            yield Case(f"im_mulp4 {s} {lst(ps)} {lst(v)}", k=False)
    # dense U·D·V given in sparse encoding: dense vs sparse agreement on the same matrix
    for _ in range(14 * scale):
        n = rng.choice([2, 3, 4, 6, 8, 9, 10, 12, 16, 24, 40])
        M = udv(rng, n, rand_diag(rng, n, rng.choice(["one-big", "mixed", "chain", "singular"]), maxd=1 << 13), 5 * n, maxabs=2000)
        if any(abs(x) >= 1 << 15 for r in M for x in r):
            continue
        d = bareiss(M)
        s = enc_sparse(to_sparse(M))
        yield Case(f"im_det_sparse {s}", k=False, tag=str(d))
        if d != 0 and abs(d) >= 2:
            yield Case(det_request(M, d)[0], k=(n <= 12), tag=str(d))
    # large sparse matrices with the determinant known by construction: P·(L + D)·Q
    if tier != "quick":
        for n in (120, 200, 300):
            for _ in range(2 * scale // 10 + 1):
                diag = [rng.choice([1, 1, -1, 2, 3, -5, 7]) for _ in range(n)]
                rows = []
                for i in range(n):
                    cols = sorted(set(rng.sample(range(i + 1), min(i + 1, rng.choice([1, 2, 3]))) + [i]))
                    rows.append([(j, diag[i] if j == i else rng.choice([1, -1, 1, -1, 2])) for j in cols])
                pr, pc = list(range(n)), list(range(n))
                rng.shuffle(pr)
                rng.shuffle(pc)
                rows2 = [sorted((pc[j], e) for j, e in rows[pr[i]]) for i in range(n)]
                d = perm_parity(pr) * perm_parity(pc)
                for x in diag:
                    d *= x
                yield Case(f"im_det_sparse {enc_sparse(rows2)}", k=False, tag=str(d), timeout=300)
    # coefficients outside i16 / column index outside the matrix: refused by assertion (were silently truncated)
    yield Case("im_det_sparse 0:1,1:2;0:3,1:1000003", k=False, tag="refused")
    yield Case("im_det_sparse 0:1,1:2;0:3,1:-32769", k=False, tag="refused")
    yield Case("im_det_sparse 0:1,1:2;0:3,2:1", k=False, tag="refused")
    yield Case("im_det_sparse 0:1,1:2;0:3,1:-32768", k=False, tag=str(-32768 - 6))
    # kernel modulo p: matrices of rank n-1 (last row = combination of the others)
    for _ in range(10 * scale):
        n = rng.choice([2, 3, 5, 8, 12, 20, 30])
        p = rng.choice([1000003, 11499163612801, p61(3)[2], (1 << 89) - 1, (1 << 127) - 1, gen.rand_prime(rng, 180), gen.rand_prime(rng, 250)])
        rows = sparse_matrix(rng, n, "rand")
        M = to_dense(rows, n)
        v = [0] * n
        for i in range(n - 1):
            k = rng.choice([0, 1, -1, 1, 2])
            v = [a + k * b for a, b in zip(v, M[i])]
        if max(abs(x) for x in v) > 30000:
            continue
        M[n - 1] = v
        norm = sparse_norm(to_sparse(M))
        # documented type selection: the accumulator of the widest instantiation is an I256, p * norm must fit
        if p.bit_length() + norm.bit_length() > 253:
            p = gen.rand_prime(rng, 253 - norm.bit_length())
        yield Case(f"im_ker_p256 {enc_sparse(to_sparse(M))} {p}", k=False)
    # Berlekamp-Massey on linear recurrent sequences
    for _ in range(30 * scale):
        p = rng.choice([65537, 1000003, 1000000000000037] + p61(4))
        L = rng.choice([1, 2, 3, 5, 7, 12, 20])
        taps = [rng.randrange(p) for _ in range(L)]
        taps[-1] = rng.randrange(1, p)
        seq = [rng.randrange(p) for _ in range(L)]
        n = 2 * L + rng.choice([0, 0, 2, 4])
        while len(seq) < n:
            seq.append(sum(t * seq[-1 - j] for j, t in enumerate(taps)) % p)
        yield Case(f"im_bm {p} {lst(seq)}", k=False)
        if rng.randrange(3) == 0:
            yield Case(f"im_bm_big {p} {lst(seq)}", k=False)
        if L >= 2 and rng.randrange(3) == 0:
            # a sequence whose last terms vanish: recurrence s_k = -a s_{k-2} from (1, 0), even length
            a = rng.randrange(1, p)
            sq = [1, 0]
            while len(sq) < 2 * L + 2:
                sq.append((-a * sq[-2]) % p)
            yield Case(f"im_bm {p} {lst(sq)}", k=False)
            yield Case(f"im_bm_big {p} {lst(sq)}", k=False)
    # sparse lattice index: square or slightly overdetermined relation matrices
    for _ in range(8 * scale):
        n = rng.choice([8, 9, 12, 16, 24])
        rows, diag = relation_lattice(rng, n, rng.choice([0, 2, n]), rng.choice(["one-big", "mixed"]), ops=4 * n, maxd=1000)
        if any(abs(x) >= 1 << 15 for r in rows for x in r):
            continue
        h = 1
        for d in diag:
            h *= d
        lo, hi = bracket(rng, h)
        yield Case(f"im_sparse_lattice_index {n} {enc_sparse(to_sparse(rows))} {f64bits(lo)} {f64bits(hi)} {rng.choice([0, 0, 4])}",
                   k=False, tag=str(h), timeout=120)


def sparse_norm(rows):
    return max([max(sum(e for _, e in r if e > 0), -sum(e for _, e in r if e < 0)) for r in rows] + [0])


def perm_parity(p):
    seen, sign = [False] * len(p), 1
    for i in range(len(p)):
        if not seen[i]:
            j, l = i, 0
            while not seen[j]:
                seen[j] = True
                j = p[j]
                l += 1
            if l % 2 == 0:
                sign = -sign
    return sign


# ======================================================================================
# boundary size classes (size audit)
# ======================================================================================


def _fork(rng, label):
    """own stream for the boundary family: depends on the run's seed, leaves the stream of the older families untouched"""
    return random.Random(f"{label}:{rng.getstate()[1][:4]}")


def big_lattice(rng, n, bits, extra):
    """rows generating a full-rank lattice of Z^n whose index has EXACTLY `bits` bits: n moderate elementary divisors, so
    that the entries stay small and the f64 estimates of the routines keep their precision"""
    per = bits // n
    while True:
        diag = [rng.randrange(1 << max(0, per - 1), 1 << (per + 1)) | 1 for _ in range(n - 1)]
        h0 = math.prod(diag)
        lo, hi = -(-(1 << (bits - 1)) // h0), ((1 << bits) - 1) // h0
        if 1 <= lo <= hi < 1 << (per + 3):
            diag.append(rng.randrange(lo, hi + 1))
            break
    B = udv(rng, n, diag, 5 * n, maxabs=max(diag) * 30)
    rows = [r[:] for r in B]
    for _ in range(extra):
        v = [0] * n
        for _ in range(rng.randrange(1, 4)):
            k = rng.choice([1, -1, 1, -1, 2, -2, 3])
            v = [a + k * b for a, b in zip(v, rng.choice(B))]
        if any(v):
            rows.append(v)
    rng.shuffle(rows)
    return rows, math.prod(diag)


def ker_matrix(rng, n, norm, p):
    """sparse n x n matrix of rank n-1 modulo p (last row = combination of the rows 1..n-2; 0 a simple root of the characteristic
    polynomial, so that a kernel vector is due) with entries +-1 except one entry of row 0 chosen so that SparseMat::norm is
    exactly `norm` (0 = leave it small)"""
    for _ in range(300):
        M = to_dense(sparse_matrix(rng, n, "rand" if rng.randrange(2) else "diagdom"), n)
        M = [[max(-1, min(1, x)) for x in r] for r in M]
        v = [0] * n
        for i in range(1, n - 1):
            k = rng.choice([1, -1, 1, 2, 0])
            v = [a + k * b for a, b in zip(v, M[i])]
        M[n - 1] = v
        if norm:
            j = next((j for j in range(n) if M[0][j]), None)
            if j is None:
                continue
            M[0][j] = norm - sum(x for jj, x in enumerate(M[0]) if x > 0 and jj != j)
        sp = to_sparse(M)
        if not all(sp) or (sparse_norm(sp) != norm if norm else sparse_norm(sp) >= 200):
            continue
        c1 = sum(det_mod([[M[i][j] for j in range(n) if j != k] for i in range(n) if i != k], p) for k in range(n)) % p
        if c1 and not krylov_deficient(sp, p):
            return sp
    return None


# ker_p256 picks its arithmetic by p.bits() < 56 / < 120 / < 182 (and norm < 256 / < 256 / < 1024), fills its start vector
# differently up to 64 bits, and the widest instantiation (U256 / I256) needs p * norm below 2^253
KER_P_BITS = [55, 56, 63, 64, 65, 119, 120, 127, 128, 129, 181, 182, 249, 250]
KER_NORMS = [0, 255, 256, 1023, 1024]
LATTICE_H_BITS = [64, 65, 100, 119, 120, 124, 125]


def ldu(rng, n, diag, ops, maxabs=(1 << 63) - 1):
    """L·D·U with unit triangular L, U of small entries (then a few elementary operations): det = prod(diag) exactly"""
    L = [[(1 if i == j else rng.choice([-2, -1, 0, 1, 1, 2]) if j < i else 0) for j in range(n)] for i in range(n)]
    U = [[(1 if i == j else rng.choice([-2, -1, 0, 1, 1, 2]) if j > i else 0) for j in range(n)] for i in range(n)]
    M = [[sum(L[i][k] * diag[k] * U[k][j] for k in range(n)) for j in range(n)] for i in range(n)]
    if max(abs(x) for r in M for x in r) > maxabs:
        M = [[diag[i] if i == j else 0 for j in range(n)] for i in range(n)]
    return unimodular_ops(rng, M, ops, maxabs)


def crtprime_cases(rng, tier):
    """determinants divisible by the deterministic CRT primes that det_matz (62 bits) and CRTDetBuilder::det (61 bits) walk:
    the matrix is singular modulo one of the moduli, the residue 0 must be recorded for that modulus (`modp.push(0)`),
    otherwise residues and moduli fall out of step. Both signs, one prime, two primes, a square, small cofactors."""
    P62, P61 = p62(24), p61(24)
    for n in (3, 4, 5, 6):
        for i in range(4 if tier == "quick" else 8):
            for kind in ("p", "-p", "2p", "pq", "-pq", "pp", "3pq", "late"):
                for which, P in (("matz", P62), ("crtdet", P61)):
                    p_, q_ = P[i], P[(i + 1 + n) % 6]
                    small = rng.choice([1, 1, 2, 3, 5, 7, 12])
                    diag = [1] * n
                    if kind in ("p", "-p", "2p"):
                        diag[rng.randrange(n)] = {"p": p_, "-p": -p_, "2p": 2 * p_}[kind]
                    elif kind == "late":
                        # the second modulus of a two-modulus run divides the determinant: small cofactor
                        diag[rng.randrange(n)] = P[1]
                    else:
                        a, b = rng.sample(range(n), 2)
                        diag[a] = -p_ if kind == "-pq" else p_
                        diag[b] = p_ if kind == "pp" else q_
                        if kind == "3pq":
                            diag[[c for c in range(n) if c not in (a, b)][0]] = 3
                    if kind in ("p", "-p", "pq", "-pq", "pp") and small > 1:
                        c = [c for c in range(n) if abs(diag[c]) == 1]
                        if c:
                            diag[c[0]] = small
                    M = ldu(rng, n, diag, rng.randrange(0, 2 * n))
                    d = bareiss(M)
                    assert abs(d) == abs(math.prod(diag)), (d, diag)
                    if which == "matz":
                        yield Case(det_request(M, d)[0], k=True, tag=str(d))
                    else:
                        e = log2int(d)
                        yield Case(f"im_crtdet {enc(M[:-1])} {enc([M[-1]])} {f64bits(e)} {rust_round(e)}", k=True, tag=str(d))
    # at least 18 moduli (|det| about 2^1100): with the residues out of step the closing f64 comparison cannot tell any more
    for n, cnt in ((20, 18), (24, 20)):
        diag = [1] * n
        for j in range(cnt):
            diag[j] = P62[j] if j % 2 == 0 else -P62[j]
        M = ldu(rng, n, diag, 0)
        d = bareiss(M)
        yield Case(det_request(M, d)[0], k=False, tag=str(d), timeout=60)


def boundary_cases(rng, tier):
    reps = 1 if tier == "quick" else 4
    for rep in range(reps):
        for bits in KER_P_BITS:
            for norm in KER_NORMS:
                if bits + norm.bit_length() > 253:
                    continue
                p = gen.rand_prime(rng, bits)
                sp = ker_matrix(rng, rng.choice([5, 8, 12]), norm, p)
                if sp:
                    yield Case(f"im_ker_p256 {enc_sparse(sp)} {p}", k=False, tag=f"edge{bits}/{norm}")
        # Berlekamp-Massey in the <u128, U256> instantiation: ker_p256 uses it below 120 bits
        for bits in (62, 63, 64, 65, 118, 119):
            p = gen.rand_prime(rng, bits)
            L = rng.choice([2, 5, 12])
            taps = [rng.randrange(p) for _ in range(L)]
            taps[-1] = rng.randrange(1, p)
            seq = [rng.randrange(p) for _ in range(L)]
            while len(seq) < 2 * L + 2:
                seq.append(sum(t * seq[-1 - j] for j, t in enumerate(taps)) % p)
            yield Case(f"im_bm_big {p} {lst(seq)}", k=False, tag=f"edge{bits}")
        # lattice index and Smith form with an index straddling 2^64 and up to the documented end (hmax < 2^126; divider < 2^125)
        for bits in LATTICE_H_BITS:
            for n in (8, 12):
                rows, h = big_lattice(rng, n, bits, rng.choice([0, 2, n]))
                lo, hi = bracket(rng, h)
                yield Case(f"im_lattice_index {enc(rows)} {f64bits(lo)} {f64bits(hi)}", k=False, tag=str(h))
                if any(all(r[j] == 0 for r in rows) for j in range(n)) or any(abs(x) >= 1 << 31 for r in rows for x in r):
                    continue
                rels = rels_of(rows, sorted(rng.sample(GENS, n), reverse=True))
                lo, hi = bracket(rng, h)
                yield Case(f"im_snf {enc_sparse(rels)} {f64bits(lo)} {f64bits(hi)}", k=False, tag=str(h))


def _all_cases(tier, rng, extended):
    scale = 4 if tier == "quick" else 120
    if extended:
        scale *= 3
    yield from crt_cases(rng, 300 * scale)
    yield from perm_cases(rng, 200 * scale)
    yield from echelon_cases(rng, 120 * scale)
    yield from det_cases(rng, tier, scale)
    yield from crtdet_cases(rng, scale)
    yield from lattice_cases(rng, scale)
    yield from snf_cases(rng, scale)
    yield from sparse_cases(rng, tier, scale)


def cases(tier, rng, extended=False):
    brng = _fork(rng, "C19-boundary")           # before selftest draws from rng (it does so on the first call only)
    selftest(rng)
    bmrng = _fork(rng, "C19-bm")
    wrng = _fork(rng, "C19-wied")
    cprng = _fork(rng, "C19-crtprime")
    for c in itertools.chain(crtprime_cases(cprng, tier), boundary_cases(brng, tier), bm.cases(tier, bmrng, extended), wied.cases(tier, wrng, extended),
                             _all_cases(tier, rng, extended)):
        # the Wiedemann pipeline is modelled (Ymq/Model/Wiedemann.lean): K on for its ops up to a dimension the list-based model handles fast
        if c.op in wied.K_OPS and not c.k and c.o and c.profiles is None and c.args and c.args[0].count(";") < WIED_K_MAX_DIM:
            c.k = True
        if c.op == "im_ker_trace":
            c.o = True          # judged by wied.oracle_ker; the model answers through the follow-up im_ker_model
        # the loops of reduce_cols / normalize / the permutation walk do not terminate when their arithmetic is wrong:
        # these requests take milliseconds, a short watchdog keeps a broken build from stalling the whole check
        if c.timeout is None:
            if c.op.startswith("snf_") or c.op in ("im_snf", "im_snf_new", "im_perm_sign", "im_crt", "im_crt_sparse"):
                c.timeout = 8.0
            elif c.op in ("im_echelon", "im_detp", "im_lattice_index1"):
                c.timeout = 10.0
        yield c


def followup(case, ans):
    if case.op in bm.OPS:
        return None
    if case.op == "im_ker_trace":
        return wied.followup(case, ans)
    """model requests built from the implementation's answer: SmithNormalForm::new / new+reduce with the
    lattice index found by the (unmodelled, floating-point guided) compute_lattice_index as input"""
    if case.op in ("im_echelon", "im_detp") and case.o and ans not in BAD:
        # second model of the echelon builder (plain residues, sequential elimination): object of echelon_det
        return (f"{case.op}_plain {case.args[0]} {case.args[1]}", ans)
    if case.op not in ("im_snf", "im_snf_new") or ans in BAD:
        return None
    rels = case.args[0]
    ngens = len({e.split(":")[0] for r in rels.split(";") if r != "-" for e in r.split(",")})
    if ngens > 12:
        return None
    h = ans.split(" ")[1] if ans.startswith("refused-reduce") else ans.split(" ")[0]
    if case.op == "im_snf_new":
        return (f"snf_new_model {rels} {h}", ans)
    return (f"snf_pipeline_model {rels} {h}", ans)


def corpus_case(line):
    if line.startswith("!chk "):
        return Case(line[5:], o=False, profiles=["chk"])
    if line.startswith("!noo "):
        return Case(line[5:], o=False)
    if line.startswith("!nok "):
        return Case(line[5:], k=False)
    return Case(line)


# ======================================================================================
# oracle
# ======================================================================================

BAD = ("panic", "abort", "hang", "?")


def parse_removed(s):
    out = []
    if s == "-":
        return out
    for part in s.split("|"):
        p, body = part.split("=")
        rel = [] if body == "-" else [(int(e.split(":")[0]), int(e.split(":")[1])) for e in body.split(",")]
        out.append((int(p), rel))
    return out


def group_of_diag(rows, h):
    ds = []
    for i, r in enumerate(rows):
        d = r[i]
        ds.append(math.gcd(d if d else h, h))
        for j, x in enumerate(r):
            if j != i and x % h:
                return None
    return normal_form(ds)


def snf_final_check(ans_state, h, want_group, orig_rows=None, orig_gens=None):
    """ans_state = [gens, rows, q, removed]: diagonal, product of the diagonal = h, group as wanted; with the
    original relations: every removed generator's relation lies in the relation lattice, and the returned
    transformation q maps the relations (after substituting the removed generators) into the diagonal lattice"""
    gens, rows, q, removed = ans_state
    rows = dec(rows)
    if any(len(r) != len(rows) for r in rows):
        return "final matrix is not square"
    prod = 1
    for i, r in enumerate(rows):
        prod *= r[i]
        for j, x in enumerate(r):
            if i != j and x != 0:
                return f"final matrix not diagonal at [{i},{j}]"
    if prod != h:
        return f"product of the diagonal {prod} != index {h}"
    g = normal_form([r[i] for i, r in enumerate(rows)])
    if g != want_group:
        return f"group {g} != quotient of the lattice {want_group}"
    if orig_rows is None:
        return None
    fgens = unlst(gens)
    rem = parse_removed(removed)
    n = len(orig_gens)
    pos = {p: i for i, p in enumerate(orig_gens)}
    if sorted(fgens + [p for p, _ in rem]) != sorted(orig_gens):
        return "generators are not partitioned into remaining and removed ones"
    # 1. the relations of the removed generators are relations of the group
    vs = []
    for p_, rel in rem:
        v = [0] * n
        v[pos[p_]] = 1
        for l, e in rel:
            if l not in pos:
                return f"removed relation of {p_} mentions an unknown generator {l}"
            v[pos[l]] -= e
        vs.append([x % h for x in v])
    if vs and lattice_group(orig_rows + vs, n, h)[0] != lattice_group(orig_rows, n, h)[0]:
        return "a relation recorded for a removed generator is not in the relation lattice"
    # 2. substitute the removed generators (their relations only mention later generators)
    fpos = {p: i for i, p in enumerate(fgens)}
    k = len(fgens)
    expr = {}
    for p_, rel in reversed(rem):
        w = [0] * k
        for l, e in rel:
            src = expr[l] if l in expr else [1 if i == fpos[l] else 0 for i in range(k)]
            w = [(a + e * b) % h for a, b in zip(w, src)]
        expr[p_] = w
    Q = dec(q)
    if k and (len(Q) != k or any(len(r) != k for r in Q)):
        return "q has the wrong shape"
    ds = [math.gcd(rows[i][i], h) for i in range(k)]
    for v in orig_rows:
        w = [0] * k
        for gname, c in zip(orig_gens, v):
            if c == 0:
                continue
            src = expr[gname] if gname in expr else [1 if i == fpos[gname] else 0 for i in range(k)]
            w = [(a + c * b) % h for a, b in zip(w, src)]
        t = [sum(w[i] * Q[i][j] for i in range(k)) % h for j in range(k)]
        for j in range(k):
            if t[j] % ds[j]:
                return f"relation * q is not in the diagonal lattice (coordinate {j})"
    return None


def oracle(case, ans):
    if case.op in bm.OPS:
        return bm.oracle(case, ans)
    if case.op == "im_ker_trace":
        return wied.oracle_ker(case, ans)
    op, a = case.op, case.args
    if op in ("im_crt", "im_crt_sparse"):
        res, primes = unlst(a[0]), unlst(a[1])
        n = len(res)
        if ans in BAD:
            return f"no value returned ({ans})"
        if op == "im_crt_sparse" and n == 1:
            return None if int(ans) == res[0] else "single modulus: residue expected"
        P = 1
        for p in primes[:n]:
            P *= p
        r = int(ans)
        if not (-P < 2 * r <= P):
            return f"result outside (-P/2, P/2]"
        for m, p in zip(res, primes):
            if (r - m) % p:
                return f"result != residue modulo {p}"
        if case.tag and int(case.tag) != r:
            return f"result != constructed value {case.tag}"
        return None
    if op == "im_perm_sign":
        return None if ans == str(perm_parity(unlst(a[0]))) else f"sign {ans} != {perm_parity(unlst(a[0]))}"
    if op == "im_detp":
        p, M = int(a[0]), dec(a[1])
        if not M or any(len(r) != len(M) for r in M):
            return None if ans != "?" else "unknown"
        if ans in BAD:
            return f"no value returned ({ans})"
        return None if int(ans) == det_mod(M, p) else f"det mod p {ans} != {det_mod(M, p)}"
    if op == "im_echelon":
        p, M = int(a[0]), dec(a[1])
        if ans in BAD:
            return f"no value returned ({ans})"
        adds, idx, basis, fac, det = ans.split(" ")
        adds, idx, basis, fac = unlst(adds), unlst(idx), dec(basis), unlst(fac)
        n = len(M[0])
        acc = []
        for i, r in enumerate(M):
            indep = rank_mod(acc + [r], n, p) == len(acc) + 1
            if adds[i] != int(indep):
                return f"add(row {i}) returned {adds[i]}, independence is {indep}"
            if indep:
                acc.append(r)
        if sorted(idx) != list(range(n)):
            return "indices are not a permutation of the columns"
        if len(basis) != len(acc) or len(fac) != len(acc):
            return "basis length"
        for k, b in enumerate(basis):
            if b[idx[k]] != 1 or any(b[idx[j]] for j in range(k)):
                return f"basis row {k} is not normalised on the pivot columns"
        if acc and rank_mod(acc + basis, n, p) != len(acc):
            return "basis spans a different space"
        if len(acc) == n:
            want = det_mod(acc, p)
            return None if det == str(want) else f"det {det} != {want}"
        return None if det == "-" else "det printed for a non-square state"
    if op == "im_det":
        M = dec(a[0])
        d = int(case.tag) if case.tag else bareiss(M)
        bits = int(a[2])
        if bits < 1 or bits > 3840:
            return None if ans == "panic" else f"estimate outside the supported range must be refused, got {ans[:40]}"
        return None if ans == str(d) else f"det {ans[:60]} != {d}"
    if op == "im_det_gram":
        M = dec(a[0])
        d = int(case.tag) if case.tag else bareiss(M)
        if d == 0:
            return None if ans in ("dependent", "panic") else f"singular matrix: got {ans[:40]}"
        if ans == str(d):
            return None
        e = log2int(d)
        if ans == "panic" and (rust_round(e) < 1 or rust_round(e) > 3840):
            return None
        if ans == "dependent" and min_dist2(M) < Fraction(1, 90):
            return None
        if ans == "panic":
            # the caller-side estimate (f64 Gram-Schmidt) is not part of det_matz: when it is off by more than the
            # 1e-6 the closing cross-check tolerates, the refusal is the documented behaviour
            ok, est = gram_estimate(M)
            if ok and abs(est - e) > 0.5e-6:
                return None
        return f"det {ans[:60]} != {d}"
    if op == "im_crtdet":
        want = case.tag if case.tag else lst([bareiss(dec(a[0]) + [c]) for c in dec(a[1])])
        return None if ans == want else f"dets {ans[:80]} != {want[:80]}"
    if op == "im_lattice_index":
        M = dec(a[0])
        n = len(M[0]) if M else 0
        h = lattice_index(M, n) if M else 1
        if case.tag and int(case.tag) != h:
            return f"oracle self-check: constructed index {case.tag} != computed {h}"
        if h == 0:
            return None if ans == "panic" else f"rank deficient lattice: got {ans}"
        lo, hi = bits_f64(int(a[1])), bits_f64(int(a[2]))
        if not (Fraction(lo) <= h <= Fraction(hi)):
            return None
        return None if ans == str(h) else f"index {ans} != {h}"
    if op == "im_lattice_index1":
        col = unlst(a[0])
        if not col:
            lo, hi = Fraction(int(a[1]), int(a[2])), Fraction(int(a[3]), int(a[4]))
            prec = abs(hi - lo)
            inside = max(Fraction(9, 10) * lo, lo - 3 * prec) <= 1 <= min(Fraction(11, 10) * hi, hi + 3 * prec)
            return None if ans == ("1" if inside else "panic") else f"empty matrix: got {ans}, 1 inside the window: {inside}"
        if col and not window_ok(int(a[1]), int(a[3]), int(a[2])):
            return None if ans == "panic" else f"window wider than the routine accepts must be refused, got {ans}"
        h = 0
        for x in col:
            h = math.gcd(h, x)
        if not col:
            h = 1
        return None if ans == str(h) else f"index {ans} != {h}"
    if op == "im_sparse_lattice_index":
        n = int(a[0])
        M = to_dense(dec_sparse(a[1]), n)
        h = lattice_index(M, n)
        return None if ans == str(h) else f"index {ans} != {h}"
    if op == "snf_divider":
        h = int(a[0])
        if ans in BAD:
            return f"no value returned ({ans})"
        qm, qe = [int(x) for x in ans.split(" ")]
        # qm * 2^qe approximates 1/h: |qm * h - 2^-qe| <= h (rounded quotient), qm below 2^128
        return None if abs(qm * h - (1 << -qe)) <= 2 * h and qm < 1 << 128 else "divider is not a rounded reciprocal"
    if op in ("snf_modh128", "snf_modh256"):
        h, x = int(a[0]), int(a[1])
        if ans in BAD:
            return f"no value returned ({ans})"
        r = int(ans)
        if (r - x) % h:
            return "result not congruent to x modulo h"
        if 0 <= r < h or (op == "snf_modh256" and r == h and x < 0):
            return None
        return "result outside [0, h)"
    if op in ("snf_colsub", "snf_normalize", "snf_eliminate", "snf_submul", "snf_colswap", "snf_eliminate_block"):
        if ans in BAD:
            return None                      # operations have preconditions (invertible pivot, shapes): K decides
        h = int(a[0])
        before = dec(a[2])
        after = dec(ans.split(" ")[1])
        n = len(before[0])
        g0 = lattice_group(before, n, h)
        g1 = lattice_group(after, n, h)
        return None if g0 == g1 else f"quotient group changed: {g0} -> {g1}"
    if op == "snf_reduce":
        h = int(a[0])
        rows = dec(a[2])
        n = len(rows[0])
        idx, grp = lattice_group(rows, n)
        if idx != h:
            return None
        if ans in BAD:
            return f"no value returned ({ans})"
        return snf_final_check(ans.split(" "), h, grp, rows, unlst(a[1]))
    if op in ("im_snf", "im_snf_new"):
        rels = dec_sparse(a[0])
        gens = sorted({p for r in rels for p, _ in r})
        pos = {p: len(gens) - 1 - i for i, p in enumerate(gens)}
        rows = []
        for r in rels:
            if r:
                v = [0] * len(gens)
                for p, e in r:
                    v[pos[p]] = e
                rows.append(v)
        idx, grp = lattice_group(rows, len(gens))
        if case.tag and int(case.tag) != idx:
            return f"oracle self-check: constructed index {case.tag} != computed {idx}"
        if ans in BAD:
            return f"no value returned ({ans})"
        parts = ans.split(" ")
        if parts[0] == "refused-reduce":
            if int(parts[1]) != idx:
                return f"index {parts[1]} != {idx}"
            return "reduce() refused a lattice whose index is the given h"
        if int(parts[0]) != idx:
            return f"index {parts[0]} != {idx}"
        if op == "im_snf_new":
            if unlst(parts[1]) != gens[::-1]:
                return "generators"
            return None if dec(parts[2]) == rows else "dense rows differ from the relations"
        return snf_final_check(parts[1:], idx, grp, rows, gens[::-1])
    if op == "im_sparse_norm":
        rows = dec_sparse(a[0])
        want = max([max(sum(e for _, e in r if e > 0), -sum(e for _, e in r if e < 0)) for r in rows] + [0])
        return None if ans == str(want) else f"norm {ans} != {want}"
    if op == "im_sparse_primes":
        rows = dec_sparse(a[0])
        norm = max([max(sum(e for _, e in r if e > 0), -sum(e for _, e in r if e < 0)) for r in rows] + [0])
        if ans in BAD:
            return None if norm == 0 else f"no value returned ({ans})"
        ps = unlst(ans)
        if len(ps) != max(len(rows), 8):
            return "number of moduli"
        bound = (1 << 63) // norm
        p = 30 * (bound // 30) - 1
        want = []
        while len(want) < len(ps):
            if gen.is_prime(p):
                want.append(p)
            p -= 30
        return None if ps == want else "moduli are not the primes 30k-1 below 2^63/norm"
    if op == "im_mulp4":
        rows, ps, v = dec_sparse(a[0]), unlst(a[1]), unlst(a[2])
        n = len(rows)
        want = []
        for r in rows:
            for k in range(4):
                want.append(sum(e * v[4 * j + k] for j, e in r) % ps[k])
        return None if ans == lst(want) else "M*v mod p"
    if op == "im_detp4":
        rows, ps = dec_sparse(a[0]), unlst(a[1])
        M = to_dense(rows, len(rows))
        want = [det_mod(M, p) for p in ps]
        return None if ans == lst(want) else f"det mod p4 {ans[:60]} != {lst(want)[:60]}"
    if op in ("im_det_sparse", "im_det_sparse_par"):
        rows = dec_sparse(a[0])
        if any(j >= len(rows) or not -(1 << 15) <= e < (1 << 15) for r in rows for j, e in r):
            return None if ans == "panic" else f"matrix outside the representable domain must be refused, got {ans[:40]}"
        d = int(case.tag) if case.tag else bareiss(to_dense(rows, len(rows)))
        return None if ans == str(d) else f"det {ans[:60]} != {d}"
    if op == "im_ker_p256":
        rows, p = dec_sparse(a[0]), int(a[1])
        n = len(rows)
        M = to_dense(rows, n)
        if ans == "none":
            # allowed when x^2 divides the characteristic polynomial mod p (or the rank is below n-1)
            c1 = sum(det_mod([[M[i][j] for j in range(n) if j != k] for i in range(n) if i != k], p) for k in range(n)) % p
            if c1 == 0 or krylov_deficient(rows, p):
                return None           # declared failure value: double root, or Krylov sequence of complexity < n
            return "None although 0 is a simple root of the characteristic polynomial and the Krylov sequence is full"
        if ans in BAD:
            return f"no value returned ({ans})"
        v = unlst(ans)
        if len(v) != n or not any(x % p for x in v):
            return "kernel vector is zero or has the wrong length"
        for r in rows:
            if sum(e * v[j] for j, e in r) % p:
                return "M v != 0 mod p"
        return None
    if op in ("im_bm", "im_bm_big"):
        p, seq = int(a[0]), unlst(a[1])
        if ans in BAD:
            return f"no value returned ({ans})"
        u = unlst(ans)
        n = len(seq)
        if len(u) != n or u[0] != 1:
            return "polynomial is not normalised"
        for k in range(n // 2, n):
            if sum(u[j] * seq[k - j] for j in range(k + 1)) % p:
                return f"u * seq has a non-zero coefficient at x^{k}"
        return None
    return "unknown op"


def gram_estimate(M):
    """GramBuilder (threshold 0.01) in IEEE doubles, same operation order as the Rust code: returns
    (accepted?, log2 estimate of |det|)"""
    gram, norms = [], []
    for row in M:
        v = [float(x) for x in row]
        for g, ng in zip(gram, norms):
            if ng < 1e-9:
                continue
            dot = 0.0
            for a, b in zip(g, v):
                dot += a * b
            mu = dot / ng
            v = [x - mu * y for x, y in zip(v, g)]
        n = 0.0
        for x in v:
            n += x * x
        if n < 0.01:
            return False, None
        norms.append(n)
        gram.append(v)
    return True, sum(math.log2(x) for x in norms) / 2.0


def min_dist2(M):
    """minimum over k of the squared distance of row k to the span of the previous rows (exact)"""
    best = None
    G_prev = 1
    for k in range(1, len(M) + 1):
        R = M[:k]
        G = bareiss([[sum(x * y for x, y in zip(r1, r2)) for r2 in R] for r1 in R])
        if G_prev == 0:
            return Fraction(0)
        d2 = Fraction(G, G_prev)
        best = d2 if best is None else min(best, d2)
        G_prev = G
    return best


# ======================================================================================
# distribution
# ======================================================================================


def dimclass(n):
    for b in (1, 2, 4, 8, 12, 20, 40, 60, 100, 300):
        if n <= b:
            return f"d<={b}"
    return "d>300"


def pclass(k):
    return str(k) if k <= 2 else "3-5" if k <= 5 else "6-20" if k <= 20 else "21-64" if k <= 64 else ">64"


def klass(case, ans):
    if case.op in bm.OPS:
        return bm.klass(case, ans)
    op, a = case.op, case.args
    bad = "/" + ans if ans in BAD else ""
    try:
        if op in ("im_crt", "im_crt_sparse"):
            k = len(unlst(a[0]))
            return f"{op}/primes={k if k <= 5 else '6-20' if k <= 20 else '>20'}{bad}"
        if op == "im_perm_sign":
            return f"{op}/{dimclass(len(unlst(a[0])))}/{ans}"
        if op in ("im_echelon", "im_detp"):
            M = dec(a[1])
            n = len(M[0]) if M and M[0] else 0
            shape = "square" if len(M) == n else "rect"
            blk = "/blocked" if len(M) >= 10 else ""
            res = "zero" if ans == "0" or ans.endswith(" -") else "full"
            return f"{op}/{dimclass(n)}/{shape}{blk}/{res}{bad}"
        if op == "im_det":
            n = len(dec(a[0]))
            return f"{op}/{dimclass(n)}/primes={pclass(-(-int(a[2]) // 60))}{bad}"
        if op == "im_det_gram":
            return f"{op}/{dimclass(len(dec(a[0])))}/{'singular' if case.tag == '0' else 'regular'}{'/' + ans if ans in BAD or ans == 'dependent' else ''}"
        if op == "im_crtdet":
            ps = [max(-(-b // 60), 2 if b == 60 else 1) for b in unlst(a[3])]
            shape = "single" if len(ps) == 1 else "const" if len(set(ps)) == 1 else "growing" if max(ps[1:]) > ps[0] else "shrinking"
            return f"{op}/{dimclass(len(dec(a[1])[0]))}/{shape}/primes={pclass(max(ps))}{bad}"
        if op == "im_lattice_index":
            M = dec(a[0])
            n = len(M[0]) if M else 0
            return f"{op}/{dimclass(n)}/{'square' if len(M) == n else 'rect'}{bad}"
        if op == "im_lattice_index1":
            return f"{op}/rows={min(len(unlst(a[0])), 5)}/{'in' if case.o else 'out'}-window{bad}"
        if op in ("im_snf", "im_snf_new"):
            rels = dec_sparse(a[0])
            n = len({p for r in rels for p, _ in r})
            return f"{op}/{dimclass(n)}/{'square' if len(rels) == n else 'rect'}{bad}"
        if op.startswith("snf_"):
            if op in ("snf_divider", "snf_modh128", "snf_modh256"):
                return f"{op}/{'h<2^63' if int(a[0]) < 1 << 63 else 'h>=2^63'}{bad}"
            return f"{op}/{dimclass(len(unlst(a[1])))}/{'h<2^63' if int(a[0]) < 1 << 63 else 'h>=2^63'}{bad}"
        if op.startswith("im_det_sparse") or op in ("im_detp4", "im_sparse_norm", "im_sparse_primes", "im_mulp4", "im_ker_p256"):
            n = len(dec_sparse(a[0]))
            extra = ""
            if op.startswith("im_det_sparse"):
                extra = "/singular" if case.tag == "0" else "/regular"
            if op == "im_ker_p256":
                extra = "/" + ("none" if ans == "none" else "vector" if ans not in BAD else ans)
                bad = ""
            return f"{op}/{dimclass(n)}{extra}{bad}"
        if op in ("im_bm", "im_bm_big"):
            return f"{op}/len<={8 if len(unlst(a[1])) <= 8 else 50}{bad}"
        if op == "im_sparse_lattice_index":
            return f"{op}/{dimclass(int(a[0]))}{bad}"
    except Exception:
        pass
    return op + bad


def nontrivial(case, ans):
    if case.op in bm.OPS:
        return bm.nontrivial(case, ans)
    return len(case.line) > 24


def krylov_deficient(rows, p=(1 << 61) - 1):
    """True when the Krylov sequence e_0^T M^k v used by SparseMat::_detp4 cannot have linear complexity n:
    the left Krylov space of e_0 or the right Krylov space of the start vector is not the whole space
    (checked modulo a 61-bit prime)"""
    n = len(rows)
    v = [1] + [0] * (n - 1)
    left = []
    for _ in range(n):
        left.append(v)
        w = [0] * n
        for i, r in enumerate(rows):
            if v[i]:
                for j, e in r:
                    w[j] = (w[j] + v[i] * e) % p
        v = w
    if rank_mod(left, n, p) < n:
        return True
    x, y, v = 0, 1, []
    for _ in range(n):
        x, y = y, (x + y) % 65537
        v.append(y)
    right = []
    for _ in range(n):
        right.append(v)
        v = [sum(e * v[j] for j, e in r) % p for r in rows]
    return rank_mod(right, n, p) < n


def fibvec(n):
    x, y, v = 0, 1, []
    for _ in range(n):
        x, y = y, (x + y) % 65537
        v.append(y)
    return v


def krylov_tail_zero(rows, p=None):
    """the scalar sequence (M^k v)[0], k = 1..2n-1, of _detp4 / ker_pbig vanishes (Berlekamp-Massey then indexes out
    of range): empty first row, zero matrix, start vector in the kernel, ..."""
    v = fibvec(len(rows))
    for _ in range(2 * len(rows) - 1):
        v = [sum(e * v[j] for j, e in r) for r in rows]
        if p:
            v = [x % p for x in v]
        if v[0]:
            return False
    return True


def _ask(binary, line, timeout=120):
    import subprocess
    try:
        r = subprocess.run([binary], input=line + "\n", stdout=subprocess.PIPE, stderr=subprocess.DEVNULL, text=True, timeout=timeout)
        return r.stdout.strip().split("\n")[0] if r.stdout.strip() else "abort"
    except Exception:
        return "hang"


def ask_model(line):
    from vlib.pipeline import driver_bin
    return _ask(driver_bin(), line)


def ask_impl(line, profile="release"):
    from vlib.pipeline import harness_bin
    return _ask(harness_bin(profile), line)


def kernel_vector(F, n):
    """integer vector w (not necessarily primitive) orthogonal to the n-1 independent rows of F; None if rank < n-1"""
    A = [[Fraction(x) for x in r] for r in F]
    piv = []
    r = 0
    for c in range(n):
        p_ = next((i for i in range(r, len(A)) if A[i][c] != 0), None)
        if p_ is None:
            continue
        A[r], A[p_] = A[p_], A[r]
        inv = 1 / A[r][c]
        A[r] = [x * inv for x in A[r]]
        for i in range(len(A)):
            if i != r and A[i][c] != 0:
                f = A[i][c]
                A[i] = [x - f * y for x, y in zip(A[i], A[r])]
        piv.append(c)
        r += 1
        if r == len(A):
            break
    if r < n - 1:
        return None
    free = [c for c in range(n) if c not in piv][0]
    w = [Fraction(0)] * n
    w[free] = Fraction(1)
    for i, c in enumerate(piv):
        w[c] = -A[i][free]
    den = 1
    for x in w:
        den = den * x.denominator // math.gcd(den, x.denominator)
    return [int(x * den) for x in w]


def simulate_lattice_index(rows, hmin, hmax):
    """intdense::compute_lattice_index re-computed: IEEE doubles for the Gram-Schmidt filter (threshold
    LATTICE_MINDIST^2 = 0.01), the estimates and the window, exact integers for the determinants.
    Returns ('ok', h) | ('refuse',) = panic!("failed to determine lattice index") | ('assert', what)."""
    prec = abs(hmax - hmin)
    hmin = max(0.9 * hmin, hmin - 3.0 * prec)
    hmax = min(1.1 * hmax, hmax + 3.0 * prec)
    if not rows:
        return ("ok", 1) if hmin <= 1.0 <= hmax else ("assert", "window")
    if not (hmin <= hmax) or hmin == 0 or not (hmax / hmin < 1.5) or not (math.log2(hmax) < 126.0):
        return ("assert", "window")
    rows = sorted(rows, key=lambda r: sum(x * x for x in r))
    dim = len(rows[0])
    gcd = 0
    for idx_start in range(max(4, len(rows)) - 3):
        gram, norms, indices = [], [], []
        cof = None          # (w, scale) with det(F; r) = scale * (w . r)

        def gadd(gram, norms, row):
            v = [float(x) for x in row]
            for g, ng in zip(gram, norms):
                if ng < 1e-9:
                    continue
                dot = 0.0
                for a_, b_ in zip(g, v):
                    dot += a_ * b_
                mu = dot / ng
                v = [x - mu * y for x, y in zip(v, g)]
            nn = 0.0
            for x in v:
                nn += x * x
            return (nn, v) if nn >= 0.01 else None
        for idx in range(idx_start, len(rows)):
            if len(gram) == dim - 1:
                res = gadd(gram, norms, rows[idx])
                if res is None:
                    continue
                nn = res[0]
                logest = (sum(math.log2(x) for x in norms) + math.log2(nn)) / 2.0
                F = [rows[i] for i in indices]
                if cof is None:
                    if dim == 1:
                        cof = ([1], 1)
                    else:
                        w = kernel_vector(F, dim)
                        if w is None:
                            return ("assert", "rank")
                        d0 = bareiss(F + [rows[idx]])
                        dotw = sum(a_ * b_ for a_, b_ in zip(w, rows[idx]))
                        if dotw == 0:
                            return ("assert", "rank")
                        cof = (w, Fraction(d0, dotw))
                det = int(cof[1] * sum(a_ * b_ for a_, b_ in zip(cof[0], rows[idx])))
                if logest <= 30.0:
                    d = math.sqrt(math.prod(norms) * nn) if norms else math.sqrt(nn)
                    if not abs(d - rust_round(d)) < 0.0001:
                        return ("assert", "estimate")
                    det = abs(det)
                else:
                    if det == 0 or abs(log2int(det) - logest) >= 1e-6:
                        return ("assert", "estimate")
                gcd = math.gcd(gcd, det)
                gcd_f = float(gcd)
                if gcd_f / hmin > 1e4:
                    continue
                m1 = rust_round(gcd_f / hmax)
                m2 = rust_round(gcd_f / hmin)
                cands = []
                for m in range(m1, m2 + 1):
                    if m <= 0:
                        continue
                    q, r_ = divmod(gcd, m)
                    if r_ == 0 and 0.9 * hmin <= float(q) <= 1.1 * hmax:
                        cands.append(q)
                if len(cands) == 1:
                    return ("ok", cands[0])
            else:
                res = gadd(gram, norms, rows[idx])
                if res is not None:
                    norms.append(res[0])
                    gram.append(res[1])
                    indices.append(idx)
    return ("refuse",)


_KEYCACHE = {}


def sparse_trace_cause(dim, rows_s, hmin, hmax):
    """documented cause of the sparse lattice-index refusal: with the SAME 100 row selections, exact determinants
    determine the index, but detz reports 0 for selections whose true determinant is not 0"""
    tr = ask_impl(f"im_sparse_lattice_trace {dim} {enc_sparse(rows_s)} 100")
    if tr in BAD or "=" not in tr:
        return None
    prec = abs(hmax - hmin)
    lo = max(0.9 * hmin, hmin - 3.0 * prec)
    hi = min(1.1 * hmax, hmax + 3.0 * prec)
    false_zero, gcd, decided = 0, 0, False
    for part in tr.split("|"):
        sel, d = part.split("=")
        sel = unlst(sel)
        M = to_dense([rows_s[i] for i in sel], dim)
        true = bareiss(M)
        if int(d) == 0 and true != 0:
            false_zero += 1
        elif int(d) != true:
            return None                   # a wrong non-zero determinant is not this finding
        if true == 0 or decided:
            continue
        gcd = math.gcd(gcd, abs(true))
        gf = float(gcd)
        if gf / lo > 1e4:
            continue
        cands = []
        for m in range(rust_round(gf / hi), rust_round(gf / lo) + 1):
            if m > 0 and gcd % m == 0 and 0.9 * lo <= float(gcd // m) <= 1.1 * hi:
                cands.append(gcd // m)
        if len(cands) == 1:
            decided = True
    if decided:
        return "false-zero" if false_zero > 0 else None
    # even with exact determinants of the same 100 selections the index is not determined: the random selections
    # are (almost) all singular, or the gcd of their determinants stays a proper multiple of the index
    return "selection"


def finding_key(case, ans, profile):
    """stable keys of the documented limitations (known_findings.json). A key is returned only when the documented
    CAUSE of the finding is re-computed for this input (and, where a Lean model exists, the model shows the same
    behaviour); any other failure of the same routine is a new failure."""
    if case.op in bm.OPS:
        return bm.finding_key(case, ans, profile)
    ck = (case.line, ans)
    if ck not in _KEYCACHE:
        try:
            _KEYCACHE[ck] = _finding_key(case, ans)
        except Exception:
            _KEYCACHE[ck] = None
    return _KEYCACHE[ck]


def _dense_of_rels(rels):
    gens = sorted({p for r in rels for p, _ in r})
    pos = {p: len(gens) - 1 - i for i, p in enumerate(gens)}
    rows = []
    for r in rels:
        if r:
            v = [0] * len(gens)
            for p, e in r:
                v[pos[p]] = e
            rows.append(v)
    return rows


WIED_K_MAX_DIM = 60


def _pivots_too_large(det, h):
    """the documented cause of snf-reduce-refusal: after the row phase the product of the pivots is a proper multiple of h; the
    code accumulates it with i128::saturating_mul (fix cae6a5d), so for large h the product shows as i128::MAX (> h: h < 2^125)"""
    return det == (1 << 127) - 1 or (det != h and det % h == 0)


def _finding_key(case, ans):
    op, a = case.op, case.args
    # ---- Wiedemann: false zero = the Krylov data (M, e_0, fixed start vector) has linear complexity < n
    if op in ("im_det_sparse", "im_det_sparse_par") and ans == "0":
        rows = dec_sparse(a[0])
        if bareiss(to_dense(rows, len(rows))) != 0 and krylov_deficient(rows):
            return "sparse-det-false-zero"
    # ---- detz stops the CRT at the first repeated value (no determinant bound): the answer is the symmetric residue of the true
    #      determinant modulo the product of the first 4k deterministic moduli
    if op in ("im_det_sparse", "im_det_sparse_par") and ans not in BAD:
        rows = dec_sparse(a[0])
        return wied.finding_key(case, ans, "release", bareiss(to_dense(rows, len(rows))), sparse_norm(rows), len(rows))
    if op == "im_detp4" and ans not in BAD:
        rows, ps = dec_sparse(a[0]), unlst(a[1])
        M = to_dense(rows, len(rows))
        got = unlst(ans)
        if len(got) != 4:
            return None
        for g, p in zip(got, ps):
            want = det_mod(M, p)
            if g == want:
                continue
            if g != 0 or not krylov_deficient(rows, p):
                return None               # a wrong non-zero residue, or a zero without the documented cause
        return "sparse-det-false-zero"
    # ---- Berlekamp-Massey on [a, 0, 0, ...]
    if op in ("im_det_sparse", "im_det_sparse_par", "im_detp4") and ans == "panic":
        rows = dec_sparse(a[0])
        if any(j >= len(rows) or not -(1 << 15) <= e < (1 << 15) for r in rows for j, e in r):
            return None
        if not rows or not any(rows) or krylov_tail_zero(rows):
            return "sparse-det-degenerate-sequence-panic"
        return None
    if op == "im_ker_p256" and ans == "panic":
        rows, p = dec_sparse(a[0]), int(a[1])
        return "sparse-det-degenerate-sequence-panic" if krylov_tail_zero(rows, p) else None
    # ---- SmithNormalForm::reduce, the documented HACK ("spurious orphan generator? ignoring relation"): when the row phase leaves
    #      det = 2h with a first pivot 2 and the first generator is much larger than the second, the first generator is dropped
    #      WITHOUT a recorded relation; the remaining generators need not generate the group. Recognised by its own conditions:
    #      exactly the largest generator is neither kept nor removed-with-a-relation, and the size test of the source holds.
    if op == "snf_reduce" and ans not in BAD:
        t = ans.split(" ")
        if len(t) == 4:
            orig = unlst(a[1])
            kept = unlst(t[0]) + [p_ for p_, _ in parse_removed(t[3])]
            missing = sorted(set(orig) - set(kept))
            fin = unlst(t[0])
            if len(orig) >= 2 and len(missing) == 1 and len(set(kept)) == len(orig) - 1 and all(missing[0] > g for g in fin):
                # the code tests gens[0] against gens[1] AFTER the row phase (generators eliminated by then are in `removed`): the
                # dropped generator is the largest one still present, the weakest form of the size test is against any kept one
                g0 = missing[0]
                if any((len(orig) >= 3 and g0 > 20 * g and g > 10) or g0 > 100 * g for g in fin):
                    return "snf-orphan-generator-dropped"
        return None
    # ---- SmithNormalForm::reduce: the product of the pivots after the row phase is a proper multiple of h
    #      (incomplete Howell form); the Lean model of reduce must refuse at the same assertion
    if op == "snf_reduce" and ans == "panic":
        if ask_model(case.line) != "panic":
            return None
        d = ask_model(f"snf_reduce_diag {a[0]} {a[1]} {a[2]}").split(" ")
        if d[0] == "rowphase" and _pivots_too_large(int(d[1]), int(d[2])):
            return "snf-reduce-refusal"
        return None
    if op == "im_snf" and ans.startswith("refused-reduce"):
        h = ans.split(" ")[1]
        if ask_model(f"snf_pipeline_model {a[0]} {h}") != ans:
            return None
        d = ask_model(f"snf_pipeline_diag {a[0]} {h}").split(" ")
        if d[0] == "rowphase" and _pivots_too_large(int(d[1]), int(d[2])):
            return "snf-reduce-refusal"
        return None
    # ---- dense lattice index: the routine re-computed with the same f64 Gram-Schmidt filter ends in
    #      panic!("failed to determine lattice index") (candidate rows rejected by LATTICE_MINDIST, gcd never unique)
    if op == "im_lattice_index" and ans == "panic":
        rows = dec(a[0])
        if rows and lattice_index(rows, len(rows[0])) == 0:
            return None
        sim = simulate_lattice_index(rows, bits_f64(int(a[1])), bits_f64(int(a[2])))
        return "lattice-index-refusal" if sim == ("refuse",) else None
    if op in ("im_snf", "im_snf_new") and ans == "panic":
        rows = _dense_of_rels(dec_sparse(a[0]))
        sim = simulate_lattice_index(rows, bits_f64(int(a[1])), bits_f64(int(a[2])))
        return "lattice-index-refusal" if sim == ("refuse",) else None
    # ---- sparse lattice index: same selections, exact determinants decide, detz reported false zeros
    if op == "im_sparse_lattice_index" and ans == "panic":
        rows_s = dec_sparse(a[1])
        cause = sparse_trace_cause(int(a[0]), rows_s, bits_f64(int(a[2])), bits_f64(int(a[3])))
        if cause == "false-zero":
            return "sparse-lattice-index-refusal"
        if cause == "selection":
            return "sparse-lattice-index-selection"
        return None
    return None


RULE = ("first, in both tiers, a deterministic boundary family: kernel mod p at p of exactly 55,56,63..65,119,120,127..129,181,182,249,250 bits x "
        "matrix norm {small,255,256,1023,1024} (the type limits of ker_p256), Berlekamp-Massey <u128,U256> at 62..65,118,119 bits, lattice index "
        "and Smith form with an index of exactly 64,65,100,119,120,124,125 bits; then "
        "families: CRT (0..64 moduli from the det_matz/CRTDetBuilder prime walks, small and random primes; values 0, +-(P-1)/2, P/2, "
        "random; unreduced residues; non-coprime/short/zero moduli; >64 moduli in the checked profile); permutations (identity, reversal, "
        "cycles, few transpositions, random; n = 1..60); echelon builder (13 moduli incl. 2^61-1 and the walk primes, dim 1..20, square and "
        "rectangular, dependent/zero rows, zero column, entries up to 2^62, >= 10 rows for the blocked elimination); det_matz (dim 1..12 with "
        "the model, 14..60 oracle only; entries tiny..full i64, U·D·V with known D, 1..64 CRT primes, Gram front end incl. singular matrices); "
        "CRTDetBuilder (1..5 calls on one builder, estimates crossing the 60/120-bit prime-count boundaries); compute_lattice_index (U·D·V "
        "basis + integer combinations, shuffled, square and rectangular, dim 1..60; single-column matrices with exact windows for the model); "
        "SmithNormalForm (new+reduce on relation lattices dim 1..60, reduce on dense states with h below and above 2^63, the orphan-generator "
        "branch, every elementary operation on random states, reciprocal division); sparse (detz/detp4/mulp/norm/prime selection dim 1..60 "
        "quick, ..300 thorough, kernel mod p up to 250 bits, Berlekamp-Massey on LFSR sequences, sparse lattice index). "
        "non-trivial = request longer than 24 characters; distinct by request line; klass = (routine, dimension class, #CRT primes / "
        "singular / rectangular / arithmetic path)")
MODELLED = [
    "intdense::crt incl. I4096 overflow, and intsparse::crt/_crt (value level) — Ymq/Model/IntMat.lean",
    "GFpEchelonBuilder::{new, add (sequential and 8-row blocked elimination), div, submul, submul_n, det incl. the permutation-sign "
    "cycle walk} in Montgomery form on top of the C07 word model; det_matz prime walk and CRT; CRTDetBuilder::det with its shared echelons",
    "second model EchP of GFpEchelonBuilder::{add, det} in plain residues with sequential elimination (object of echelon_det_partial), answered "
    "by the driver through follow-up requests im_echelon_plain / im_detp_plain and compared with the implementation; total for a prime "
    "p < 2^63 (echelon_total, echelon_det); GFpEchelonBuilder::add on an arbitrary stored state (im_ech_raw: the slice/position/swap "
    "panic sites of add), the block path restricted to p < 2^62 (fix a30f559), CRTDetBuilder::det with a rejected last row (fix 3ac969c)",
    "candidate selection of intdense::compute_lattice_index (gcd accumulation, window widening, m1..m2 scan, uniqueness) in exact "
    "rational arithmetic; complete for single-column matrices",
    "SmithNormalForm::{new (dense conversion), reduce, reduce_rows, reduce_cols, eliminate_block, eliminate, submul_n, normalize, "
    "colsub, colswap, divider, modh128, modh256, modh256u} with i128/I256 range checks — Ymq/Model/Snf.lean",
]
UNMODELLED = [
    "all f64 computations: GramBuilder (row selection, determinant estimates), the rounding of log2 estimates (the rounded bit count is "
    "an input of the model), the closing logdiff assertion of det_matz/CRTDetBuilder::det, the f64 comparisons of the lattice-index "
    "window (the model uses exact fractions; compared only on inputs where no comparison is within 1e-9 of a tie)",
    "intsparse Wiedemann pipeline (mulp, _detp4, detz, ker_p256, berlekamp_massey(_big), select_crtprimes, compute_lattice_index, rayon "
    "pool, StdRng row choice): no Lean model, judged by the Python oracle only",
    "arith::inv_mod64 and isprime64 are parameters of the model (instantiated in the driver with the C08/C06 models; named hypothesis in "
    "the CRT theorems); num_integer::Integer::gcd on i128/I4096 is modelled by its value; bnum I256/I4096/U256 operators as Int arithmetic "
    "with range checks",
]
CLAIM = ("Lean theorems, for all inputs, about executable models of intdense.rs: crt_symmetric / crt_sparse_symmetric (both CRT routines return the "
         "integer d, with its sign, whenever -P < 2d <= P, the moduli are pairwise coprime and the I4096 accumulator cannot overflow), perm_sign (the "
         "swap count of the cycle walk in GFpEchelonBuilder::det has the parity of the permutation, Equiv.Perm.sign), snf_ops_unimodular_partial "
         "(normalize, submul_n, eliminate, colsub, colswap act on the relation module (Z/h)^n-rowspace by invertible Z/h-linear maps: row operations keep "
         "it, column operations map it and q by the same automorphism; i128 path 0 < h < 2^63), snf_diag (a state returned by reduce is diagonal and "
         "its diagonal multiplies to h), snf_reduce_cols_iso_partial (the whole column phase reduce_cols is one automorphism phi of (Z/h)^n: relation "
         "module of the output = phi-image of the input's, q = matrix of phi, quotient groups isomorphic; same path), echelon_det_partial (reference echelon builder EchP in plain residues with sequential elimination: whenever "
         "the add/det determinant routine returns d for an n x n matrix, d = determinant mod p, sign included, rejected rows give 0; no assumption on "
         "inv_mod64 or primality), det_exact_partial (end to end on the reference pipeline: residues of the add/det routine for pairwise coprime moduli "
         "+ crt = Matrix.det over Z of the integer matrix, sign included, when -P < 2 det <= P; the bound is an input, the f64 estimate that is "
         "meant to guarantee it is not modelled). The models (also of the Montgomery-form echelon builder, det_matz, CRTDetBuilder with its shared echelons, the "
         "lattice-index candidate selection and the whole SmithNormalForm reduction incl. the I256 path) are tied to the code by differential runs in both "
         "build profiles; a Python exact-integer oracle (Bareiss determinant, diagonalisation modulo the determinant, gcd of minors) judges every "
         "implementation answer: determinants with sign, dense/sparse agreement, lattice index inside the bracket, diagonal presentation with product = "
         "index and the isomorphism class of the quotient.")
LEVEL_NOTE = ("Partial by design: the floating-point estimate windows of compute_lattice_index (GramBuilder row filter, log2 estimates) and the "
              "thread-pool variant of detz have no Lean model (oracle only) — Berlekamp-Massey, mulp, _detp4, sequential detz, select_crtprimes and the "
              "kernel path ker_p256 ARE modelled and proved (Props/C19BM.lean, Props/C19Wied.lean, see the appended CLAIM parts); snf_ops_unimodular is proved as _partial for the i128 "
              "arithmetic path (h < 2^63, one source row): the I256 path and the 8-row block of eliminate_block need the correctness of the reciprocal "
              "reduction modh256, which is compared with the code and oracle-checked but not proved; echelon_det is proved as _partial for a second, "
              "plain-arithmetic sequential model EchP of GFpEchelonBuilder::add/det (partial correctness incl. rejected rows; totality not proved): the "
              "Montgomery-form blocked model Ech that mirrors the code line by line is not related to EchP by a proof, both are compared with the "
              "implementation on every echelon request (two K streams); the composition of the operation theorems over the loops of "
              "reduce_rows (which also discards relations and generators) is not proved (K and oracle only); the column phase reduce_cols is composed "
              "(snf_reduce_cols_iso_partial). Integer determinants are not invariants of the "
              "Smith-form operations because every step reduces modulo h; the proved invariant is the relation module modulo h. Nine "
              "limitations of the code are listed as known findings (refusals and false zeros, see known_findings.json); 9 defects were repaired by "
              "fix: commits and the models follow the repaired code. Trusted: Lean kernel (+propext, Classical.choice, Quot.sound), the hand-written "
              "models' correspondence to the Rust code (sampled in both profiles, not proved), Python integers (and IEEE doubles for the caller-side Gram "
              "estimate of im_det_gram) in the oracle.")
TECHNIQUE = "Lean 4 proof about a hand model + differential correspondence check + spec oracle"


# ---- Berlekamp-Massey (props/c19_bm.py): lists and texts merged into this property
CLAIM = CLAIM + " || Berlekamp-Massey: " + bm.CLAIM + " || Wiedemann: " + getattr(wied, "CLAIM", "see MODELLED")
HYPOTHESES = list(HYPOTHESES) + list(wied.HYPOTHESES)
MODELLED = list(MODELLED) + list(bm.MODELLED) + list(wied.MODELLED)
UNMODELLED = list(UNMODELLED) + list(bm.UNMODELLED) + list(wied.UNMODELLED)
RULE = RULE + " " + bm.RULE_BM
