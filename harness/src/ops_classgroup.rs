//! Class groups (C18): the real `classgroup::classgroup`, its output directory, `Prime::b_plus`,
//! `CRelationSet`, answered by the real code.
//!
//! ops
//!   cg_h D threads                 -> `h inv,inv,..`           (no output directory)
//!   cg_full D threads              -> `h inv,.. | gens | rels | files`   (with output directory: every
//!                                     line of relations.sieve, classnumber, group.structure)
//!   cg_estimate D                  -> floor(1000*hmin) ceil(1000*hmax)
//!   cg_estimate_bits D             -> the two f64 of classgroup::estimate as IEEE bit patterns (u64, decimal): nothing is
//!                                     lost for |D| of hundreds of bits, where 1000*h no longer fits u128
//!   cg_b_plus p r even             -> Prime::b_plus
//!   cg_fb_bplus D size             -> `p:r:bplus(type of D),...` for the factor base the class group code builds
//!   cg_crel_history maxlarge rels  -> emitted relations + bookkeeping of CRelationSet (paths, stored relations: hook)
//!   (cg_h, cg_full, cg_poly take an optional last argument 0|1: force the double large prime variation, and
//!    trailing `fb=N`, `large=N`, `dbl=0|1`: Preferences::{fb_size, large_factor, use_double} = ymcls --fb/--large/--use-double)
//!   rf_pivots steps rels | rf_dense rels | rf_rowsub i j c rels | rf_trim count rels
//!                                  -> hook: RelFilterSparse (relation filter) with a dump of its whole state
//!   cg_poly D first count target   -> hook: the real sieve, one polynomial at a time, with the relations it produced
//!   cg_h / cg_full / cg_poly answer `panic <message> @ <file>:<line>` (first panic of the request, worker threads
//!   included) instead of the bare `panic` of main.rs: props/c18.py accepts only the recorded refusals
use crate::util::*;
use std::str::FromStr;
use std::sync::atomic::{AtomicUsize, Ordering};
use yamaquasi::arith::Dividers;
use yamaquasi::classgroup;
use yamaquasi::fbase::{FBase, Prime};
use yamaquasi::relationcls::{CRelation, CRelationSet};
use yamaquasi::{Int, Preferences, Verbosity};

static COUNTER: AtomicUsize = AtomicUsize::new(0);

fn int_of(s: &str) -> Option<Int> {
    Int::from_str(s).ok()
}

fn prefs() -> Preferences {
    let mut p = Preferences::default();
    p.verbosity = Verbosity::Silent;
    p
}



fn pool(threads: usize) -> Option<rayon::ThreadPool> {
    if threads <= 1 {
        None
    } else {
        Some(rayon::ThreadPoolBuilder::new().num_threads(threads).build().unwrap())
    }
}

fn show_inv(inv: &[u128]) -> String {
    show_list(inv)
}

fn show_fac(p: u32, e: i32) -> String {
    format!("{p}^{e}")
}

/// `p^e.p^e/L1/L2` : factors in stored order, then large1, large2 (`_` = None)
fn show_rel(r: &CRelation) -> String {
    let f = if r.factors.is_empty() {
        "-".to_string()
    } else {
        r.factors.iter().map(|&(p, e)| show_fac(p, e)).collect::<Vec<_>>().join(".")
    };
    let l = |o: Option<(u32, i32)>| o.map(|(p, e)| show_fac(p, e)).unwrap_or("_".into());
    format!("{f}/{}/{}", l(r.large1), l(r.large2))
}

fn fac_of(s: &str) -> Option<(u32, i32)> {
    let (p, e) = s.split_once('^')?;
    Some((p.parse().ok()?, e.parse().ok()?))
}

fn rel_of(s: &str) -> Option<CRelation> {
    let parts: Vec<&str> = s.split('/').collect();
    if parts.len() != 3 {
        return None;
    }
    let factors = if parts[0] == "-" {
        vec![]
    } else {
        parts[0].split('.').map(fac_of).collect::<Option<Vec<_>>>()?
    };
    let l = |s: &str| if s == "_" { Some(None) } else { fac_of(s).map(Some) };
    Some(CRelation { factors, large1: l(parts[1])?, large2: l(parts[2])? })
}

/// discriminant of a computation to run FIRST into the output directory of the next `cg_full` (stale files)
static PRERUN: std::sync::Mutex<Option<String>> = std::sync::Mutex::new(None);

pub fn handle(op: &str, a: &[&str]) -> Option<String> {
    // `cg_full_reuse D0 D threads [dbl]`: classgroup(D0) and then classgroup(D) write into the SAME output
    // directory; the answer is that of `cg_full D threads [dbl]` (files as left by the second computation)
    if op == "cg_full_reuse" {
        *PRERUN.lock().unwrap_or_else(|e| e.into_inner()) = Some(a.first()?.to_string());
        return handle("cg_full", &a[1..]);
    }
    // optional trailing `key=value` arguments of cg_h / cg_full / cg_poly set documented preferences:
    //   fb=N (Preferences::fb_size, `ymcls --fb N`), large=N (large_factor, `--large`), dbl=0|1 (use_double)
    let mut a: Vec<&str> = a.to_vec();
    let mut pf = prefs();
    let mut has_kv = false;
    if matches!(op, "cg_h" | "cg_full" | "cg_poly" | "rf_real") {
        while let Some(last) = a.last() {
            let Some((k, v)) = last.split_once('=') else { break };
            match k {
                "fb" => pf.fb_size = Some(u32_of(v)?),
                "large" => pf.large_factor = Some(u64_of(v)?),
                "dbl" => pf.use_double = Some(bool_of(v)?),
                _ => return None,
            }
            has_kv = true;
            a.pop();
        }
    }
    // optional last positional argument of cg_h / cg_full / cg_poly: force double large primes
    let dbl_arity = match op { "cg_h" | "cg_full" => 3, "cg_poly" => 5, _ => usize::MAX };
    if a.len() == dbl_arity {
        if bool_of(a[a.len() - 1])? {
            pf.use_double = Some(true);
        }
        a.pop();
    }
    let _ = has_kv;
    if matches!(op, "cg_h" | "cg_full" | "cg_poly") {
        // these three ops answer `panic <message> @ <file>:<line>` (first panic of the request) instead of the bare
        // `panic` of main.rs: the oracle tells the recorded refusals (C19 lattice index, Smith form) from any other panic
        return with_panic_message(move || handle_with(op, &a, pf));
    }
    handle_with(op, &a, pf)
}

static FIRST_PANIC: std::sync::Mutex<Option<String>> = std::sync::Mutex::new(None);

/// runs `f` under catch_unwind with a panic hook that records message and location of the FIRST panic
/// (worker threads included); the previous hook is put back afterwards
fn with_panic_message(f: impl FnOnce() -> Option<String>) -> Option<String> {
    *FIRST_PANIC.lock().unwrap_or_else(|e| e.into_inner()) = None;
    let prev = std::panic::take_hook();
    std::panic::set_hook(Box::new(|info| {
        let msg = if let Some(s) = info.payload().downcast_ref::<&str>() {
            s.to_string()
        } else if let Some(s) = info.payload().downcast_ref::<String>() {
            s.clone()
        } else {
            "?".to_string()
        };
        let loc = info.location().map(|l| format!("{}:{}", l.file(), l.line())).unwrap_or_else(|| "?".into());
        let mut g = FIRST_PANIC.lock().unwrap_or_else(|e| e.into_inner());
        if g.is_none() {
            let one: String = msg.split_whitespace().collect::<Vec<_>>().join(" ");
            *g = Some(format!("{} @ {}", one.chars().take(160).collect::<String>(), loc));
        }
    }));
    let r = std::panic::catch_unwind(std::panic::AssertUnwindSafe(f));
    std::panic::set_hook(prev);
    match r {
        Ok(x) => x,
        Err(_) => {
            let m = FIRST_PANIC.lock().unwrap_or_else(|e| e.into_inner()).take();
            Some(format!("panic {}", m.unwrap_or_else(|| "? @ ?".into())))
        }
    }
}

fn handle_with(op: &str, a: &[&str], pf: Preferences) -> Option<String> {
    match (op, a) {
        ("cg_h", [d, threads]) => {
            let d = int_of(d)?;
            let tp = pool(usize_of(threads)?);
            let g = classgroup::classgroup(&d, &pf, tp.as_ref());
            Some(match g {
                None => "none".into(),
                Some(g) => format!("{} {}", g.h, show_inv(&g.invariants)),
            })
        }
        ("cg_full", [d, threads]) => {
            let d = int_of(d)?;
            let tp = pool(usize_of(threads)?);
            let dir = std::env::temp_dir().join(format!(
                "c18-ymqh-{}-{}",
                std::process::id(),
                COUNTER.fetch_add(1, Ordering::SeqCst)
            ));
            let _ = std::fs::remove_dir_all(&dir);
            let _cleanup = DirGuard(dir.clone()); // also removes the directory when classgroup() panics
            let mut p = pf;
            p.outdir = Some(dir.clone());
            if let Some(d0) = PRERUN.lock().unwrap_or_else(|e| e.into_inner()).take() {
                let d0 = int_of(&d0)?;
                let mut p0 = prefs();
                p0.outdir = Some(dir.clone());
                let _ = std::panic::catch_unwind(std::panic::AssertUnwindSafe(|| {
                    classgroup::classgroup(&d0, &p0, None)
                }));
            }
            let g = classgroup::classgroup(&d, &p, tp.as_ref());
            let read = |name: &str| std::fs::read_to_string(dir.join(name)).unwrap_or_else(|_| "<missing>".into());
            let rels = read("relations.sieve");
            let cn = read("classnumber");
            // coordinates of the eliminated primes (group.structure.extra: `p x1 x2 ...`)
            let extra = std::fs::read_to_string(dir.join("group.structure.extra"))
                .unwrap_or_default()
                .lines()
                .map(|l| {
                    let mut it = l.split_whitespace();
                    let p = it.next().unwrap_or("?").to_string();
                    let v: Vec<&str> = it.collect();
                    format!("{p}:{}", if v.is_empty() { "-".to_string() } else { v.join(",") })
                })
                .collect::<Vec<_>>()
                .join(";");
            // relations kept for linear algebra (`p^e p^e`) and relations saved during elimination (`p = l^e l^e`)
            let filtered = std::fs::read_to_string(dir.join("relations.filtered"))
                .unwrap_or_default()
                .lines()
                .map(|l| {
                    let t = l.split_whitespace().collect::<Vec<_>>().join(",");
                    if t.is_empty() { "e".to_string() } else { t }
                })
                .collect::<Vec<_>>()
                .join(";");
            let removed = std::fs::read_to_string(dir.join("relations.removed"))
                .unwrap_or_default()
                .lines()
                .map(|l| {
                    let (p, rest) = l.split_once('=').unwrap_or((l, ""));
                    format!("{}={}", p.trim(), rest.split_whitespace().collect::<Vec<_>>().join(","))
                })
                .collect::<Vec<_>>()
                .join(";");
            let res = match g {
                None => "none".into(),
                Some(g) => {
                    let gens = g
                        .gens
                        .iter()
                        .map(|(p, v)| format!("{p}:{}", show_list(v)))
                        .collect::<Vec<_>>()
                        .join(";");
                    // one relation per `;`, entries separated by `,`
                    let rl = rels
                        .lines()
                        .map(|l| l.split_whitespace().collect::<Vec<_>>().join(","))
                        .collect::<Vec<_>>()
                        .join(";");
                    format!(
                        "{} {} | {} | {} | classnumber={} | extra={} | filtered={} | removed={}",
                        g.h,
                        show_inv(&g.invariants),
                        if gens.is_empty() { "-".into() } else { gens },
                        if rl.is_empty() { "-".into() } else { rl },
                        cn.trim(),
                        if extra.is_empty() { "-".into() } else { extra },
                        if filtered.is_empty() { "-".into() } else { filtered },
                        if removed.is_empty() { "-".into() } else { removed }
                    )
                }
            };
            let _ = std::fs::remove_dir_all(&dir);
            Some(res)
        }
        ("cg_estimate", [d]) => {
            let d = int_of(d)?;
            let (h1, h2) = classgroup::estimate(&d);
            Some(format!("{} {}", (h1 * 1000.0).floor() as u128, (h2 * 1000.0).ceil() as u128))
        }
        ("cg_estimate_bits", [d]) => {
            let d = int_of(d)?;
            let (h1, h2) = classgroup::estimate(&d);
            Some(format!("{} {}", h1.to_bits(), h2.to_bits()))
        }
        ("cg_b_plus", [p, r, even]) => {
            let p = u32_of(p)?;
            let div = Dividers::new(p);
            let pr = Prime { p: p as u64, r: u64_of(r)?, div: &div };
            Some(pr.b_plus(bool_of(even)?).to_string())
        }
        ("cg_fb_bplus", [d, size]) => {
            // same reduction as classgroup(): the factor base is built for D/4 when 4 | D
            let d = int_of(d)?;
            let dabs = d.unsigned_abs();
            let four = dabs.digits()[0] & 3 == 0;
            let dred = if four { d >> 2 } else { d };
            let fb = FBase::new(dred, u32_of(size)?);
            let even = dred.to_bits().digits()[0] % 4 != 1; // siqs::polytype: Type1 unless n = 1 mod 4
            let v: Vec<String> = (0..fb.len())
                .map(|i| {
                    let pr = fb.prime(i);
                    format!("{}:{}:{}", pr.p, pr.r, pr.b_plus(even))
                })
                .collect();
            Some(format!("{} {}", if even { "even" } else { "odd" }, v.join(",")))
        }
        ("cg_crel_history", [maxlarge, rels]) => {
            // with an output file, so that the written lines are part of the answer
            let path = std::env::temp_dir().join(format!(
                "c18-ymqh-{}-{}.rels",
                std::process::id(),
                COUNTER.fetch_add(1, Ordering::SeqCst)
            ));
            let parsed: Vec<CRelation> = if *rels == "-" {
                vec![]
            } else {
                rels.split(';').map(rel_of).collect::<Option<Vec<_>>>()?
            };
            let mut s = CRelationSet::new(Int::from(-7i64), usize::MAX, u32_of(maxlarge)?, Some(path.clone()));
            let res = std::panic::catch_unwind(std::panic::AssertUnwindSafe(|| {
                for r in parsed {
                    s.add(r);
                }
                s
            }));
            let s = match res {
                Ok(s) => s,
                Err(_) => {
                    let _ = std::fs::remove_file(&path);
                    return Some("panic".into());
                }
            };
            let lines = std::fs::read_to_string(&path).unwrap_or_else(|_| "<missing>".into());
            let _ = std::fs::remove_file(&path);
            let lines = lines
                .lines()
                .map(|l| {
                    let t = l.split_whitespace().collect::<Vec<_>>().join(",");
                    if t.is_empty() { "e".to_string() } else { t }
                })
                .collect::<Vec<_>>()
                .join(";");
            let em = s.emitted.iter().map(show_rel).collect::<Vec<_>>().join(";");
            use yamaquasi::relationcls::verif_hooks as vh;
            let paths = vh::vh_paths(&s)
                .iter()
                .map(|(p, v)| format!("{p}:{}", v.iter().map(|x| x.to_string()).collect::<Vec<_>>().join(">")))
                .collect::<Vec<_>>()
                .join(",");
            let dbl = vh::vh_doubles(&s)
                .iter()
                .map(|((p, q), r)| format!("{p}-{q}={}", show_rel(r)))
                .collect::<Vec<_>>()
                .join(";");
            let rev = vh::vh_doubles_rev(&s)
                .iter()
                .map(|(q, p)| format!("{q}-{p}"))
                .collect::<Vec<_>>()
                .join(",");
            Some(format!(
                "{} | paths={} | stored={} | rev={} | partials={} doubles={} c12={} cycles={} len={} | lines={}",
                if em.is_empty() { "-".into() } else { em },
                paths,
                if dbl.is_empty() { "-".into() } else { dbl },
                if rev.is_empty() { "-".into() } else { rev },
                s.n_partials,
                s.n_doubles,
                s.n_combined12,
                show_list(&s.n_cycles),
                s.len(),
                if lines.is_empty() { "-".into() } else { lines }
            ))
        }
        ("rf_real", [d, first, count, target]) => {
            // real sieved relations (per-polynomial hook) pushed through the real filter
            let d = int_of(d)?;
            let t = classgroup::verif_hooks_cls::vh_sieve_polys(&d, &pf, usize_of(first)?, usize_of(count)?, usize_of(target)?);
            let rels: Vec<CRelation> = t.polys.iter().flat_map(|p| p.rels.iter().cloned()).collect();
            let text = join_or(rels.iter().map(show_rel).collect(), ";");
            let (dump, dups) = vhf::vh_filter_dense(rels);
            Some(format!("{} || {} | dups={}", text, show_dump(&dump), dups))
        }
        ("rf_pivots", [steps, rels]) => {
            let (d, n) = vhf::vh_pivots(rels_of(rels)?, usize_of(steps)?);
            Some(format!("{} | n={}", show_dump(&d), n))
        }
        ("rf_dense", [rels]) => {
            let (d, dups) = vhf::vh_filter_dense(rels_of(rels)?);
            Some(format!("{} | dups={}", show_dump(&d), dups))
        }
        ("rf_rowsub", [i, j, c, rels]) => Some(
            match vhf::vh_rowsub(rels_of(rels)?, usize_of(i)?, usize_of(j)?, c.parse().ok()?) {
                None => "overflow".into(),
                Some(d) => show_dump(&d),
            },
        ),
        ("rf_trim", [count, rels]) => {
            let (d, t) = vhf::vh_trim(rels_of(rels)?, usize_of(count)?);
            Some(format!("{} | trimmed={}", show_dump(&d), t))
        }
        ("cg_poly", [d, first, count, target]) => {
            let d = int_of(d)?;
            let t = classgroup::verif_hooks_cls::vh_sieve_polys(
                &d,
                &pf,
                usize_of(first)?,
                usize_of(count)?,
                usize_of(target)?,
            );
            let pairs = |v: &[(u64, u64)]| {
                if v.is_empty() {
                    "-".to_string()
                } else {
                    v.iter().map(|(p, r)| format!("{p}:{r}")).collect::<Vec<_>>().join(",")
                }
            };
            let fb: Vec<(u64, u64)> = t.fb.iter().map(|&(p, r)| (p as u64, r as u64)).collect();
            let mut out = format!(
                "fb={} cond={} maxlarge={} maxdouble={} mm={}",
                pairs(&fb),
                show_list(&t.conductor_primes),
                t.maxlarge,
                t.maxdouble,
                t.interval_size
            );
            for p in &t.polys {
                let qf = if p.qfacs.is_empty() {
                    "-".to_string()
                } else {
                    p.qfacs.iter().map(|(p, e)| format!("{p}^{e}")).collect::<Vec<_>>().join(".")
                };
                let rels = if p.rels.is_empty() {
                    "-".to_string()
                } else {
                    p.rels.iter().map(show_rel).collect::<Vec<_>>().join(";")
                };
                out += &format!(
                    " | {} {} {} {} {} {} {}",
                    if p.type2 { 2 } else { 1 },
                    p.a,
                    p.b,
                    p.c,
                    pairs(&p.afactors),
                    qf,
                    rels
                );
            }
            Some(out)
        }
        _ => None,
    }
}

use yamaquasi::relationcls::verif_hooks_filter as vhf;

fn rels_of(s: &str) -> Option<Vec<CRelation>> {
    if s == "-" {
        return Some(vec![]);
    }
    s.split(';').map(rel_of).collect()
}

fn show_row(r: &[(u32, i32)]) -> String {
    if r.is_empty() {
        "-".to_string()
    } else {
        r.iter().map(|&(p, e)| show_fac(p, e)).collect::<Vec<_>>().join(".")
    }
}

fn join_or(v: Vec<String>, sep: &str) -> String {
    if v.is_empty() {
        "-".to_string()
    } else {
        v.join(sep)
    }
}

/// whole state of a RelFilterSparse (hook dump)
fn show_dump(d: &vhf::FilterDump) -> String {
    format!(
        "rows={} | weight={} | nonzero={} | removed={} | skip={} | wmin={} nextelims={} nzrows={} nzcoeffs={}",
        join_or(d.rows.iter().map(|r| show_row(r)).collect(), ";"),
        join_or(d.weight.iter().map(|(p, w)| format!("{p}:{w}")).collect(), ","),
        join_or(
            d.nonzero
                .iter()
                .map(|(p, l)| format!("{p}:{}", join_or(l.iter().map(|x| x.to_string()).collect(), "+")))
                .collect(),
            ","
        ),
        join_or(d.removed.iter().map(|(p, r)| format!("{p}={}", show_row(r))).collect(), ";"),
        show_list(&d.skip),
        d.wmin,
        show_list(&d.nextelims),
        d.nonzero_rows,
        d.nonzero_coeffs
    )
}

struct DirGuard(std::path::PathBuf);
impl Drop for DirGuard {
    fn drop(&mut self) {
        let _ = std::fs::remove_dir_all(&self.0);
    }
}

fn usize_of(s: &str) -> Option<usize> {
    s.parse().ok()
}
