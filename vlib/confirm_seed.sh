#!/bin/bash
# Confirms a seeded change delivered in /tmp/seedout-<PID>/ (patchN.diff, demoN/, metaN.json) in its scratch worktree
# /tmp/seed-<PID>: (1) applies, (2) builds, (3) existing tests pass with it, (4) the demonstration fails with it and
# (5) passes without it. Then runs the property's check against the patched copy (vlib/mutant_check.sh) and files
# everything under /verif/seeded/<PID>-<N>/.   usage: vlib/confirm_seed.sh <PID> <N> [extra PIDs to run too]
set -u
PID=$1; N=$2; shift 2
W=/tmp/seed-$PID; O=/tmp/seedout-$PID; ID=$PID-$N
[ -f $O/patch$N.diff ] || { echo "no patch $O/patch$N.diff"; exit 2; }
cd $W && git checkout -q -- . && git apply --check $O/patch$N.diff || { echo "CONFIRM $ID: patch does not apply"; exit 2; }
git apply $O/patch$N.diff
export CARGO_NET_OFFLINE=true
T=$( (cargo test --offline 2>&1 | grep -E "^test result" | head -1) )
echo "tests with patch: $T"
DEMO=$(python3 -c "import json;print(json.load(open('$O/meta$N.json'))['demo_cmd'])")
echo "demo cmd: $DEMO"
find $O/demo$N -name "*.rs" -exec touch {} + 2>/dev/null; (cd $O/demo$N 2>/dev/null || cd $O; timeout 900 bash -c "$DEMO" > $O/demo$N.with.log 2>&1); RCW=$?
git checkout -q -- .; find . -name "*.rs" -path "./src/*" -exec touch {} + ; find $O/demo$N -name "*.rs" -exec touch {} + 2>/dev/null
(cd $O/demo$N 2>/dev/null || cd $O; timeout 900 bash -c "$DEMO" > $O/demo$N.without.log 2>&1); RCO=$?
echo "demo exit with patch: $RCW   without patch: $RCO"
OKT=0; echo "$T" | grep -q " 0 failed" && echo "$T" | grep -q "82 passed" && OKT=1
if [ $OKT -eq 1 ] && [ $RCW -ne 0 ] && [ $RCO -eq 0 ]; then echo "CONFIRM $ID: qualifies"; else echo "CONFIRM $ID: DOES NOT QUALIFY"; fi
cd /verif
OUT=$(vlib/mutant_check.sh $O/patch$N.diff $PID "$@" 2>&1)
echo "$OUT" | grep -E "^=== |VIOLATION|^OK |KNOWN" 
mkdir -p seeded/$ID && cp $O/patch$N.diff seeded/$ID/patch.diff && rm -rf seeded/$ID/demo && cp -r $O/demo$N seeded/$ID/demo 2>/dev/null
rm -rf seeded/$ID/demo/target
python3 - "$O/meta$N.json" "seeded/$ID/meta.json" "$T" "$RCW" "$RCO" <<PY
import json,sys
m=json.load(open(sys.argv[1]))
m.update({"confirmed_tests_with_patch":sys.argv[3],"confirmed_demo_exit_with_patch":int(sys.argv[4]),"confirmed_demo_exit_without_patch":int(sys.argv[5]),
 "ran":"vlib/confirm_seed.sh: applied in scratch worktree, cargo test --offline, demo with and without the patch, then vlib/mutant_check.sh on a patched scratch copy"})
json.dump(m,open(sys.argv[2],"w"),indent=1)
PY
echo "$OUT" > seeded/$ID/check_output.txt
