/-
C19 / Berlekamp–Massey: `berlekamp_massey(p, seq)` and `berlekamp_massey_big::<U256, U512>(p, seq)`
of src/matrix/intsparse.rs (model: Ymq/Model/BerlekampMassey.lean, checked profile).

Domain of the theorems.
* `bm` (64-bit Montgomery variant): `p` an odd prime below `2^63`, every term of the sequence
  reduced (`< p`). The bound is needed by `dotp`: `a*b + c*d < 2p² ≤ p·2^64` is the domain of
  `mg_redc`; above `2^63.5` the `u128` sum itself overflows (`mgDotp_overflow_64bit_prime` in
  Ymq/Lemmas/BerlekampMasseyMg.lean; in the release profile the function then returns polynomials
  that do not annihilate the sequence, see props/c19_bm.py).
* `bmBig` (`%` arithmetic on `U256`): `p` a prime below `2^244` (the proved domain of
  `inv_mod::<4>`, property C09), terms reduced.

Vocabulary (Ymq/Lemmas/BerlekampMasseySpec.lean, BerlekampMasseyTop.lean):
`convAt c s i = Σ_{j ≤ i} c_j s_{i-j}`;
`Connection p s c`: `c_0 ≢ 0`, `c_j ≡ 0` for `j > n - n/2`, `convAt c s i ≡ 0 (mod p)` for
`n/2 ≤ i < n` (`n = s.length`);  `TwoTerms s`: at least two non-zero terms.
`Inv p n S st` (Ymq/Lemmas/BerlekampMasseyStep.lean): the loop invariant.
-/
import Ymq.Lemmas.BerlekampMasseySpec
import Ymq.Lemmas.BerlekampMasseyMinimal
import Ymq.Lemmas.BerlekampMasseyMg

namespace Ymq.C19BM
open Ymq.BM Polynomial

/-! ### the closures -/

/-- The Montgomery closures `mulp`, `dotp`, `invp`, `subp` of `berlekamp_massey` never panic on
reduced residues and compute `κ·a·b`, `κ·(ab+cd)`, `1/(κ²a)`, `a-b` in `ZMod p` with `κ = 2^-64`;
the prelude (lines 582-591, including the `debug_assert!`) does not panic, so `bm` is the shared
loop `core` run with these closures. -/
theorem bm_montgomery_ops (p : ℕ) (hp : p.Prime) (hodd : p % 2 = 1) (hlt : p < 2 ^ 63)
    (seq : List ℕ) :
    ∃ pinv r2, OpsOK (mgOps p pinv r2) p ((Ymq.Mg64.W : ZMod p)⁻¹) ∧
      bm p seq = core (mgOps p pinv r2) seq := by
  have := Fact.mk hp
  obtain ⟨pinv, h1, h2⟩ := bm_prelude p hodd hlt seq
  exact ⟨pinv, _, mgOps_ok p pinv hodd hlt h1, h2⟩

/-- The `%`-closures of `berlekamp_massey_big::<U256, U512>` (with `κ = 1`). -/
theorem bm_big_ops (p : ℕ) (hp : p.Prime) (hlt : p < 2 ^ 244) (seq : List ℕ) :
    OpsOK (bigOps p) p (1 : ZMod p) ∧ bmBig p seq = core (bigOps p) seq := by
  have := Fact.mk hp
  exact ⟨bigOps_ok p hlt, rfl⟩

/-! ### (a) the loop invariant -/

/-- The state built by lines 602-627 satisfies the invariant: `u·S = f + a·x^n`,
`v·S = g + b·x^n` over `ZMod p` with `a·v - b·u` a non-zero constant, `u, v, f, g` vanish above
`du, dv, df, dg`, `du + dg ≤ n`, `dv + df ≤ n`, `f[df] ≠ 0` and `g[dg] ≠ 0` unless the degree is
0, and one of `df`, `dg` is at least `n/2`. -/
theorem bm_invariant_init (p : ℕ) (hp : p.Prime) (seq : List ℕ) (hr : ∀ x ∈ seq, x < p) (s : St)
    (h : initSt seq = some (some s)) :
    Inv p seq.length (toPoly p seq) s ∧ s.df + s.dg + 2 ≤ 2 * seq.length ∧ 2 ≤ seq.length := by
  have := Fact.mk hp
  rcases init_cases seq (red_of_mem hp.pos seq hr) with ⟨_, e⟩ | ⟨_, _, e⟩ |
      ⟨_, _, _, ⟨_, e⟩ | ⟨_, e⟩⟩ | ⟨_, _, s0, _, _, _, e, inv, hm, hn⟩
  · rw [e] at h; simp at h
  · rw [e] at h; simp at h
  · rw [e] at h; simp at h
  · rw [e] at h; simp at h
  · rw [e] at h
    have : s0 = s := Option.some.inj (Option.some.inj h)
    subst this
    exact ⟨inv, hm, hn⟩

/-- One turn of the loop (swap, exit test failed, division step with either quotient shape,
degree scans) reaches no panic site — no index out of range, `invp` defined, both `assert_eq!`
hold, no overflow —, preserves the invariant and strictly decreases `df + dg`. Holds for both
variants (`OpsOK` instances: `bm_montgomery_ops`, `bm_big_ops`). -/
theorem bm_invariant {p : ℕ} {o : Ops} {κ : ZMod p} (ok : OpsOK o p κ) {n : ℕ} (hn : 2 ≤ n)
    (S : (ZMod p)[X]) (s : St) (h : Inv p n S s) (hd : n / 2 ≤ (swapIf s).df) :
    ∃ s', step o (swapIf s) = some s' ∧ Inv p n S s' ∧ s'.df + s'.dg < s.df + s.dg := by
  obtain ⟨s', e1, e2, e3, e4⟩ := step_spec ok hn (inv_swap h) (swap_le s) hd
  refine ⟨s', e1, e2, ?_⟩
  have := swap_sum s
  omega

/-! ### (b) soundness -/

/-- Whatever non-empty vector `berlekamp_massey` returns is a connection polynomial: length `n`,
reduced, constant term 1, degree at most `n - n/2`, and `Σ_j u_j s_{i-j} ≡ 0 (mod p)` for every
`n/2 ≤ i < n` (the generating series is `f/u` with `deg f < n/2`). -/
theorem bm_sound (p : ℕ) (hp : p.Prime) (hodd : p % 2 = 1) (hlt : p < 2 ^ 63) (seq : List ℕ)
    (hr : ∀ x ∈ seq, x < p) (out : List ℕ) (h : bm p seq = some out) (hne : out ≠ []) :
    out.length = seq.length ∧ (∀ x ∈ out, x < p) ∧ out.getD 0 0 = 1 ∧
      (∀ j, seq.length - seq.length / 2 < j → out.getD j 0 = 0) ∧
      ∀ i, seq.length / 2 ≤ i → i < seq.length → convAt out seq i % p = 0 := by
  have := Fact.mk hp
  obtain ⟨pinv, r2, ok, e⟩ := bm_montgomery_ops p hp hodd hlt seq
  rw [e] at h
  exact core_sound_list ok seq hr out h hne

/-- the same for `berlekamp_massey_big::<U256, U512>` -/
theorem bm_big_sound (p : ℕ) (hp : p.Prime) (hlt : p < 2 ^ 244) (seq : List ℕ)
    (hr : ∀ x ∈ seq, x < p) (out : List ℕ) (h : bmBig p seq = some out) (hne : out ≠ []) :
    out.length = seq.length ∧ (∀ x ∈ out, x < p) ∧ out.getD 0 0 = 1 ∧
      (∀ j, seq.length - seq.length / 2 < j → out.getD j 0 = 0) ∧
      ∀ i, seq.length / 2 ≤ i → i < seq.length → convAt out seq i % p = 0 := by
  have := Fact.mk hp
  exact core_sound_list (bigOps_ok p hlt) seq hr out h hne

/-- The window cannot be extended down to the degree of the returned polynomial: for
`1,1,0,0,0,0` the answer is `u = 1` (`f = 1 + x`), and `Σ_j u_j s_{1-j} = 1`. The linear complexity
is `max(deg u, deg f + 1)`, not `deg u`. -/
theorem bm_window_not_from_degree :
    bm 7 [1, 1, 0, 0, 0, 0] = some [1, 0, 0, 0, 0, 0] ∧ convAt [1, 0, 0, 0, 0, 0] [1, 1, 0, 0, 0, 0] 1 % 7 ≠ 0 := by
  decide +kernel

/-- The degree bound `n - n/2` is attained for odd `n` (it is not `n/2`). -/
theorem bm_degree_bound_tight : bm 7 [2, 1, 0] = some [1, 3, 2] := by decide +kernel

/-! ### (c) panics -/

/-- Exact characterisation of the inputs (in the domain) on which `berlekamp_massey` reaches a
panic site: the empty sequence (`u[0] = 1`, line 604), a sequence `[a,0,...,0]` with `a ≠ 0`
(`v[n - df]` with `df = 0`, line 616: the recorded finding `sparse-det-degenerate-sequence-panic`),
and a sequence with two non-zero terms that has no connection polynomial on the window
(`assert!(u[0] != 0)`, line 641: the `FIXME: divide by x^v??`). No other panic site — index,
`unwrap`, `assert_eq!`, `debug_assert!`, overflow, `unreachable!()` — is reachable. -/
theorem bm_no_panic_iff (p : ℕ) (hp : p.Prime) (hodd : p % 2 = 1) (hlt : p < 2 ^ 63)
    (seq : List ℕ) (hr : ∀ x ∈ seq, x < p) :
    bm p seq = none ↔
      seq = [] ∨ (seq.getD 0 0 ≠ 0 ∧ ∀ i, 1 ≤ i → seq.getD i 0 = 0) ∨
      (TwoTerms seq ∧ ¬ ∃ c, Connection p seq c) := by
  have := Fact.mk hp
  obtain ⟨pinv, r2, ok, e⟩ := bm_montgomery_ops p hp hodd hlt seq
  rw [e]
  exact core_none_iff ok seq hr

/-- the same for `berlekamp_massey_big::<U256, U512>` -/
theorem bm_big_no_panic_iff (p : ℕ) (hp : p.Prime) (hlt : p < 2 ^ 244) (seq : List ℕ)
    (hr : ∀ x ∈ seq, x < p) :
    bmBig p seq = none ↔
      seq = [] ∨ (seq.getD 0 0 ≠ 0 ∧ ∀ i, 1 ≤ i → seq.getD i 0 = 0) ∨
      (TwoTerms seq ∧ ¬ ∃ c, Connection p seq c) := by
  have := Fact.mk hp
  exact core_none_iff (bigOps_ok p hlt) seq hr

/-- The empty vector (`return vec![]`, lines 612 and 626) is returned exactly for the zero
sequence and for a sequence with a single non-zero term at an index `k ≥ 1` (the branch commented
"Not supposed to happen"; `_detp4` then indexes `charpoly[size]` of an empty vector). -/
theorem bm_empty_iff (p : ℕ) (hp : p.Prime) (hodd : p % 2 = 1) (hlt : p < 2 ^ 63)
    (seq : List ℕ) (hr : ∀ x ∈ seq, x < p) :
    bm p seq = some [] ↔
      seq ≠ [] ∧ ((∀ i, seq.getD i 0 = 0) ∨
        ∃ k, 1 ≤ k ∧ seq.getD k 0 ≠ 0 ∧ ∀ i, i ≠ k → seq.getD i 0 = 0) := by
  have := Fact.mk hp
  obtain ⟨pinv, r2, ok, e⟩ := bm_montgomery_ops p hp hodd hlt seq
  rw [e]
  exact core_empty_iff ok seq hr

/-- the same for `berlekamp_massey_big::<U256, U512>` -/
theorem bm_big_empty_iff (p : ℕ) (hp : p.Prime) (hlt : p < 2 ^ 244) (seq : List ℕ)
    (hr : ∀ x ∈ seq, x < p) :
    bmBig p seq = some [] ↔
      seq ≠ [] ∧ ((∀ i, seq.getD i 0 = 0) ∨
        ∃ k, 1 ≤ k ∧ seq.getD k 0 ≠ 0 ∧ ∀ i, i ≠ k → seq.getD i 0 = 0) := by
  have := Fact.mk hp
  exact core_empty_iff (bigOps_ok p hlt) seq hr

/-- Completeness / no panic on the inputs Wiedemann produces: a sequence with two non-zero terms
that has a connection polynomial on the window gets one (no panic, non-empty answer; by
`bm_sound` the answer is a connection polynomial). -/
theorem bm_no_panic (p : ℕ) (hp : p.Prime) (hodd : p % 2 = 1) (hlt : p < 2 ^ 63)
    (seq : List ℕ) (hr : ∀ x ∈ seq, x < p) (h2 : TwoTerms seq) (c : List ℕ)
    (hc : Connection p seq c) : ∃ out, bm p seq = some out ∧ out ≠ [] := by
  have := Fact.mk hp
  obtain ⟨pinv, r2, ok, e⟩ := bm_montgomery_ops p hp hodd hlt seq
  rw [e]
  exact core_complete_list ok seq hr h2 c hc

/-- the same for `berlekamp_massey_big::<U256, U512>` -/
theorem bm_big_no_panic (p : ℕ) (hp : p.Prime) (hlt : p < 2 ^ 244) (seq : List ℕ)
    (hr : ∀ x ∈ seq, x < p) (h2 : TwoTerms seq) (c : List ℕ) (hc : Connection p seq c) :
    ∃ out, bmBig p seq = some out ∧ out ≠ [] := by
  have := Fact.mk hp
  exact core_complete_list (bigOps_ok p hlt) seq hr h2 c hc

/-- In particular: a sequence that satisfies a linear recurrence of order `L` with `2L ≤ n`
(`taps_0 = 1`, `Σ_{j ≤ L} taps_j s_{i-j} ≡ 0` for `L ≤ i < n`) — the Krylov sequences of
`_detp4` / `ker_pbig`, `n = 2·size`, `L ≤ size` — never panics, provided it has two non-zero
terms. -/
theorem bm_no_panic_recurrence (p : ℕ) (hp : p.Prime) (hodd : p % 2 = 1) (hlt : p < 2 ^ 63)
    (seq : List ℕ) (hr : ∀ x ∈ seq, x < p) (h2 : TwoTerms seq) (L : ℕ) (taps : List ℕ)
    (hL : 2 * L ≤ seq.length) (h0 : taps.getD 0 0 = 1) (hd : ∀ j, L < j → taps.getD j 0 = 0)
    (hrec : ∀ i, L ≤ i → i < seq.length → convAt taps seq i % p = 0) :
    ∃ out, bm p seq = some out ∧ out ≠ [] := by
  refine bm_no_panic p hp hodd hlt seq hr h2 taps ⟨?_, fun j hj => ?_, fun i hi1 hi2 => ?_⟩
  · rw [h0, Nat.mod_eq_of_lt hp.one_lt]; omega
  · rw [hd j (by omega)]; simp
  · exact hrec i (by omega) hi2

/-- Minimality (what `_detp4` / `ker_pbig` rely on when they read the coefficients as those of a
characteristic polynomial): if the sequence satisfies a recurrence of order `L` with `2L ≤ n`,
the returned vector has degree at most `L` and annihilates the sequence from index `L` on — not
only on the window `n/2 ≤ i < n`. (It is `u` of the reduced fraction `f/u`: the proof shows
`gcd(f, u) = 1` from the determinant `f·v - g·u = c·x^n` carried by the invariant.) -/
theorem bm_minimal (p : ℕ) (hp : p.Prime) (hodd : p % 2 = 1) (hlt : p < 2 ^ 63)
    (seq : List ℕ) (hr : ∀ x ∈ seq, x < p) (h2 : TwoTerms seq) (L : ℕ) (taps : List ℕ)
    (hL : 2 * L ≤ seq.length) (h0 : taps.getD 0 0 % p ≠ 0)
    (hd : ∀ j, L < j → taps.getD j 0 % p = 0)
    (hrec : ∀ i, L ≤ i → i < seq.length → convAt taps seq i % p = 0)
    (out : List ℕ) (h : bm p seq = some out) :
    (∀ j, L < j → out.getD j 0 = 0) ∧
      ∀ i, L ≤ i → i < seq.length → convAt out seq i % p = 0 := by
  have := Fact.mk hp
  obtain ⟨pinv, r2, ok, e⟩ := bm_montgomery_ops p hp hodd hlt seq
  rw [e] at h
  exact core_minimal_list ok seq hr h2 L taps hL h0 hd hrec out h

/-- the same for `berlekamp_massey_big::<U256, U512>` -/
theorem bm_big_minimal (p : ℕ) (hp : p.Prime) (hlt : p < 2 ^ 244)
    (seq : List ℕ) (hr : ∀ x ∈ seq, x < p) (h2 : TwoTerms seq) (L : ℕ) (taps : List ℕ)
    (hL : 2 * L ≤ seq.length) (h0 : taps.getD 0 0 % p ≠ 0)
    (hd : ∀ j, L < j → taps.getD j 0 % p = 0)
    (hrec : ∀ i, L ≤ i → i < seq.length → convAt taps seq i % p = 0)
    (out : List ℕ) (h : bmBig p seq = some out) :
    (∀ j, L < j → out.getD j 0 = 0) ∧
      ∀ i, L ≤ i → i < seq.length → convAt out seq i % p = 0 := by
  have := Fact.mk hp
  exact core_minimal_list (bigOps_ok p hlt) seq hr h2 L taps hL h0 hd hrec out h

/-- witness: the empty sequence -/
theorem bm_panic_empty : bm 7 [] = none ∧ bmBig 7 [] = none := by decide +kernel

/-- witness: the recorded finding (`sparse-det-degenerate-sequence-panic`), for every modulus in
the domain and every length: `[a, 0, ..., 0]` with `0 < a < p`. -/
theorem bm_panic_single_term (p : ℕ) (hp : p.Prime) (hodd : p % 2 = 1) (hlt : p < 2 ^ 63)
    (a k : ℕ) (ha : 0 < a) (hap : a < p) : bm p (a :: List.replicate k 0) = none := by
  rw [bm_no_panic_iff p hp hodd hlt]
  · right; left
    refine ⟨by simp; omega, fun i hi => ?_⟩
    obtain ⟨i', rfl⟩ : ∃ i', i = i' + 1 := ⟨i - 1, by omega⟩
    simp only [List.getD_cons_succ]
    rw [List.getD_eq_getElem?_getD, List.getElem?_replicate]
    split <;> simp
  · intro x hx
    rcases List.mem_cons.mp hx with rfl | hx
    · exact hap
    · rw [List.eq_of_mem_replicate hx]; exact hp.pos

/-- witness for the third class (the `FIXME: divide by x^v??`), for every modulus in the domain:
`1,0,0,1` has no connection polynomial on the window (`c_0 + c_3 ≡ 0` and `c_3 ≡ 0`), the run ends
with `u = x`, `f = x` and the assertion `u[0] != 0` fails. The function never returns a shifted
recurrence: it panics. -/
theorem bm_panic_zero_constant_term (p : ℕ) (hp : p.Prime) (hodd : p % 2 = 1) (hlt : p < 2 ^ 63) :
    bm p [1, 0, 0, 1] = none := by
  rw [bm_no_panic_iff p hp hodd hlt]
  · right; right
    refine ⟨⟨0, 3, by decide, by decide, by decide⟩, ?_⟩
    rintro ⟨c, c0, c1, c2⟩
    have h3 := c2 3 (by decide) (by decide)
    have hc3 := c1 3 (by decide)
    have e : convAt c [1, 0, 0, 1] 3 = c.getD 0 0 + c.getD 3 0 := by
      simp [convAt, List.range_succ]
    rw [e, Nat.add_mod, hc3, Nat.add_zero, Nat.mod_mod] at h3
    exact c0 h3
  · intro x hx
    have : 1 < p := hp.one_lt
    simp only [List.mem_cons, List.mem_nil_iff, or_false] at hx
    omega

/-- the same witness evaluated on the model, both variants -/
example : bm 7 [1, 0, 0, 1] = none ∧ bm 65537 [1, 0, 0, 1] = none ∧ bmBig 7 [1, 0, 0, 1] = none := by
  decide +kernel

/-! ### (d) non-vacuity -/

/-- Fibonacci modulo 7: `1 - x - x²`. -/
example : bm 7 [1, 1, 2, 3, 5, 1] = some [1, 6, 6, 0, 0, 0] := by decide +kernel

/-- a sequence ending in zeros (the case repaired by /repo c49b2c6), both variants -/
example : bm 1000003 [1, 0, 999990, 0, 117, 0] = some [1, 0, 9, 0, 0, 0] ∧
    bmBig 1000003 [1, 0, 999990, 0, 117, 0] = some [1, 0, 9, 0, 0, 0] := by decide +kernel

/-- the zero sequence and a monomial: empty vector -/
example : bm 7 [0, 0, 0] = some [] ∧ bm 7 [0, 1, 0, 0] = some [] := by decide +kernel

/-- a geometric sequence `3^k mod 7`: `1 - 3x` -/
example : bm 7 [1, 3, 2, 6] = some [1, 4, 0, 0] := by decide +kernel

/-- the hypotheses of `bm_sound` / `bm_no_panic_recurrence` are satisfiable -/
example : Nat.Prime 7 ∧ 7 % 2 = 1 ∧ 7 < 2 ^ 63 ∧ (∀ x ∈ [1, 1, 2, 3, 5, 1], x < 7) ∧
    TwoTerms [1, 1, 2, 3, 5, 1] ∧ convAt [1, 6, 6] [1, 1, 2, 3, 5, 1] 4 % 7 = 0 :=
  ⟨by decide, by decide, by decide, by decide, ⟨0, 1, by decide, by decide, by decide⟩, by decide⟩

end Ymq.C19BM
