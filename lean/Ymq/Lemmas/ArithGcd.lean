import Ymq.Lemmas.Arith
import Mathlib.Data.Int.GCD
import Mathlib.Data.Nat.GCD.Basic
import Mathlib.Tactic.LinearCombination

namespace Ymq.Arith

/-! ### inv_mod64: extended Euclid on i128 -/

/-- 2^64, the bound of every operand -/
def M64 : Int := 18446744073709551616

theorem chk128_of_bound {x : Int} (h1 : -M64 ≤ x) (h2 : x ≤ M64) : chk128 x = some x := by
  unfold chk128 I128MIN I128MAX
  unfold M64 at h1 h2
  rw [if_pos (by constructor <;> omega)]

/-- invariant of one Bézout coefficient pair `(c0, c1)` against remainders `(a0, a1)`:
alternating signs and `|c1|·a0 + |c0|·a1 = m`. -/
def CI (c0 c1 : Int) (a0 a1 m : Nat) : Prop :=
  ∃ ε : Int, (ε = 1 ∨ ε = -1) ∧ 0 ≤ ε * c1 ∧ ε * c0 ≤ 0 ∧ ε * (c1 * a0 - c0 * a1) = m

theorem CI.step {c0 c1 : Int} {a0 a1 m : Nat} (h : CI c0 c1 a0 a1 m) (ha0 : 1 ≤ a0) :
    CI (c1 - ((a1 / a0 : Nat) : Int) * c0) c0 (a1 % a0) a0 m ∧
    -(m : Int) ≤ ((a1 / a0 : Nat) : Int) * c0 ∧ ((a1 / a0 : Nat) : Int) * c0 ≤ m ∧
    -(m : Int) ≤ c1 - ((a1 / a0 : Nat) : Int) * c0 ∧ c1 - ((a1 / a0 : Nat) : Int) * c0 ≤ m := by
  obtain ⟨ε, hε, h1, h0, hm⟩ := h
  unfold CI
  have hdm : (a1 : Int) = (a0 : Int) * ((a1 / a0 : Nat) : Int) + ((a1 % a0 : Nat) : Int) := by
    exact_mod_cast (Nat.div_add_mod a1 a0).symm
  have hq : (0 : Int) ≤ ((a1 / a0 : Nat) : Int) := Int.natCast_nonneg _
  have hr : (0 : Int) ≤ ((a1 % a0 : Nat) : Int) := Int.natCast_nonneg _
  have ha : (1 : Int) ≤ (a0 : Int) := by exact_mod_cast ha0
  generalize ((a1 / a0 : Nat) : Int) = q at *
  generalize ((a1 % a0 : Nat) : Int) = r at *
  generalize (a0 : Int) = A0 at *
  generalize (a1 : Int) = A1 at *
  generalize (m : Int) = mm at *
  subst hdm
  rcases hε with rfl | rfl
  · simp only [one_mul] at h1 h0 hm
    have key : (c1 - q * c0) * A0 = mm + c0 * r := by rw [← hm]; ring
    have hc0r : c0 * r ≤ 0 := mul_nonpos_of_nonpos_of_nonneg h0 hr
    have hqc0 : q * c0 ≤ 0 := mul_nonpos_of_nonneg_of_nonpos hq h0
    have hnew : 0 ≤ c1 - q * c0 := by linarith
    have hle : c1 - q * c0 ≤ mm := by nlinarith
    refine ⟨⟨-1, Or.inr rfl, by linarith, by linarith, by rw [← hm]; ring⟩, by linarith, by linarith, by linarith, hle⟩
  · have h1' : c1 ≤ 0 := by linarith
    have h0' : 0 ≤ c0 := by linarith
    have key : (q * c0 - c1) * A0 = mm - c0 * r := by rw [← hm]; ring
    have hc0r : 0 ≤ c0 * r := mul_nonneg h0' hr
    have hqc0 : 0 ≤ q * c0 := mul_nonneg hq h0'
    have hnew : 0 ≤ q * c0 - c1 := by linarith
    have hle : q * c0 - c1 ≤ mm := by nlinarith
    refine ⟨⟨1, Or.inl rfl, by linarith, by linarith, by rw [← hm]; ring⟩, by linarith, by linarith, by linarith, by linarith⟩

/-- |c1| ≤ m as soon as `a0 ≥ 1` -/
theorem CI.bound1 {c0 c1 : Int} {a0 a1 m : Nat} (h : CI c0 c1 a0 a1 m) (ha0 : 1 ≤ a0) :
    -(m : Int) ≤ c1 ∧ c1 ≤ m := by
  obtain ⟨ε, hε, h1, h0, hm⟩ := h
  have ha : (1 : Int) ≤ (a0 : Int) := by exact_mod_cast ha0
  have ha1 : (0 : Int) ≤ (a1 : Int) := Int.natCast_nonneg _
  generalize (a0 : Int) = A0 at *
  generalize (a1 : Int) = A1 at *
  generalize (m : Int) = mm at *
  rcases hε with rfl | rfl
  · simp only [one_mul] at h1 h0 hm
    have : 0 ≤ -c0 * A1 := mul_nonneg (by linarith) ha1
    constructor <;> nlinarith
  · have h1' : c1 ≤ 0 := by linarith
    have h0' : 0 ≤ c0 := by linarith
    have : 0 ≤ c0 * A1 := mul_nonneg h0' ha1
    constructor <;> nlinarith

structure EInv (n p : Nat) (s0 s1 t0 t1 : Int) (a0 a1 : Nat) : Prop where
  e0 : (a0 : Int) = s0 * n + t0 * p
  e1 : (a1 : Int) = s1 * n + t1 * p
  g : Nat.gcd a0 a1 = Nat.gcd n p
  cs : CI s0 s1 a0 a1 p
  ct : CI t0 t1 a0 a1 n
  b0 : a0 < 2 ^ 64
  b1 : a1 < 2 ^ 64
  bs0 : -(p : Int) ≤ s0 ∧ s0 ≤ p
  bs1 : -(p : Int) ≤ s1 ∧ s1 ≤ p
  bt0 : -M64 ≤ t0 ∧ t0 ≤ M64

theorem subMul_eq {a q b : Int} (h1 : -M64 ≤ q * b) (h2 : q * b ≤ M64) (h3 : -M64 ≤ a - q * b)
    (h4 : a - q * b ≤ M64) : subMul a q b = some (a - q * b) := by
  unfold subMul
  rw [chk128_of_bound h1 h2]
  simp only []
  exact chk128_of_bound h3 h4

theorem egcdLoop_spec (n p : Nat) (hn : n < 2 ^ 64) (hp : p < 2 ^ 64) :
    ∀ (f : Nat) (s0 s1 t0 t1 : Int) (a0 a1 : Nat), EInv n p s0 s1 t0 t1 a0 a1 → a0 + 1 ≤ f →
    ∃ x y : Int, egcdLoop f s0 s1 t0 t1 a0 a1 = some (((Nat.gcd n p : Nat) : Int), x, y) ∧
      ((Nat.gcd n p : Nat) : Int) = x * n + y * p ∧ -(p : Int) ≤ x ∧ x ≤ p := by
  have hnM : (n : Int) < M64 := by unfold M64; exact_mod_cast hn
  have hpM : (p : Int) < M64 := by unfold M64; exact_mod_cast hp
  intro f
  induction f with
  | zero => intro s0 s1 t0 t1 a0 a1 _ hf; omega
  | succ f ih =>
    intro s0 s1 t0 t1 a0 a1 h hf
    unfold egcdLoop
    by_cases h0 : a0 = 0
    · subst h0
      rw [if_pos (by simp)]
      have hg := h.g
      rw [Nat.gcd_zero_left] at hg
      refine ⟨s1, t1, by rw [hg], by rw [← hg]; exact h.e1, h.bs1.1, h.bs1.2⟩
    · rw [if_neg (by exact_mod_cast h0)]
      have ha0 : 1 ≤ a0 := by omega
      rw [if_neg (by
        rintro ⟨_, h2⟩
        have : (0 : Int) ≤ (a0 : Int) := Int.natCast_nonneg _
        omega)]
      simp only []
      rw [Int.natCast_tdiv_eq_ediv, ← Int.natCast_ediv]
      obtain ⟨cs', s1a, s1b, s2a, s2b⟩ := h.cs.step ha0
      obtain ⟨ct', t1a, t1b, t2a, t2b⟩ := h.ct.step ha0
      have hq : ((a1 / a0 : Nat) : Int) * (a0 : Int) = ((a1 / a0 * a0 : Nat) : Int) := by push_cast; ring
      have hqa : a1 / a0 * a0 ≤ a1 := Nat.div_mul_le_self _ _
      have hrem : (a1 : Int) - ((a1 / a0 : Nat) : Int) * (a0 : Int) = ((a1 % a0 : Nat) : Int) := by
        have := Nat.div_add_mod a1 a0
        have h2 : (a1 : Int) = (a0 : Int) * ((a1 / a0 : Nat) : Int) + ((a1 % a0 : Nat) : Int) := by
          exact_mod_cast this.symm
        linarith
      have hb1 := h.b1
      have hmodlt : a1 % a0 < a0 := Nat.mod_lt _ (by omega)
      have hb0 := h.b0
      rw [subMul_eq (by rw [hq]; unfold M64; omega) (by rw [hq]; unfold M64; omega)
            (by rw [hrem]; unfold M64; omega) (by rw [hrem]; unfold M64; omega),
          subMul_eq (by linarith) (by linarith) (by linarith) (by linarith),
          subMul_eq (by linarith) (by linarith) (by linarith) (by linarith)]
      simp only []
      rw [hrem]
      apply ih
      · constructor
        · -- e0'
          rw [← hrem, h.e1, h.e0]; ring
        · exact h.e0
        · rw [← h.g]; exact (Nat.gcd_rec a0 a1).symm
        · exact cs'
        · exact ct'
        · omega
        · exact h.b0
        · exact ⟨s2a, s2b⟩
        · exact h.bs0
        · exact ⟨by linarith, by linarith⟩
      · omega

theorem extendedGcd_spec (n p : Nat) (hn : n < 2 ^ 64) (hp : p < 2 ^ 64) (hp0 : 0 < p) :
    ∃ x y : Int, extendedGcd (n : Int) (p : Int) = some (((Nat.gcd n p : Nat) : Int), x, y) ∧
      ((Nat.gcd n p : Nat) : Int) = x * n + y * p ∧ -(p : Int) ≤ x ∧ x ≤ p := by
  have hinit : EInv n p 0 1 1 0 p n := by
    constructor
    · ring
    · ring
    · exact Nat.gcd_comm _ _
    · exact ⟨1, Or.inl rfl, by norm_num, by norm_num, by ring⟩
    · exact ⟨-1, Or.inr rfl, by norm_num, by norm_num, by ring⟩
    · exact hp
    · exact hn
    · constructor <;> omega
    · constructor <;> omega
    · unfold M64; constructor <;> norm_num
  obtain ⟨x, y, h1, h2, h3, h4⟩ := egcdLoop_spec n p hn hp (p + 2) 0 1 1 0 p n hinit (by omega)
  refine ⟨x, y, ?_, h2, h3, h4⟩
  unfold extendedGcd
  rw [Int.natAbs_natCast, h1]
  simp only []
  rw [if_pos (Int.natCast_nonneg _)]

/-- `inv_mod64` on the whole `u64 × u64` domain (p > 0) -/
theorem invMod64_spec (n p : Nat) (hn : n < 2 ^ 64) (hp : p < 2 ^ 64) (hp0 : 0 < p) :
    (Nat.gcd n p = 1 → ∃ r, invMod64 n p = some (some r) ∧ r < p ∧ n * r % p = 1 % p) ∧
    (Nat.gcd n p ≠ 1 → invMod64 n p = some none) := by
  obtain ⟨x, y, h1, h2, h3, h4⟩ := extendedGcd_spec n p hn hp hp0
  constructor
  · intro hg
    unfold invMod64
    rw [h1]
    simp only []
    rw [hg] at h2 ⊢
    rw [if_pos (by norm_num)]
    have hpM : (p : Int) < M64 := by unfold M64; exact_mod_cast hp
    -- the normalised coefficient
    obtain ⟨x', hx', hx0, hxp, k, hk⟩ : ∃ x' : Int,
        (if x < 0 then chk128 (x + (p : Int)) else some x) = some x' ∧ 0 ≤ x' ∧ x' ≤ p ∧
        ∃ k : Int, x' = x + k * p := by
      by_cases hneg : x < 0
      · rw [if_pos hneg, chk128_of_bound (by linarith) (by linarith)]
        exact ⟨_, rfl, by linarith, by linarith, 1, by ring⟩
      · rw [if_neg hneg]
        exact ⟨_, rfl, by linarith, h4, 0, by ring⟩
    rw [hx']
    simp only []
    rw [if_neg (by omega), if_neg (by omega)]
    have hlt : x'.toNat % p < p := Nat.mod_lt _ hp0
    have htn : x'.toNat < 2 ^ 128 := by
      have : (x'.toNat : Int) = x' := Int.toNat_of_nonneg hx0
      have : (x'.toNat : Int) < M64 := by linarith
      unfold M64 at this
      omega
    have hres : x'.toNat % 2 ^ 128 % p % 2 ^ 64 = x'.toNat % p := by
      rw [Nat.mod_eq_of_lt htn, Nat.mod_eq_of_lt (by omega : x'.toNat % p < 2 ^ 64)]
    rw [hres]
    refine ⟨_, rfl, hlt, ?_⟩
    -- n * r ≡ 1 (mod p), computed in Int
    have hcast : (((n * (x'.toNat % p) % p : Nat)) : Int) = ((1 % p : Nat) : Int) := by
      push_cast
      rw [Int.toNat_of_nonneg hx0, Int.mul_emod, Int.emod_emod_of_dvd _ (dvd_refl _), ← Int.mul_emod]
      have : (n : Int) * x' = 1 + (p : Int) * (n * k - y) := by
        rw [hk]
        have : (1 : Int) = x * n + y * p := by exact_mod_cast h2
        linear_combination (-1 : Int) * this
      rw [this, Int.add_mul_emod_self_left]
    exact_mod_cast hcast
  · intro hg
    unfold invMod64
    rw [h1]
    simp only []
    rw [if_neg (by exact_mod_cast hg)]

end Ymq.Arith
