/-
Model of the Wiedemann determinant pipeline of src/matrix/intsparse.rs (the callers of
`berlekamp_massey`): `SparseMat::new` (135-170), `mulp` (176-216), `detz` without thread pool
(257-322), `norm` (330-350), `select_crtprimes` (352-371), `detp4` / `_detp4` (375-425).
`crt` / `_crt` are already modelled: `Ymq.IntMat.crtSparse` (Ymq/Model/IntMat.lean).

Conventions as everywhere: words are `Nat`, signed accumulators are `Int` with an explicit range
check where the checked profile checks (`none` = panic: assert, index out of range, overflow in
the checked profile, `unwrap`, `unreachable!()`, division by zero); loops without an a-priori
bound take fuel.

Representation. A `SparseMat` is kept as the validated list of rows `(column, coefficient)`;
the three CSR arrays (`+1`, `-1`, other coefficients) only matter through the *order* in which a
row is accumulated — all `+1` entries, then all `-1` entries, then the others, each group in
input order — and the model accumulates in that order, because the `i64` overflow checks of the
checked profile depend on it. The `N` lanes of `mulp` (one modulus each) never interact: the
model computes one lane at a time (`mulpLane`); a panic in any lane is a panic of the call.
The `unsafe get_unchecked` reads are in range by the asserts of `new` (column `< size`) and of
`mulp` (`v.len() == size`); `out` has `size` entries at both call sites.
No Mathlib import: linked into the native driver.
-/
import Ymq.Model.BerlekampMassey
import Ymq.Model.IntMat

namespace Ymq.Wied

abbrev Row := List (Nat × Int)
abbrev Mat := List Row

/-- 2^63 -/
def I63 : Int := 9223372036854775808
/-- 2^64 -/
def W : Nat := 18446744073709551616

/-- range check of an `i64` operation in the checked profile -/
def chkI64 (z : Int) : Option Int := if -I63 ≤ z ∧ z < I63 then some z else none

/-- `x as i64` for a `u64` -/
def asI64 (x : Nat) : Int := if (x : Int) < I63 then (x : Int) else (x : Int) - (W : Int)

/-- `SparseMat::new(rows)`: the three asserts -/
def mkMat (rows : Mat) : Option Mat :=
  if rows.length ≥ 65536 then none                      -- assert!(size < 1 << 16)
  else if rows.all (fun r => r.all (fun je =>
      decide (je.1 < rows.length) &&                      -- assert!((j as usize) < size)
      decide (-32768 ≤ je.2) && decide (je.2 ≤ 32767)))   -- assert!(i16::try_from(e).is_ok())
    then some rows else none

/-- one of the three accumulation loops of a row (lines 183-189, 192-198, 203-209): the entries
selected by `sel` (in input order) add `term (v[j]) e` to the `i64` accumulator, with the overflow
check of the checked profile on the addition (`x -= a` is the same check as `x + (-a)` over ℤ) -/
def accPass (sel : Int → Bool) (term : Nat → Int → Option Int) (col : Nat → Nat) :
    Row → Int → Option Int
  | [], x => some x
  | (j, e) :: r, x =>
    if sel e then
      match term (col j) e with
      | none => none
      | some t =>
        match chkI64 (x + t) with
        | none => none
        | some x' => accPass sel term col r x'
    else accPass sel term col r x

/-- `x[k] += vj[k] as i64` over the `+1` entries -/
def accP1 := accPass (fun e => e == 1) (fun a _ => some (asI64 a))
/-- `x[k] -= vj[k] as i64` over the `-1` entries -/
def accM1 := accPass (fun e => e == -1) (fun a _ => some (-asI64 a))
/-- `x[k] += mij as i64 * vj[k] as i64` over the other entries (the product is checked too) -/
def accX := accPass (fun e => e != 1 && e != -1) (fun a e => chkI64 (e * asI64 a))

/-- `x.rem_euclid(p as i64) as u64` (line 212) -/
def remEuclid (x : Int) (p : Nat) : Option Nat :=
  let q := asI64 p
  if q = 0 then none                                     -- division by zero
  else if x = -I63 ∧ q = -1 then none                    -- i64::MIN % -1 overflows
  else some (x % q).toNat                                -- Int `%` is the Euclidean remainder

/-- one row, one lane of `mulp` -/
def rowLane (col : Nat → Nat) (p : Nat) (r : Row) : Option Nat :=
  match accP1 col r 0 with
  | none => none
  | some x1 =>
    match accM1 col r x1 with
    | none => none
    | some x2 =>
      match accX col r x2 with
      | none => none
      | some x3 => remEuclid x3 p

/-- one lane of `mulp(p, v, out)`: `v` is the lane's vector -/
def mulpLane (m : Mat) (p : Nat) (v : List Nat) : Option (List Nat) :=
  if v.length ≠ m.length then none                       -- assert!(v.len() == self.size)
  else m.mapM (rowLane (fun j => v.getD j 0) p)

/-- sum of `f` over the entries of a row selected by `sel` -/
def sumSel (sel : Int → Bool) (f : Nat × Int → Int) : Row → Int
  | [] => 0
  | je :: r => (if sel je.2 then f je else 0) + sumSel sel f r

/-- `pos` of `norm()` for one row: the number of `+1` entries plus the sum of the other positive
coefficients -/
def posW (r : Row) : Int := sumSel (fun _ => true) (fun je => if 0 < je.2 then je.2 else 0) r
/-- `neg` of `norm()` for one row -/
def negW (r : Row) : Int := sumSel (fun _ => true) (fun je => if je.2 < 0 then -je.2 else 0) r

/-- `norm()`: the maximum of `max(pos, neg)` over the rows. The `i64` sums cannot overflow: the CSR
offsets are `u32`, so a matrix has fewer than 2^32 entries, each of absolute value at most 2^15. -/
def norm (m : Mat) : Nat := m.foldl (fun acc r => max acc (max (posW r) (negW r)).toNat) 0

/-- the loop of `select_crtprimes`: `while moduli.len() < want { if isprime64(p) { push }; p -= 30 }` -/
def primesLoop (isprime : Nat → Option Bool) (want : Nat) : Nat → Nat → List Nat → Option (List Nat)
  | 0, _, _ => none                                      -- fuel
  | f + 1, p, acc =>
    if acc.length ≥ want then some acc.reverse
    else
      match isprime p with
      | none => none
      | some b =>
        if p < 30 then none                              -- p -= 30 underflows
        else primesLoop isprime want f (p - 30) (if b then p :: acc else acc)

def primeFuel : Nat := 4000000

/-- `select_crtprimes()` -/
def selectPrimes (isprime : Nat → Option Bool) (m : Mat) : Option (List Nat) :=
  let nm := norm m
  if nm = 0 then none                                    -- (1 << 63) / norm
  else
    let bound := I63.toNat / nm
    if 30 * (bound / 30) < 1 then none                   -- - 1 underflows
    else
      let p := 30 * (bound / 30) - 1
      if p * nm ≥ W then none                            -- p * norm overflows (debug_assert operand)
      else if p * nm ≥ I63.toNat then none               -- debug_assert!(p * norm < 1 << 63)
      else primesLoop isprime (max m.length 8) primeFuel p []

/-- the start vector of `_detp4` / `ker_pbig`: Fibonacci numbers modulo 65537 -/
def startVec : Nat → Nat → Nat → List Nat
  | 0, _, _ => []
  | n + 1, x, y => ((x + y) % 65537) :: startVec n y ((x + y) % 65537)

/-- the Krylov loop of `_detp4` for one lane: `seq.push(v[0])`, stop at `2 * size` terms,
otherwise `v = M v` -/
def krylov (m : Mat) (p : Nat) : Nat → List Nat → List Nat → Option (List Nat)
  | 0, _, _ => none
  | f + 1, v, seq =>
    match v[0]? with
    | none => none                                       -- v[0] on an empty vector (size 0)
    | some v0 =>
      let seq' := v0 :: seq
      if seq'.length = 2 * m.length then some seq'.reverse
      else
        match mulpLane m p v with
        | none => none
        | some w => krylov m p f w seq'

/-- one lane of `_detp4` after the Krylov loop: Berlekamp–Massey, `charpoly[size]`, sign -/
def laneDet (size p : Nat) (seq : List Nat) : Option Nat :=
  match Ymq.BM.bm p seq with
  | none => none
  | some charpoly =>
    match charpoly[size]? with
    | none => none                                       -- charpoly[self.size]
    | some c0 =>
      if size % 2 = 1 ∧ c0 ≠ 0 then
        (if p < c0 then none else some (p - c0))         -- p[k] - c0
      else some c0

/-- `detp4(p)` (= `_detp4(p, None).unwrap()`), for any number of lanes: all Krylov sequences
first, then the lanes in order -/
def detp (m : Mat) (ps : List Nat) : Option (List Nat) := do
  let seqs ← ps.mapM (fun p => krylov m p (2 * m.length + 1) (startVec m.length 0 1) [])
  (ps.zip seqs).mapM (fun ps => laneDet m.length ps.1 ps.2)

/-- the sequential loop of `detz` (lines 303-320): `mods` = remaining moduli -/
def detzLoop (inv : Ymq.IntMat.Inv) (m : Mat) : Nat → List Nat → List Nat → List Nat → Int → Option Int
  | 0, _, _, _, _ => none
  | f + 1, mods, modp, ps, det =>
    match mods with
    | p0 :: p1 :: p2 :: p3 :: rest =>
      match detp m [p0, p1, p2, p3] with
      | none => none
      | some d =>
        let modp' := modp ++ d
        let ps' := ps ++ [p0, p1, p2, p3]
        match Ymq.IntMat.crtSparse inv modp' ps' with
        | none => none
        | some det' => if det ≠ det' then detzLoop inv m f rest modp' ps' det' else some det
    | _ => none                                          -- unreachable!()

/-- `detz(None)` -/
def detz (isprime : Nat → Option Bool) (inv : Ymq.IntMat.Inv) (m : Mat) : Option Int := do
  let moduli ← selectPrimes isprime m
  detzLoop inv m (moduli.length + 1) moduli [] [] 0

end Ymq.Wied
