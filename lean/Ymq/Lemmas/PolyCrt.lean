/-
SIQS (C12): the CRT basis of `prepare_a`. Every combination of the chosen roots squares to `n`
modulo `A`; for type 2 polynomials (`A` odd) it is odd and squares to `n` modulo `4A` (parity rule).
-/
import Ymq.Lemmas.PolySiqsExact
import Mathlib.Algebra.BigOperators.Group.List.Basic
import Mathlib.Data.Nat.GCD.BigOperators
import Mathlib.RingTheory.Coprime.Lemmas
namespace Ymq.PolyCrt
open Ymq.SiqsPoly Ymq.PolyInv Ymq.PolySiqs

/-! ### the table of inverses -/

theorem mkInverses_spec {sel : List Prime} {tbl : List (List Nat)} (h : mkInverses sel = some tbl)
    (i j : Nat) (hi : i < sel.length) (hj : j < sel.length) :
    ∃ row v, tbl[i]? = some row ∧ row[j]? = some v ∧
      (sel[i].p ≠ sel[j].p → invMod sel[i].p sel[j].p = some v) := by
  unfold mkInverses at h
  obtain ⟨hl, hget⟩ := allSome_getElem h
  have hi' : i < tbl.length := by rw [← hl]; simpa using hi
  have hrow := hget i (by simpa using hi) hi'
  simp only [List.getElem_map] at hrow
  obtain ⟨hl2, hget2⟩ := allSome_getElem hrow
  have hj' : j < tbl[i].length := by rw [← hl2]; simpa using hj
  have hv := hget2 j (by simpa using hj) hj'
  simp only [List.getElem_map] at hv
  refine ⟨tbl[i], tbl[i][j], List.getElem?_eq_getElem hi', List.getElem?_eq_getElem hj', ?_⟩
  intro hne
  rw [if_neg hne] at hv
  exact hv

/-! ### the CRT basis -/

/-- the primes of the other factors -/
def others (idx : Nat) (l : List (Nat × Prime)) : List Nat :=
  (l.filter fun jq => jq.1 != idx).map (·.2.p)

/-- every entry of `afs` whose index differs from `idx` has an inverse in the table -/
def InvOk (f : Factors) (idx p : Nat) (l : List (Nat × Prime)) : Prop :=
  ∀ jq ∈ l, jq.1 ≠ idx → ∃ row v, f.inverses[jq.1]? = some row ∧ row[idx]? = some v ∧ v * jq.2.p % p = 1

theorem crtLoop_spec {f : Factors} {idx p : Nat} (hp1 : 1 < p) :
    ∀ (l : List (Nat × Prime)) (c inv c' inv' : Nat), InvOk f idx p l →
      crtLoop f idx p l c inv = some (c', inv') →
      c' = c * (others idx l).prod ∧ c' * inv' % p = c * inv % p := by
  intro l
  induction l with
  | nil =>
    intro c inv c' inv' _ h
    simp only [crtLoop, Option.some.injEq, Prod.mk.injEq] at h
    obtain ⟨rfl, rfl⟩ := h
    simp [others]
  | cons x xs ih =>
    intro c inv c' inv' hok h
    obtain ⟨jdx, q⟩ := x
    have hok' : InvOk f idx p xs := fun jq hm hne => hok jq (List.mem_cons_of_mem _ hm) hne
    by_cases hj : jdx = idx
    · subst hj
      simp only [crtLoop, ne_eq, not_true_eq_false, if_false] at h
      obtain ⟨h1, h2⟩ := ih c inv c' inv' hok' h
      refine ⟨?_, h2⟩
      rw [h1]; simp [others]
    · obtain ⟨row, v, hrow, hv, hinv⟩ := hok (jdx, q) (List.mem_cons_self) hj
      simp only [crtLoop, ne_eq, hj, not_false_eq_true, if_true, hrow, hv] at h
      have hp0 : p ≠ 0 := by omega
      simp only [hp0, if_false] at h
      obtain ⟨h1, h2⟩ := ih (c * q.p) (inv * v % p) c' inv' hok' h
      constructor
      · rw [h1]
        simp only [others, List.filter_cons]
        have : ((jdx, q).1 != idx) = true := by simpa using hj
        rw [if_pos this]
        simp only [List.map_cons, List.prod_cons]; ring
      · rw [h2]
        have e : c * q.p * (inv * v % p) % p = (c * inv) * (v * q.p) % p := by
          rw [Nat.mul_mod, Nat.mod_mod, ← Nat.mul_mod]; congr 1; ring
        rw [e, Nat.mul_mod, hinv, Nat.mul_one, Nat.mod_mod]

/-- what each CRT pair satisfies -/
structure PairOk (n : Int) (a c p : Nat) (i : Nat) (pr : Nat × Nat) : Prop where
  dvd1 : c ∣ pr.1
  dvd2 : c ∣ pr.2
  sq1 : (pr.1 : Int) * pr.1 ≡ n [ZMOD p]
  sq2 : (pr.2 : Int) * pr.2 ≡ n [ZMOD p]
  par0 : a % 2 = 1 → i = 0 → pr.1 % 2 = 1 ∧ pr.2 % 2 = 1
  par1 : a % 2 = 1 → i ≠ 0 → pr.1 % 2 = 0 ∧ pr.2 % 2 = 0

theorem rootPair_ok {n : Int} {a i : Nat} {fp : Prime} {c inv : Nat} {pr : Nat × Nat}
    (hac : a = fp.p * c) (hci : c * inv % fp.p = 1) (hsq : (fp.r : Int) * fp.r ≡ n [ZMOD fp.p])
    (h : rootPair a i fp c inv = some pr) : PairOk n a c fp.p i pr := by
  unfold rootPair at h
  split at h
  · cases h
  · rename_i hp0
    dsimp only at h
    set R := fp.r * inv % fp.p * c with hR
    -- R ≡ r (mod p), R² ≡ n
    have hRmod : (R : Int) ≡ (fp.r : Int) [ZMOD fp.p] := by
      have : R % fp.p = fp.r % fp.p := by
        rw [hR, Nat.mul_mod, Nat.mod_mod, ← Nat.mul_mod, Nat.mul_assoc, Nat.mul_comm inv c,
          Nat.mul_mod, hci, Nat.mul_one, Nat.mod_mod]
      exact Int.natCast_modEq_iff.mpr this
    have hRsq : (R : Int) * R ≡ n [ZMOD fp.p] := (hRmod.mul hRmod).trans hsq
    have hpa : ((fp.p : Nat) : Int) ∣ (a : Int) := by rw [hac]; push_cast; exact Dvd.intro _ rfl
    have hcR : c ∣ R := Dvd.intro_left _ rfl
    have hca : c ∣ a := by rw [hac]; exact Dvd.intro_left _ rfl
    -- squares of a ± R, 2a − R
    have sq_of : ∀ (r : Nat) (t : Int), (r : Int) = t * a + R ∨ (r : Int) = t * a - R →
        (r : Int) * r ≡ n [ZMOD fp.p] := by
      intro r t hrt
      have : (r : Int) * r ≡ (R : Int) * R [ZMOD fp.p] := by
        apply Int.modEq_iff_dvd.mpr
        obtain ⟨k, hk⟩ := hpa
        rcases hrt with e | e
        · refine ⟨-(t * k * (t * a + 2 * R)), ?_⟩
          rw [e, hk]; ring
        · refine ⟨-(t * k * (t * a - 2 * R)), ?_⟩
          rw [e, hk]; ring
      exact this.trans hRsq
    split at h
    · rename_i hpar
      split at h
      · cases h
      · rename_i hle
        injection h with h; subst h
        have hle' : R ≤ a := by omega
        refine ⟨(Nat.dvd_sub hca hcR), Nat.dvd_add hca hcR, ?_, ?_, ?_, ?_⟩
        · exact sq_of _ 1 (Or.inr (by push_cast [Nat.cast_sub hle']; ring))
        · exact sq_of _ 1 (Or.inl (by push_cast; ring))
        · intro ha hi
          simp only [hi, beq_self_eq_true, bne_iff_ne, ne_eq] at hpar
          have : R % 2 = 0 := by
            by_contra hc
            have : (R % 2 == 1) = true := by simp; omega
            rw [this] at hpar; simp at hpar
          simp only; omega
        · intro ha hi
          have hi' : (i == 0) = false := by simpa using hi
          simp only [hi', bne_iff_ne, ne_eq] at hpar
          have : R % 2 = 1 := by
            by_contra hc
            have : (R % 2 == 1) = false := by simp; omega
            rw [this] at hpar; simp at hpar
          simp only; omega
    · rename_i hpar
      split at h
      · cases h
      · rename_i hle
        split at h
        · injection h with h; subst h
          have hle' : R ≤ 2 * a := by omega
          refine ⟨hcR, Nat.dvd_sub (Dvd.dvd.mul_left hca 2) hcR, ?_, ?_, ?_, ?_⟩
          · exact sq_of _ 0 (Or.inl (by ring))
          · exact sq_of _ 2 (Or.inr (by push_cast [Nat.cast_sub hle']; ring))
          · intro ha hi
            simp only [hi, beq_self_eq_true, bne_iff_ne, ne_eq, not_not] at hpar
            have : R % 2 = 1 := by
              by_contra hc
              have : (R % 2 == 1) = false := by simp; omega
              rw [this] at hpar; simp at hpar
            simp only; omega
          · intro ha hi
            have hi' : (i == 0) = false := by simpa using hi
            simp only [hi', bne_iff_ne, ne_eq, not_not] at hpar
            have : R % 2 = 0 := by
              by_contra hc
              have : (R % 2 == 1) = true := by simp; omega
              rw [this] at hpar; simp at hpar
            simp only; omega
        · cases h

/-! ### lists -/

theorem mem_withIdx {α} : ∀ (l : List α) (k j : Nat) (x : α),
    (j, x) ∈ withIdx k l ↔ ∃ (i : Nat) (h : i < l.length), j = k + i ∧ x = l[i] := by
  intro l
  induction l with
  | nil => intro k j x; simp [withIdx]
  | cons y ys ih =>
    intro k j x
    simp only [withIdx, List.mem_cons, Prod.mk.injEq, ih, List.length_cons]
    constructor
    · rintro (⟨rfl, rfl⟩ | ⟨i, hi, rfl, rfl⟩)
      · exact ⟨0, by omega, rfl, rfl⟩
      · exact ⟨i + 1, by omega, by omega, rfl⟩
    · rintro ⟨i, hi, rfl, rfl⟩
      cases i with
      | zero => left; exact ⟨rfl, rfl⟩
      | succ i => right; exact ⟨i, by omega, by omega, rfl⟩

theorem withIdx_fst_nodup {α} : ∀ (l : List α) (k : Nat), ((withIdx k l).map (·.1)).Nodup := by
  intro l
  induction l with
  | nil => intro k; simp [withIdx]
  | cons y ys ih =>
    intro k
    simp only [withIdx, List.map_cons, List.nodup_cons, List.mem_map, not_exists, not_and]
    refine ⟨?_, ih (k + 1)⟩
    rintro ⟨j, x⟩ hm
    obtain ⟨i, _, hj, _⟩ := (mem_withIdx ys (k + 1) j x).mp hm
    simp only; omega

theorem prod_split : ∀ (l : List (Nat × Prime)) (idx : Nat) (fp : Prime), (l.map (·.1)).Nodup →
    (idx, fp) ∈ l → (l.map (·.2.p)).prod = fp.p * (others idx l).prod := by
  intro l
  induction l with
  | nil => intro idx fp _ h; simp at h
  | cons x xs ih =>
    intro idx fp hnd hm
    obtain ⟨j, q⟩ := x
    simp only [List.map_cons, List.nodup_cons] at hnd
    rcases List.mem_cons.mp hm with heq | hm'
    · injection heq with h1 h2
      subst h1 h2
      have : others idx ((idx, fp) :: xs) = xs.map (·.2.p) := by
        simp only [others, List.filter_cons, bne_self_eq_false, Bool.false_eq_true, if_false]
        congr 1
        apply List.filter_eq_self.mpr
        intro y hy
        have : y.1 ≠ idx := fun he => hnd.1 (List.mem_map.mpr ⟨y, hy, he⟩)
        simpa using this
      rw [this]; simp
    · have hne : j ≠ idx := fun he => hnd.1 (List.mem_map.mpr ⟨(idx, fp), hm', he.symm⟩)
      have : others idx ((j, q) :: xs) = q.p :: others idx xs := by
        simp only [others, List.filter_cons]
        have : ((j, q).1 != idx) = true := by simpa using hne
        rw [if_pos this]; simp
      rw [this]
      simp only [List.map_cons, List.prod_cons]
      rw [ih idx fp hnd.2 hm']; ring

theorem prod_dvd_of_coprime : ∀ (ps : List Nat) (m : Int), ps.Pairwise Nat.Coprime →
    (∀ p ∈ ps, (p : Int) ∣ m) → ((ps.prod : Nat) : Int) ∣ m := by
  intro ps
  induction ps with
  | nil => intro m _ _; simp
  | cons p ps ih =>
    intro m hpw hd
    simp only [List.pairwise_cons] at hpw
    have h1 : (p : Int) ∣ m := hd p (List.mem_cons_self)
    have h2 : ((ps.prod : Nat) : Int) ∣ m := ih m hpw.2 (fun q hq => hd q (List.mem_cons_of_mem _ hq))
    have hc : Nat.Coprime p ps.prod := Nat.coprime_list_prod_right_iff.mpr hpw.1
    have hci : IsCoprime (p : Int) ((ps.prod : Nat) : Int) := Nat.isCoprime_iff_coprime.mpr hc
    simp only [List.prod_cons, Nat.cast_mul]
    exact hci.mul_dvd h1 h2

/-! ### the sum of the chosen roots -/

/-- `B` for the choice `g`: `Σ_j (if g j then r1ⱼ else r0ⱼ)` -/
def bsum (g : Nat → Bool) : Nat → List (Nat × Nat) → Nat
  | _, [] => 0
  | k, pr :: rest => (if g k then pr.2 else pr.1) + bsum g (k + 1) rest

theorem bsum_mod (p : Nat) (g : Nat → Bool) : ∀ (prs : List (Nat × Nat)) (k0 l : Nat) (hl : l < prs.length),
    (∀ j (hj : j < prs.length), j ≠ l → p ∣ prs[j].1 ∧ p ∣ prs[j].2) →
    bsum g k0 prs % p = (if g (k0 + l) then prs[l].2 else prs[l].1) % p := by
  intro prs
  induction prs with
  | nil => intro k0 l hl; simp at hl
  | cons pr rest ih =>
    intro k0 l hl hdiv
    simp only [bsum]
    cases l with
    | zero =>
      -- the tail is divisible
      have htail : ∀ (rs : List (Nat × Nat)) (k : Nat), (∀ x ∈ rs, p ∣ x.1 ∧ p ∣ x.2) → p ∣ bsum g k rs := by
        intro rs
        induction rs with
        | nil => intro k _; simp [bsum]
        | cons x xs ihx =>
          intro k hx
          simp only [bsum]
          apply Nat.dvd_add
          · have := hx x (List.mem_cons_self)
            split
            · exact this.2
            · exact this.1
          · exact ihx (k + 1) (fun y hy => hx y (List.mem_cons_of_mem _ hy))
      have : p ∣ bsum g (k0 + 1) rest := by
        apply htail
        intro x hx
        obtain ⟨j, hj, rfl⟩ := List.mem_iff_getElem.mp hx
        have := hdiv (j + 1) (by simp; omega) (by omega)
        simpa using this
      obtain ⟨t, ht⟩ := this
      simp only [Nat.add_zero, List.getElem_cons_zero]
      rw [ht, Nat.add_mul_mod_self_left]
    | succ l =>
      have hpr := hdiv 0 (by simp) (by omega)
      simp only [List.getElem_cons_zero] at hpr
      have h0 : p ∣ (if g k0 then pr.2 else pr.1) := by split; exact hpr.2; exact hpr.1
      obtain ⟨t, ht⟩ := h0
      have hl' : l < rest.length := by simpa using hl
      have := ih (k0 + 1) l hl' (by
        intro j hj hne
        have := hdiv (j + 1) (by simp; omega) (by omega)
        simpa using this)
      simp only [List.getElem_cons_succ]
      rw [ht, Nat.add_comm, Nat.add_mul_mod_self_left, this]
      have e : k0 + 1 + l = k0 + (l + 1) := by omega
      rw [e]

/-! ### assembly -/

/-- what `select_siqs_factors` provides: distinct primes with a square root of `n` -/
structure SelOk (n : Int) (sel : List Prime) : Prop where
  nodup : (sel.map (·.p)).Nodup
  prime : ∀ q ∈ sel, Nat.Prime q.p
  root : ∀ q ∈ sel, (q.r : Int) * q.r ≡ n [ZMOD q.p]

/-- what the CRT loop needs to know about one factor of `A` -/
structure ElemOk (f : Factors) (n : Int) (a : Nat) (afs : List (Nat × Prime)) (x : Nat × Prime) : Prop where
  one_lt : 1 < x.2.p
  inv : InvOk f x.1 x.2.p afs
  prod : a = x.2.p * (others x.1 afs).prod
  root : (x.2.r : Int) * x.2.r ≡ n [ZMOD x.2.p]

theorem rootPairs_ok {f : Factors} {n : Int} {a : Nat} {afs : List (Nat × Prime)} :
    ∀ (l : List (Nat × Prime)) (i : Nat) (prs : List (Nat × Nat)), (∀ x ∈ l, ElemOk f n a afs x) →
      rootPairs f a afs i l = some prs →
      prs.length = l.length ∧ ∀ k (hk : k < l.length) (hk' : k < prs.length),
        PairOk n a (others l[k].1 afs).prod l[k].2.p (i + k) prs[k] := by
  intro l
  induction l with
  | nil => intro i prs _ h; simp [rootPairs] at h; subst h; simp
  | cons x xs ih =>
    intro i prs hok h
    obtain ⟨idx, fp⟩ := x
    simp only [rootPairs, Option.bind_eq_bind] at h
    cases h1 : crtLoop f idx fp.p afs 1 1 with
    | none => simp [h1] at h
    | some ci =>
      obtain ⟨c, inv⟩ := ci
      simp only [h1, Option.bind_some] at h
      cases h2 : rootPair a i fp c inv with
      | none => simp [h2] at h
      | some pr =>
        simp only [h2, Option.bind_some] at h
        cases h3 : rootPairs f a afs (i + 1) xs with
        | none => simp [h3] at h
        | some tl =>
          simp only [h3, Option.bind_some, Option.some.injEq] at h
          subst h
          have ex := hok (idx, fp) (List.mem_cons_self)
          obtain ⟨hc, hci⟩ := crtLoop_spec ex.one_lt afs 1 1 c inv ex.inv h1
          have hc' : c = (others idx afs).prod := by rw [hc, Nat.one_mul]
          have hci' : c * inv % fp.p = 1 := by
            rw [hci]; exact Nat.mod_eq_of_lt ex.one_lt
          have hpr := rootPair_ok (n := n) (by rw [hc']; exact ex.prod) hci' ex.root h2
          obtain ⟨hl, hrest⟩ := ih (i + 1) tl (fun y hy => hok y (List.mem_cons_of_mem _ hy)) h3
          refine ⟨by simp [hl], ?_⟩
          intro k hk hk'
          cases k with
          | zero => simpa [hc'] using hpr
          | succ k =>
            have := hrest k (by simpa using hk) (by simpa using hk')
            simp only [List.getElem_cons_succ]
            have e : i + (k + 1) = i + 1 + k := by omega
            rw [e]; exact this

theorem afs_elem_ok {n : Int} {sel : List Prime} {f : Factors} {a : Nat} (hs : SelOk n sel)
    (hf : mkFactors n sel = some f) (ha : a = ((afsOf f a).map (·.2.p)).prod) :
    ((afsOf f a).map (·.1)).Nodup ∧ ((afsOf f a).map (·.2.p)).Pairwise Nat.Coprime ∧
    ∀ x ∈ afsOf f a, ElemOk f n a (afsOf f a) x := by
  -- unpack mkFactors
  unfold mkFactors at hf
  simp only [Option.bind_eq_bind] at hf
  cases htbl : mkInverses sel with
  | none => simp [htbl] at hf
  | some tbl =>
    simp only [htbl, Option.bind_some, Option.some.injEq] at hf
    subst hf
    have hsub : (afsOf { n := n, factors := sel, inverses := tbl } a).Sublist (withIdx 0 sel) := by
      unfold afsOf; exact List.filter_sublist
    set afs := afsOf { n := n, factors := sel, inverses := tbl } a with hafs
    have hnd : (afs.map (·.1)).Nodup := (withIdx_fst_nodup sel 0).sublist (hsub.map _)
    have hmem : ∀ x ∈ afs, ∃ (h : x.1 < sel.length), x.2 = sel[x.1] := by
      intro x hx
      obtain ⟨j, q⟩ := x
      obtain ⟨i, hi, hj, hq⟩ := (mem_withIdx sel 0 j q).mp (hsub.subset hx)
      simp only [Nat.zero_add] at hj
      subst hj
      exact ⟨hi, hq⟩
    have hpne : ∀ x ∈ afs, ∀ y ∈ afs, x.1 ≠ y.1 → x.2.p ≠ y.2.p := by
      intro x hx y hy hne heq
      obtain ⟨hxi, hxq⟩ := hmem x hx
      obtain ⟨hyi, hyq⟩ := hmem y hy
      rw [hxq, hyq] at heq
      have := (List.Nodup.getElem_inj_iff hs.nodup (i := x.1) (j := y.1)
        (hi := by simpa using hxi) (hj := by simpa using hyi)).mp (by simpa using heq)
      exact hne this
    refine ⟨hnd, ?_, ?_⟩
    · -- pairwise coprime
      have hpw : afs.Pairwise (fun x y => x.1 ≠ y.1) := by
        have := List.pairwise_map.mp (List.nodup_iff_pairwise_ne.mp hnd |> id)
        exact this
      rw [List.pairwise_map]
      refine List.Pairwise.imp_of_mem ?_ hpw
      intro x y hx hy hne
      obtain ⟨hxi, hxq⟩ := hmem x hx
      obtain ⟨hyi, hyq⟩ := hmem y hy
      have px : Nat.Prime x.2.p := by rw [hxq]; exact hs.prime _ (List.getElem_mem hxi)
      have py : Nat.Prime y.2.p := by rw [hyq]; exact hs.prime _ (List.getElem_mem hyi)
      exact (Nat.coprime_primes px py).mpr (hpne x hx y hy hne)
    · intro x hx
      obtain ⟨hxi, hxq⟩ := hmem x hx
      have px : Nat.Prime x.2.p := by rw [hxq]; exact hs.prime _ (List.getElem_mem hxi)
      refine ⟨px.one_lt, ?_, ?_, ?_⟩
      · intro y hy hne
        obtain ⟨hyi, hyq⟩ := hmem y hy
        obtain ⟨row, v, hrow, hv, hinv⟩ := mkInverses_spec htbl y.1 x.1 hyi hxi
        refine ⟨row, v, hrow, hv, ?_⟩
        have hpp : sel[y.1].p ≠ sel[x.1].p := by
          have := hpne y hy x hx hne
          rwa [hyq, hxq] at this
        obtain ⟨_, h2, _⟩ := invMod_some (by rw [← hxq]; exact px.pos) (hinv hpp)
        rw [hyq, hxq, Nat.mul_comm, h2]
        exact Nat.mod_eq_of_lt (by rw [← hxq]; exact px.one_lt)
      · rw [← prod_split afs x.1 x.2 hnd hx]; exact ha
      · rw [hxq]; exact hs.root _ (List.getElem_mem hxi)

theorem bsum_parity (g : Nat → Bool) : ∀ (prs : List (Nat × Nat)) (k : Nat), 0 < k →
    (∀ pr ∈ prs, pr.1 % 2 = 0 ∧ pr.2 % 2 = 0) → bsum g k prs % 2 = 0 := by
  intro prs
  induction prs with
  | nil => intro k _ _; simp [bsum]
  | cons x xs ih =>
    intro k hk h
    simp only [bsum]
    have hx := h x (List.mem_cons_self)
    have := ih (k + 1) (by omega) (fun y hy => h y (List.mem_cons_of_mem _ hy))
    split <;> omega

/-- the CRT combination of the chosen roots squares to `n` modulo `A`; for type 2 (with `A` odd) it is
odd and squares to `n` modulo `4A` -/
theorem crt_B_sq {n : Int} {sel : List Prime} {f : Factors} {a : Nat} {prs : List (Nat × Nat)}
    (hs : SelOk n sel) (hf : mkFactors n sel = some f) (ha : a = ((afsOf f a).map (·.2.p)).prod)
    (hprs : rootPairs f a (afsOf f a) 0 (afsOf f a) = some prs) (g : Nat → Bool) :
    (a : Int) ∣ (bsum g 0 prs : Int) * (bsum g 0 prs : Int) - n ∧
    (n % 4 = 1 → a % 2 = 1 → prs ≠ [] →
      bsum g 0 prs % 2 = 1 ∧ (4 * (a : Int)) ∣ (bsum g 0 prs : Int) * (bsum g 0 prs : Int) - n) := by
  obtain ⟨hnd, hcop, helem⟩ := afs_elem_ok hs hf ha
  obtain ⟨hlen, hpair⟩ := rootPairs_ok (afsOf f a) 0 prs helem hprs
  set afs := afsOf f a with hafs
  set B := bsum g 0 prs with hB
  -- every prime of A divides B² − n
  have hdiv : ∀ p ∈ afs.map (fun x => x.2.p), ((p : Nat) : Int) ∣ (B : Int) * B - n := by
    intro p hp
    obtain ⟨x, hx, rfl⟩ := List.mem_map.mp hp
    obtain ⟨l, hl, rfl⟩ := List.mem_iff_getElem.mp hx
    have hl' : l < prs.length := by rw [hlen]; exact hl
    have hmod := bsum_mod afs[l].2.p g prs 0 l hl' (by
      intro j hj hne
      have hj' : j < afs.length := by rw [← hlen]; exact hj
      have pj := hpair j hj' hj
      -- p_l divides the product of the others of j
      have hne1 : afs[l].1 ≠ afs[j].1 := by
        intro he
        have := (List.Nodup.getElem_inj_iff hnd (i := l) (j := j)
          (hi := by simpa using hl) (hj := by simpa using hj')).mp (by simpa using he)
        exact hne this.symm
      have hmemo : afs[l].2.p ∈ others afs[j].1 afs := by
        unfold others
        apply List.mem_map.mpr
        refine ⟨afs[l], List.mem_filter.mpr ⟨List.getElem_mem hl, by simpa using hne1⟩, rfl⟩
      have hd := List.dvd_prod hmemo
      exact ⟨Nat.dvd_trans hd pj.dvd1, Nat.dvd_trans hd pj.dvd2⟩)
    have pl := hpair l hl hl'
    simp only [Nat.zero_add] at hmod
    -- B ≡ chosen root
    set r := (if g l then prs[l].2 else prs[l].1) with hr
    have hBr : (B : Int) ≡ (r : Int) [ZMOD afs[l].2.p] := Int.natCast_modEq_iff.mpr hmod
    have hrsq : (r : Int) * r ≡ n [ZMOD afs[l].2.p] := by
      rw [hr]; split
      · exact pl.sq2
      · exact pl.sq1
    have := (hBr.mul hBr).trans hrsq
    exact (Int.modEq_iff_dvd.mp this.symm)
  have hA : (a : Int) ∣ (B : Int) * B - n := by
    rw [ha]; exact prod_dvd_of_coprime _ _ hcop hdiv
  refine ⟨hA, ?_⟩
  intro hn4 haodd hne
  -- parity: position 0 odd, the others even
  have hBodd : B % 2 = 1 := by
    cases hprs' : prs with
    | nil => exact absurd hprs' hne
    | cons pr rest =>
      have hl0 : 0 < afs.length := by rw [← hlen, hprs']; simp
      have h0 := hpair 0 hl0 (by rw [hprs']; simp)
      have hp0 := h0.par0 haodd rfl
      have hrest : ∀ x ∈ rest, x.1 % 2 = 0 ∧ x.2 % 2 = 0 := by
        intro x hx
        obtain ⟨j, hj, rfl⟩ := List.mem_iff_getElem.mp hx
        have hj1 : j + 1 < prs.length := by rw [hprs']; simpa using hj
        have := (hpair (j + 1) (by rw [← hlen]; exact hj1) hj1).par1 haodd (by omega)
        simpa [hprs'] using this
      have hrp := bsum_parity g rest 1 (by omega) hrest
      rw [hB, hprs']
      simp only [bsum, Nat.zero_add]
      simp only [hprs', List.getElem_cons_zero] at hp0
      split <;> omega
  refine ⟨hBodd, ?_⟩
  -- 4 ∣ B² − n and gcd(4, A) = 1
  have h4 : (4 : Int) ∣ (B : Int) * B - n := by
    have hb : (B : Int) % 2 = 1 := by omega
    have : ((B : Int) * B) % 4 = 1 := by
      obtain ⟨k, hk⟩ : ∃ k, (B : Int) = 2 * k + 1 := ⟨(B : Int) / 2, by omega⟩
      rw [hk]
      have : (2 * k + 1) * (2 * k + 1) = 4 * (k * k + k) + 1 := by ring
      rw [this]; omega
    omega
  have hcop4 : IsCoprime (4 : Int) (a : Int) := by
    have : Nat.Coprime 4 a := by
      have : Nat.Coprime 2 a := (Nat.Prime.coprime_iff_not_dvd Nat.prime_two).mpr (by omega)
      exact Nat.Coprime.pow_left 2 this
    exact_mod_cast Nat.isCoprime_iff_coprime.mpr this
  exact hcop4.mul_dvd h4 hA

end Ymq.PolyCrt
