/-
C14 helper lemmas, part 5 (Mathlib): bridge from the bit-list model to linear algebra over
`ZMod 2` (`matZ`, `vecZ`, `mulVec_matZ`), the list notion `Indep` implies `LinearIndependent`,
the pivot columns are independent, and `Matrix.rank (matZ size M)` = number of pivots, hence
`kernelGauss_count`: returned vectors + rank = number of columns.
-/
import Ymq.Lemmas.Gf2Gauss
import Mathlib.LinearAlgebra.Matrix.Rank
import Mathlib.LinearAlgebra.FiniteDimensional.Lemmas
import Mathlib.Algebra.Field.ZMod

namespace Ymq.Gf2
open Matrix Module

/-- `false ↦ 0`, `true ↦ 1` in GF(2) -/
def toZ (b : Bool) : ZMod 2 := if b then 1 else 0

@[simp] theorem toZ_false : toZ false = 0 := rfl
@[simp] theorem toZ_true : toZ true = 1 := rfl

theorem toZ_xor (a b : Bool) : toZ (a ^^ b) = toZ a + toZ b := by
  cases a <;> cases b <;> decide

theorem toZ_and (a b : Bool) : toZ (a && b) = toZ a * toZ b := by
  cases a <;> cases b <;> decide

theorem toZ_eq_zero (a : Bool) : toZ a = 0 ↔ a = false := by
  cases a <;> decide

theorem toZ_decide_ne_zero (x : ZMod 2) : toZ (decide (x ≠ 0)) = x := by
  revert x; decide

/-- a bit list as a vector of `GF(2)^k` -/
def vecZ (k : Nat) (v : BVec) : Fin k → ZMod 2 := fun i => toZ (bitAt v i)

/-- the columns `M` (bit lists) as a `size × ncols` matrix over `ZMod 2` -/
def matZ (size : Nat) (M : List BVec) : Matrix (Fin size) (Fin M.length) (ZMod 2) :=
  fun i j => toZ (bitAt M[j] i)

theorem toZ_xsum_ofFn (n : Nat) (h : Fin n → Bool) : toZ (xsum (List.ofFn h)) = ∑ j, toZ (h j) := by
  induction n with
  | zero => simp
  | succ n ih =>
    rw [List.ofFn_succ, xsum_cons, toZ_xor, Fin.sum_univ_succ, ih]

theorem zipWith_eq_ofFn {α} (F : α → Bool → Bool) (M : List α) (c : BVec) (hc : c.length = M.length) :
    List.zipWith F M c = List.ofFn (fun j : Fin M.length => F M[j] (bitAt c j)) := by
  apply List.ext_getElem
  · simp [hc]
  · intro i h1 h2
    have hi : i < M.length := by simpa [hc] using h1
    simp only [List.getElem_zipWith, List.getElem_ofFn]
    congr 1
    simp [bitAt, List.getD, List.getElem?_eq_getElem (show i < c.length by omega)]

/-- the model's `mulVec` is Mathlib's matrix-vector product -/
theorem mulVec_matZ (size : Nat) (M : List BVec) (c : BVec) (hR : Rect size M) (hc : c.length = M.length) :
    (matZ size M) *ᵥ (vecZ M.length c) = vecZ size (mulVec size M c) := by
  funext i
  simp only [Matrix.mulVec, dotProduct, matZ, vecZ]
  rw [bitAt_mulVec size M c hR, zipWith_eq_ofFn _ M c hc, toZ_xsum_ofFn]
  apply Finset.sum_congr rfl
  intro j _
  rw [toZ_and, mul_comm]


/-- the list notion `Indep` is linear independence over `ZMod 2` -/
theorem Indep.linearIndependent {F : List BVec} (h : Indep F) (k : Nat) (hk : ∀ v ∈ F, v.length ≤ k) :
    LinearIndependent (ZMod 2) (fun j : Fin F.length => vecZ k F[j]) := by
  rw [Fintype.linearIndependent_iff]
  intro g hg j
  let Z : List (BVec × Bool) := List.ofFn (fun j : Fin F.length => (F[j], decide (g j ≠ 0)))
  have hZ : Z.map Prod.fst = F := by
    apply List.ext_getElem
    · simp [Z]
    · intro i h1 h2
      simp [Z]
  have hc : ∀ i, combZ Z i = false := by
    intro i
    by_cases hi : i < k
    · rw [← toZ_eq_zero]
      unfold combZ
      simp only [Z, List.map_ofFn, Function.comp_def]
      rw [toZ_xsum_ofFn]
      have := congrFun hg ⟨i, hi⟩
      simp only [Finset.sum_apply, Pi.smul_apply, smul_eq_mul, Pi.zero_apply, vecZ] at this
      refine Eq.trans (Finset.sum_congr rfl (fun j _ => ?_)) this
      rw [toZ_and, toZ_decide_ne_zero]
    · apply xsum_eq_false_of_forall
      intro b hb
      simp only [List.mem_map] at hb
      obtain ⟨z, hz, rfl⟩ := hb
      have hzF : z.1 ∈ F := by rw [← hZ]; exact List.mem_map_of_mem hz
      rw [bitAt_of_ge z.1 i (by have := hk z.1 hzF; omega)]
      simp
  have hmem : (F[j], decide (g j ≠ 0)) ∈ Z := by
    simp only [Z, List.mem_ofFn]
    exact ⟨j, rfl⟩
  have := h Z hZ hc _ hmem
  simpa using this

theorem indep_pivots (size : Nat) (pre : List Col) (hcol : ∀ e ∈ pre, e.col.length = size)
    (hz : ∀ e ∈ pre, e.z = lzTop e.col) (hlt : ∀ e ∈ pre, e.z < size)
    (hs : pre.Pairwise (fun a b => a.z < b.z)) : Indep (pre.map (·.col)) := by
  induction pre with
  | nil =>
    intro Z hZ _ z hz
    have : Z = [] := by simpa using hZ
    subst this; simp at hz
  | cons e pre ih =>
    intro Z hZ hc
    obtain ⟨z0, Z', rfl, hz0, hZ'⟩ := List.map_eq_cons_iff.mp hZ
    have he := hlt e (by simp)
    have hetop : bitAt e.col (size - 1 - e.z) = true := by
      have := bitAt_top e.col (by rw [← hz e (by simp), hcol e (by simp)]; exact he)
      rwa [hcol e (by simp), ← hz e (by simp)] at this
    have hothers : ∀ z ∈ Z', bitAt z.1 (size - 1 - e.z) = false := by
      intro z hzm
      have : z.1 ∈ pre.map (·.col) := by rw [← hZ']; exact List.mem_map_of_mem hzm
      obtain ⟨e', he', hcole⟩ := List.mem_map.mp this
      have hlt' : e.z < e'.z := (List.pairwise_cons.mp hs).1 e' he'
      rw [← hcole]
      apply bitAt_above_top
      rw [hcol e' (by simp [he']), ← hz e' (by simp [he'])]
      have := hlt e' (by simp [he'])
      omega
    have hZ'0 : combZ Z' (size - 1 - e.z) = false := by
      apply xsum_eq_false_of_forall
      intro b hb
      simp only [List.mem_map] at hb
      obtain ⟨z, hzm, rfl⟩ := hb
      simp [hothers z hzm]
    have hb0 : z0.2 = false := by
      have := hc (size - 1 - e.z)
      rw [combZ_cons, hZ'0, hz0, hetop] at this
      simpa using this
    have hrest := ih (fun e' h => hcol e' (by simp [h])) (fun e' h => hz e' (by simp [h]))
      (fun e' h => hlt e' (by simp [h])) (List.pairwise_cons.mp hs).2 Z' hZ' (fun i => by
        have := hc i
        rw [combZ_cons, hb0] at this
        simpa using this)
    intro z hzm
    rcases List.mem_cons.mp hzm with rfl | hzm
    · exact hb0
    · exact hrest z hzm


theorem range_getElem {α β} (F : List α) (φ : α → β) :
    Set.range (fun j : Fin F.length => φ F[j]) = φ '' {v | v ∈ F} := by
  ext x
  simp only [Set.mem_range, Set.mem_image, Set.mem_ofPred_eq]
  constructor
  · rintro ⟨j, rfl⟩; exact ⟨F[j], List.getElem_mem j.2, rfl⟩
  · rintro ⟨v, hv, rfl⟩
    obtain ⟨i, hi, rfl⟩ := List.getElem_of_mem hv
    exact ⟨⟨i, hi⟩, rfl⟩

theorem vecZ_eq_zero (k : Nat) (v : BVec) (h : ∀ i, bitAt v i = false) : vecZ k v = 0 := by
  funext i; simp [vecZ, h]

/-- At the exit of the loop the rank of the input matrix is the number of pivots. -/
theorem rank_eq_pivots {size : Nat} {M : List BVec} {pre rest : List Col} (hR : Rect size M)
    (hI : Inv size M pre rest) (hz : ∀ r ∈ rest, r.z = size) : (matZ size M).rank = pre.length := by
  have hmemOk : ∀ e ∈ pre ++ rest, EntryOk size M.length M e := hI.entries
  -- the coefficient rows span everything
  have hF : ∀ v ∈ (pre ++ rest).map (·.coef), v.length ≤ M.length := by
    intro v hv
    obtain ⟨e, he, rfl⟩ := List.mem_map.mp hv
    rw [(hmemOk e he).hcoef]
  have hC := hI.indep.linearIndependent M.length hF
  have hFlen : ((pre ++ rest).map (·.coef)).length = M.length := by simpa using hI.len
  have htop := hC.span_eq_top_of_card_eq_finrank' (by
    rw [Fintype.card_fin, Module.finrank_fin_fun, hFlen])
  rw [range_getElem] at htop
  -- image of the spanning family
  have hrange : LinearMap.range (matZ size M).mulVecLin =
      Submodule.span (ZMod 2) ((fun e : Col => vecZ size e.col) '' {e | e ∈ pre ++ rest}) := by
    rw [LinearMap.range_eq_map, ← htop, Submodule.map_span]
    congr 1
    ext x
    simp only [Set.mem_image, Set.mem_ofPred_eq, List.mem_map]
    constructor
    · rintro ⟨_, ⟨_, ⟨e, he, rfl⟩, rfl⟩, rfl⟩
      refine ⟨e, he, ?_⟩
      rw [Matrix.mulVecLin_apply, mulVec_matZ size M e.coef hR (hmemOk e he).hcoef, (hmemOk e he).hmul]
    · rintro ⟨e, he, rfl⟩
      refine ⟨vecZ M.length e.coef, ⟨e.coef, ⟨e, he, rfl⟩, rfl⟩, ?_⟩
      rw [Matrix.mulVecLin_apply, mulVec_matZ size M e.coef hR (hmemOk e he).hcoef, (hmemOk e he).hmul]
  -- the null columns do not contribute
  have hspan : Submodule.span (ZMod 2) ((fun e : Col => vecZ size e.col) '' {e | e ∈ pre ++ rest}) =
      Submodule.span (ZMod 2) ((vecZ size) '' {v | v ∈ pre.map (·.col)}) := by
    apply le_antisymm
    · rw [Submodule.span_le]
      rintro x ⟨e, he, rfl⟩
      simp only [Set.mem_ofPred_eq, List.mem_append] at he
      rcases he with he | he
      · exact Submodule.subset_span ⟨e.col, List.mem_map_of_mem he, rfl⟩
      · have hok := hmemOk e (by simp [he])
        have : vecZ size e.col = 0 := vecZ_eq_zero size e.col
          ((lzTop_eq_length_iff e.col).mp (by rw [← hok.hz, hz e he, hok.hcol]))
        simp only [this]
        exact Submodule.zero_mem _
    · apply Submodule.span_mono
      rintro x ⟨v, hv, rfl⟩
      obtain ⟨e, he, rfl⟩ := List.mem_map.mp hv
      exact ⟨e, by simp [he], rfl⟩
  -- the pivot columns are independent
  have hP := (indep_pivots size pre (fun e he => (hmemOk e (by simp [he])).hcol)
    (fun e he => (hmemOk e (by simp [he])).hz) hI.preLt hI.preSorted).linearIndependent size (by
      intro v hv
      obtain ⟨e, he, rfl⟩ := List.mem_map.mp hv
      rw [(hmemOk e (by simp [he])).hcol])
  have hcard := finrank_span_eq_card hP
  rw [range_getElem, Fintype.card_fin] at hcard
  rw [Matrix.rank, hrange, hspan, hcard]
  simp

/-- the number of vectors returned by `kernel_gauss` plus the rank is the number of columns -/
theorem kernelGauss_count {size : Nat} {M : List BVec} (hR : Rect size M) {K : List BVec}
    (h : kernelGauss M = some K) : K.length + (matZ size M).rank = M.length := by
  obtain ⟨pre, rest, hk, hI, hz⟩ := kernelGauss_spec size M hR
  rw [h] at hk
  injection hk with hk
  subst hk
  rw [rank_eq_pivots hR hI hz]
  have := hI.len
  simp only [List.length_map]
  omega

end Ymq.Gf2
