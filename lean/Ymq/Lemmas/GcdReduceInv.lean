/- `reduce64`: the full loop invariant (linear relations, determinant, magnitude bounds, no panic,
sufficient fuel). -/
import Ymq.Lemmas.GcdReduce
import Ymq.Lemmas.GcdWords
import Mathlib.Algebra.Order.Ring.Abs

namespace Ymq.Gcd

theorem abs_mul_sub_opp {p s k : Int} (hk : 0 ≤ k) (h : p * s ≤ 0) : |k * s - p| = k * |s| + |p| := by
  rcases lt_trichotomy s 0 with hs | hs | hs
  · have hp : 0 ≤ p := by nlinarith
    have : k * s - p ≤ 0 := by nlinarith
    rw [abs_of_nonpos this, abs_of_neg hs, abs_of_nonneg hp]; ring
  · subst hs; simp
  · have hp : p ≤ 0 := by nlinarith
    have : 0 ≤ k * s - p := by nlinarith
    rw [abs_of_nonneg this, abs_of_pos hs, abs_of_nonpos hp]; ring

theorem abs_mul_sub_same {p s k : Int} (hk : 0 ≤ k) (h : 0 ≤ p * s) (hle : |p| ≤ k * |s|) :
    |k * s - p| = k * |s| - |p| := by
  rcases lt_trichotomy s 0 with hs | hs | hs
  · have hp : p ≤ 0 := by nlinarith
    rw [abs_of_neg hs, abs_of_nonpos hp] at hle
    have : k * s - p ≤ 0 := by nlinarith
    rw [abs_of_nonpos this, abs_of_neg hs, abs_of_nonpos hp]; ring
  · subst hs; simp at hle ⊢; simp [hle]
  · have hp : 0 ≤ p := by nlinarith
    rw [abs_of_pos hs, abs_of_nonneg hp] at hle
    have : 0 ≤ k * s - p := by nlinarith
    rw [abs_of_nonneg this, abs_of_pos hs, abs_of_nonneg hp]

theorem mul_le_sq_of_abs_le {p s : Int} (h : |p| ≤ |s|) : p * s ≤ s * s := by
  have h1 : p * s ≤ |p * s| := le_abs_self _
  rw [abs_mul] at h1
  have h2 : |p| * |s| ≤ |s| * |s| := mul_le_mul_of_nonneg_right h (abs_nonneg s)
  rw [abs_mul_abs_self] at h2
  linarith

/-- column invariant: the previous cofactor is not larger than the current one (or we are at the
very first step, where the column is `(±1, 0)`) -/
def Col (p s : Int) : Prop := |p| ≤ |s| ∨ (s = 0 ∧ |p| ≤ 1)

/-- sign mode of the two columns: opposite signs, or equal signs right after a "ceiling" step
(then the next quotient is at least 2) -/
def Mode (p s : Int) (same : Prop) : Prop := p * s ≤ 0 ∨ (0 ≤ p * s ∧ same)

/-- ceiling step `s' = (q+1) s - p` on one column -/
theorem col_ceil {p s q : Int} (hq : 1 ≤ q) (hcol : Col p s) (hmode : p * s ≤ 0 ∨ (0 ≤ p * s ∧ 2 ≤ q)) :
    Col s ((q + 1) * s - p) ∧ 0 ≤ s * ((q + 1) * s - p) ∧
    (|(q + 1) * s - p| ≤ (q + 2) * |s| ∨ |(q + 1) * s - p| ≤ 1) := by
  have hs0 := abs_nonneg s
  have hp0 := abs_nonneg p
  have hqs : 0 ≤ q * |s| := mul_nonneg (by omega) hs0
  rcases hcol with hcol | ⟨rfl, hp1⟩
  · have hps := mul_le_sq_of_abs_le hcol
    have hss : 0 ≤ s * s := mul_self_nonneg s
    have hqss : 0 ≤ q * (s * s) := mul_nonneg (by omega) hss
    rcases hmode with hm | ⟨hm, hq2⟩
    · have e := abs_mul_sub_opp (k := q + 1) (by omega) hm
      refine ⟨Or.inl ?_, by nlinarith, Or.inl ?_⟩ <;> rw [e] <;> nlinarith
    · have e := abs_mul_sub_same (k := q + 1) (by omega) hm (by nlinarith)
      refine ⟨Or.inl ?_, by nlinarith, Or.inl ?_⟩ <;> rw [e] <;> nlinarith
  · exact ⟨Or.inl (by simp), by simp, Or.inr (by simpa using hp1)⟩

/-- floor step `s' = p - q s` on one column -/
theorem col_floor {p s q : Int} (hq : 1 ≤ q) (hcol : Col p s) (hmode : p * s ≤ 0 ∨ (0 ≤ p * s ∧ 2 ≤ q)) :
    Col s (p - q * s) ∧ s * (p - q * s) ≤ 0 ∧
    (|p - q * s| ≤ (q + 1) * |s| ∨ |p - q * s| ≤ 1) := by
  have hs0 := abs_nonneg s
  have hp0 := abs_nonneg p
  have hqs : 0 ≤ q * |s| := mul_nonneg (by omega) hs0
  have eneg : |p - q * s| = |q * s - p| := abs_sub_comm _ _
  rcases hcol with hcol | ⟨rfl, hp1⟩
  · have hps := mul_le_sq_of_abs_le hcol
    have hss : 0 ≤ s * s := mul_self_nonneg s
    have hqss : 0 ≤ q * (s * s) := mul_nonneg (by omega) hss
    rcases hmode with hm | ⟨hm, hq2⟩
    · have e := abs_mul_sub_opp (k := q) (by omega) hm
      refine ⟨Or.inl ?_, by nlinarith, Or.inl ?_⟩ <;> rw [eneg, e] <;> nlinarith
    · have e := abs_mul_sub_same (k := q) (by omega) hm (by nlinarith)
      refine ⟨Or.inl ?_, by nlinarith, Or.inl ?_⟩ <;> rw [eneg, e] <;> nlinarith
  · exact ⟨Or.inl (by simp), by simp, Or.inr (by simpa using hp1)⟩


/-- if the matrix-size test of `reduce64` does not break, `(q+2) * max(|c|,|d|) < 2^36` -/
theorem nobreak_bound {q m : Nat} (h : bits (q + 1) + bits m ≤ 36) : (q + 2) * m < 2 ^ 36 := by
  have h1 := lt_two_pow_bits (q + 1)
  have h2 := lt_two_pow_bits m
  have h3 : q + 2 ≤ 2 ^ bits (q + 1) := by omega
  rcases Nat.eq_zero_or_pos m with hm | hm
  · subst hm; simp
  · calc (q + 2) * m ≤ 2 ^ bits (q + 1) * m := Nat.mul_le_mul_right _ h3
      _ < 2 ^ bits (q + 1) * 2 ^ bits m := Nat.mul_lt_mul_of_pos_left h2 (Nat.pow_pos (by decide))
      _ = 2 ^ (bits (q + 1) + bits m) := (Nat.pow_add _ _ _).symm
      _ ≤ 2 ^ 36 := Nat.pow_le_pow_right (by decide) h

/-- loop invariant of `reduce64(x, y)` in state `(a, b, c, d, u, v)` -/
structure RInv (x y : Nat) (a b c d : Int) (u v : Nat) : Prop where
  relu : a * x + b * y = u
  relv : c * x + d * y = v
  det : Unimod a b c d
  colac : Col a c
  colbd : Col b d
  mode : (a * c ≤ 0 ∧ b * d ≤ 0) ∨ (0 ≤ a * c ∧ 0 ≤ b * d ∧ 2 * v < u)
  ba : |a| < 2 ^ 36
  bb : |b| < 2 ^ 36
  bc : |c| < 2 ^ 36
  bd : |d| < 2 ^ 36
  phase : (a = 1 ∧ b = 0 ∧ c = 0 ∧ d = 1 ∧ u = x ∧ v = y) ∨
    (a = 0 ∧ b = 1 ∧ c = 1 ∧ d = 0 ∧ u = y ∧ v = x ∧ x < y) ∨
    (u ≤ min x y ∧ 2 * v ≤ u ∧ 2 ^ 24 ≤ u)

theorem RInv_init (x y : Nat) : RInv x y 1 0 0 1 x y where
  relu := by simp
  relv := by simp
  det := Or.inl (by ring)
  colac := Or.inr ⟨rfl, by simp⟩
  colbd := Or.inl (by simp)
  mode := Or.inl ⟨by simp, by simp⟩
  ba := by simp
  bb := by simp
  bc := by simp
  bd := by simp
  phase := Or.inl ⟨rfl, rfl, rfl, rfl, rfl, rfl⟩

theorem abs_le_max_natAbs_left (c d : Int) : |c| ≤ ((max c.natAbs d.natAbs : Nat) : Int) := by
  rw [Int.abs_eq_natAbs]; exact_mod_cast Nat.le_max_left _ _

theorem abs_le_max_natAbs_right (c d : Int) : |d| ≤ ((max c.natAbs d.natAbs : Nat) : Int) := by
  rw [Int.abs_eq_natAbs]; exact_mod_cast Nat.le_max_right _ _

/-- a continuing iteration keeps the invariant -/
theorem RInv_cont {x y : Nat} {a b c d : Int} {u v : Nat} {a' b' c' d' : Int} {u' v' : Nat}
    (hinv : RInv x y a b c d u v) (hu : u < W) (hv : 2 ^ 24 ≤ v)
    (h : reduce64Body x y a b c d u v = some (.cont a' b' c' d' u' v')) :
    RInv x y a' b' c' d' u' v' := by
  have hdet := reduce64Body_cont_det h hu hv hinv.det
  rcases reduce64Body_cont h hu hv with ⟨huv, e1, e2, e3, e4, e5, e6, r1, r2⟩ |
    ⟨hvu, e1, e2, e5, r1, r2, hnb, hc⟩
  · -- swap: only possible in the initial state
    have e5' := e5.symm; have e6' := e6.symm
    subst e1 e2 e3 e4 e5' e6'
    rcases hinv.phase with ⟨rfl, rfl, rfl, rfl, rfl, rfl⟩ | ⟨_, _, _, _, rfl, rfl, hxy⟩ | ⟨_, h2, _⟩
    · exact ⟨r1, r2, hdet, Or.inl (by simp), Or.inr ⟨rfl, by simp⟩, Or.inl ⟨by simp, by simp⟩,
        by simp, by simp, by simp, by simp, Or.inr (Or.inl ⟨rfl, rfl, rfl, rfl, rfl, rfl, huv⟩)⟩
    · omega
    · omega
  · have e5' := e5.symm
    subst e1 e2 e5'
    have hvpos : 0 < v := by omega
    have hdm := Nat.div_add_mod u v
    have hrlt : u % v < v := Nat.mod_lt _ hvpos
    have hq1 : 1 ≤ u / v := Nat.div_pos hvu hvpos
    have hbnd := nobreak_bound hnb
    generalize hq : u / v = q at *
    generalize hr : u % v = r at *
    have hq1' : (1 : Int) ≤ q := by exact_mod_cast hq1
    -- `same` mode gives q ≥ 2
    have hq2 : 2 * v < u → (2 : Int) ≤ q := by
      intro h2
      have : 2 ≤ q := by
        by_contra hlt
        have : q = 1 := by omega
        subst this; omega
      exact_mod_cast this
    have hmac : a * a' ≤ 0 ∨ (0 ≤ a * a' ∧ (2 : Int) ≤ q) := by
      rcases hinv.mode with ⟨m1, _⟩ | ⟨m1, _, m3⟩
      · exact Or.inl m1
      · exact Or.inr ⟨m1, hq2 m3⟩
    have hmbd : b * b' ≤ 0 ∨ (0 ≤ b * b' ∧ (2 : Int) ≤ q) := by
      rcases hinv.mode with ⟨_, m2⟩ | ⟨_, m2, m3⟩
      · exact Or.inl m2
      · exact Or.inr ⟨m2, hq2 m3⟩
    have hbndI : ((q : Int) + 2) * ((max a'.natAbs b'.natAbs : Nat) : Int) < 2 ^ 36 := by
      exact_mod_cast hbnd
    have hm0 : (0 : Int) ≤ ((max a'.natAbs b'.natAbs : Nat) : Int) := Int.natCast_nonneg _
    have hca := abs_le_max_natAbs_left a' b'
    have hcb := abs_le_max_natAbs_right a' b'
    have hphase : v ≤ min x y := by
      rcases hinv.phase with ⟨_, _, _, _, rfl, rfl⟩ | ⟨_, _, _, _, rfl, rfl, hxy⟩ | ⟨h1, h2, _⟩ <;> omega
    rcases hc with ⟨hrv, f1, f2, f3⟩ | ⟨hrv, f1, f2, f3⟩ <;> subst f1 f2 f3
    · -- ceiling step
      obtain ⟨k1, k2, k3⟩ := col_ceil hq1' hinv.colac hmac
      obtain ⟨l1, l2, l3⟩ := col_ceil hq1' hinv.colbd hmbd
      refine ⟨r1, r2, hdet, k1, l1, Or.inr ⟨k2, l2, by omega⟩, hinv.bc, hinv.bd, ?_, ?_,
        Or.inr (Or.inr ⟨hphase, by omega, hv⟩)⟩
      · rcases k3 with k3 | k3
        · have : ((q : Int) + 2) * |a'| ≤ (q + 2) * ((max a'.natAbs b'.natAbs : Nat) : Int) :=
            mul_le_mul_of_nonneg_left hca (by omega)
          linarith
        · have : (1 : Int) < 2 ^ 36 := by norm_num
          linarith
      · rcases l3 with l3 | l3
        · have : ((q : Int) + 2) * |b'| ≤ (q + 2) * ((max a'.natAbs b'.natAbs : Nat) : Int) :=
            mul_le_mul_of_nonneg_left hcb (by omega)
          linarith
        · have : (1 : Int) < 2 ^ 36 := by norm_num
          linarith
    · -- floor step
      obtain ⟨k1, k2, k3⟩ := col_floor hq1' hinv.colac hmac
      obtain ⟨l1, l2, l3⟩ := col_floor hq1' hinv.colbd hmbd
      refine ⟨r1, r2, hdet, k1, l1, Or.inl ⟨k2, l2⟩, hinv.bc, hinv.bd, ?_, ?_,
        Or.inr (Or.inr ⟨hphase, by omega, hv⟩)⟩
      · rcases k3 with k3 | k3
        · have : ((q : Int) + 2) * |a'| ≤ (q + 2) * ((max a'.natAbs b'.natAbs : Nat) : Int) :=
            mul_le_mul_of_nonneg_left hca (by omega)
          have : 0 ≤ |a'| := abs_nonneg _
          linarith
        · have : (1 : Int) < 2 ^ 36 := by norm_num
          linarith
      · rcases l3 with l3 | l3
        · have : ((q : Int) + 2) * |b'| ≤ (q + 2) * ((max a'.natAbs b'.natAbs : Nat) : Int) :=
            mul_le_mul_of_nonneg_left hcb (by omega)
          have : 0 ≤ |b'| := abs_nonneg _
          linarith
        · have : (1 : Int) < 2 ^ 36 := by norm_num
          linarith


theorem mulSub64_of_range {p c a : Int} (h1 : -I63 ≤ p * c) (h2 : p * c < I63)
    (h3 : -I63 ≤ p * c - a) (h4 : p * c - a < I63) : mulSub64 p c a = some (p * c - a) := by
  unfold mulSub64; rw [chkI64_of_range h1 h2]; exact chkI64_of_range h3 h4

theorem subMul64_of_range {a q c : Int} (h1 : -I63 ≤ q * c) (h2 : q * c < I63)
    (h3 : -I63 ≤ a - q * c) (h4 : a - q * c < I63) : subMul64 a q c = some (a - q * c) := by
  unfold subMul64; rw [chkI64_of_range h1 h2]; exact chkI64_of_range h3 h4

theorem I63_eq : I63 = 2 ^ 63 := by unfold I63; norm_num

/-- bound on a product `k * c` from `(k+1) * |c| < 2^36`-style facts -/
theorem abs_mul_lt {k c B : Int} (hk : 0 ≤ k) (h : k * |c| < B) : -B < k * c ∧ k * c < B := by
  have h1 : |k * c| = k * |c| := by rw [abs_mul, abs_of_nonneg hk]
  have := abs_lt.1 (by rw [h1]; exact h : |k * c| < B)
  exact this

/-- no panic in the loop body under the invariant -/
theorem reduce64Body_progress {x y : Nat} {a b c d : Int} {u v : Nat}
    (hinv : RInv x y a b c d u v) (hu : u < W) (hv : 2 ^ 24 ≤ v) :
    ∃ st, reduce64Body x y a b c d u v = some st := by
  unfold reduce64Body
  by_cases huv : u < v
  · rw [if_pos huv, if_neg (by rw [hinv.relu, hinv.relv]; simp)]
    exact ⟨_, rfl⟩
  · rw [if_neg huv]
    have hq : u / v < 2 ^ 40 := by
      have : u / v ≤ u / 2 ^ 24 := Nat.div_le_div_left hv (by decide)
      have : u / 2 ^ 24 < 2 ^ 40 := by
        rw [Nat.div_lt_iff_lt_mul (by decide)]; unfold W at hu; omega
      omega
    have hqi : asI64 (u / v) = ((u / v : Nat) : Int) := asI64_small (by omega)
    have hvpos : 0 < v := by omega
    have hdm := Nat.div_add_mod u v
    have hrlt : u % v < v := Nat.mod_lt _ hvpos
    simp only [hqi]
    generalize u / v = q at *
    generalize u % v = r at *
    have hI : I63 = 9223372036854775808 := rfl
    rw [chkI64_of_range (by rw [hI]; omega) (by rw [hI]; omega)]
    simp only
    have hbc := hinv.bc
    have hbd := hinv.bd
    have hba := hinv.ba
    have hbb := hinv.bb
    have hc63 : ¬ (c = -I63 ∨ d = -I63) := by
      rw [hI]; intro hcd
      rcases hcd with rfl | rfl
      · norm_num at hbc
      · norm_num at hbd
    rw [if_neg hc63]
    have e : (((q : Int) + 1) % (W : Int)).toNat = q + 1 := by
      have hW : (W : Int) = 18446744073709551616 := by simp [W]
      rw [hW, Int.emod_eq_of_lt (by omega) (by omega)]; omega
    rw [e]
    by_cases hbrk : bits (q + 1) + bits (max c.natAbs d.natAbs) > 36
    · rw [if_pos hbrk]; exact ⟨_, rfl⟩
    · rw [if_neg hbrk]
      have hbnd := nobreak_bound (Nat.le_of_not_lt hbrk)
      have hbndI : ((q : Int) + 2) * ((max c.natAbs d.natAbs : Nat) : Int) < 2 ^ 36 := by
        exact_mod_cast hbnd
      have hca := abs_le_max_natAbs_left c d
      have hcb := abs_le_max_natAbs_right c d
      have hc0 := abs_nonneg c
      have hd0 := abs_nonneg d
      have h1c : ((q : Int) + 2) * |c| < 2 ^ 36 :=
        lt_of_le_of_lt (mul_le_mul_of_nonneg_left hca (by omega)) hbndI
      have h1d : ((q : Int) + 2) * |d| < 2 ^ 36 :=
        lt_of_le_of_lt (mul_le_mul_of_nonneg_left hcb (by omega)) hbndI
      have hqc1 := abs_mul_lt (k := (q : Int) + 1) (c := c) (B := 2 ^ 36) (by omega) (by nlinarith)
      have hqd1 := abs_mul_lt (k := (q : Int) + 1) (c := d) (B := 2 ^ 36) (by omega) (by nlinarith)
      have hqc := abs_mul_lt (k := (q : Int)) (c := c) (B := 2 ^ 36) (by omega) (by nlinarith)
      have hqd := abs_mul_lt (k := (q : Int)) (c := d) (B := 2 ^ 36) (by omega) (by nlinarith)
      have ha' := abs_lt.1 hba
      have hb' := abs_lt.1 hbb
      have hp : (2 : Int) ^ 36 = 68719476736 := by norm_num
      rw [hp] at hqc1 hqd1 hqc hqd ha' hb'
      by_cases hr : r > v / 2
      · rw [if_pos hr]
        rw [mulSub64_of_range (by rw [hI]; omega) (by rw [hI]; omega) (by rw [hI]; omega) (by rw [hI]; omega),
          mulSub64_of_range (by rw [hI]; omega) (by rw [hI]; omega) (by rw [hI]; omega) (by rw [hI]; omega)]
        simp only
        have e2 : (((q : Int) + 1) * c - a) * x + (((q : Int) + 1) * d - b) * y = ((v - r : Nat) : Int) := by
          have : (((q : Int) + 1) * c - a) * x + (((q : Int) + 1) * d - b) * y
              = ((q : Int) + 1) * (c * x + d * y) - (a * x + b * y) := by ring
          rw [this, hinv.relu, hinv.relv]
          push_cast [Nat.le_of_lt hrlt]
          have : (u : Int) = v * q + r := by exact_mod_cast hdm.symm
          rw [this]; ring
        rw [if_neg (by rw [hinv.relv, e2]; simp)]
        exact ⟨_, rfl⟩
      · rw [if_neg hr]
        rw [subMul64_of_range (by rw [hI]; omega) (by rw [hI]; omega) (by rw [hI]; omega) (by rw [hI]; omega),
          subMul64_of_range (by rw [hI]; omega) (by rw [hI]; omega) (by rw [hI]; omega) (by rw [hI]; omega)]
        simp only
        have e2 : (a - (q : Int) * c) * x + (b - (q : Int) * d) * y = (r : Int) := by
          have : (a - (q : Int) * c) * x + (b - (q : Int) * d) * y
              = (a * x + b * y) - (q : Int) * (c * x + d * y) := by ring
          rw [this, hinv.relu, hinv.relv]
          have : (u : Int) = v * q + r := by exact_mod_cast hdm.symm
          rw [this]; ring
        rw [if_neg (by rw [hinv.relv, e2]; simp)]
        exact ⟨_, rfl⟩


/-- how `(u, v)` evolve in a continuing iteration -/
theorem reduce64Body_cont_measure {x y : Nat} {a b c d : Int} {u v : Nat} {a' b' c' d' : Int} {u' v' : Nat}
    (h : reduce64Body x y a b c d u v = some (.cont a' b' c' d' u' v')) (hu : u < W) (hv : 2 ^ 24 ≤ v) :
    (u < v ∧ u' = v ∧ v' = u) ∨ (v ≤ u ∧ u' = v ∧ 2 * v' ≤ v) := by
  rcases reduce64Body_cont h hu hv with ⟨huv, _, _, _, _, e5, e6, _⟩ | ⟨hvu, _, _, e5, _, _, _, hc⟩
  · exact Or.inl ⟨huv, e5, e6⟩
  · refine Or.inr ⟨hvu, e5, ?_⟩
    have : u % v < v := Nat.mod_lt _ (by omega)
    rcases hc with ⟨_, _, _, e⟩ | ⟨_, _, _, e⟩ <;> omega

/-- exit condition of the `while` loop: the guard fails or the matrix-size test breaks -/
def R64Exit (c d : Int) (u v : Nat) : Prop :=
  ¬ (2 ^ 24 ≤ u ∧ 2 ^ 24 ≤ v) ∨ (v ≤ u ∧ bits (u / v + 1) + bits (max c.natAbs d.natAbs) > 36)

theorem reduce64Exit_of_RInv {x y : Nat} {a b c d : Int} {u v : Nat} (hinv : RInv x y a b c d u v) :
    reduce64Exit a b c d = some (a, b, c, d) := by
  unfold reduce64Exit
  have h1 := hinv.ba; have h2 := hinv.bb; have h3 := hinv.bc; have h4 := hinv.bd
  rw [Int.abs_eq_natAbs] at h1 h2 h3 h4
  have hp : ((2 : Int) ^ 36) = ((2 ^ 36 : Nat) : Int) := by norm_num
  rw [hp] at h1 h2 h3 h4
  have h1' : a.natAbs < 2 ^ 36 := by exact_mod_cast h1
  have h2' : b.natAbs < 2 ^ 36 := by exact_mod_cast h2
  have h3' : c.natAbs < 2 ^ 36 := by exact_mod_cast h3
  have h4' : d.natAbs < 2 ^ 36 := by exact_mod_cast h4
  rw [if_pos ⟨by omega, by omega, by omega, by omega⟩]

theorem two_pow_lt_imp {f k : Nat} {u : Nat} (h1 : 2 ^ k ≤ u) (h2 : u < 2 ^ f) : k < f := by
  by_contra hle
  have : 2 ^ f ≤ 2 ^ k := Nat.pow_le_pow_right (by decide) (by omega)
  omega

/-- the loop of `reduce64` terminates within its fuel, never panics, and ends in a state that
satisfies the invariant and the exit condition -/
theorem reduce64Loop_inv (x y : Nat) : ∀ (f : Nat) (a b c d : Int) (u v : Nat),
    RInv x y a b c d u v → u < W → v < W →
    (1 ≤ f ∧ (if v ≤ u then v < 2 ^ (22 + f) else u < 2 ^ (21 + f))) →
    ∃ a' b' c' d' u' v', reduce64Loop x y f a b c d u v = some (a', b', c', d') ∧
      RInv x y a' b' c' d' u' v' ∧ R64Exit c' d' u' v' := by
  intro f
  induction f with
  | zero => intro a b c d u v _ _ _ hf; omega
  | succ f ih =>
    intro a b c d u v hinv hu hv hf
    unfold reduce64Loop
    by_cases hg : u / 2 ^ 24 > 0 ∧ v / 2 ^ 24 > 0
    · rw [if_pos hg]
      have hu24 := guard_ge hg.1
      have hv24 := guard_ge hg.2
      obtain ⟨st, hst⟩ := reduce64Body_progress hinv hu hv24
      rw [hst]
      cases st with
      | brk =>
        simp only
        exact ⟨a, b, c, d, u, v, reduce64Exit_of_RInv hinv, hinv, Or.inr (reduce64Body_brk hst hu hv24)⟩
      | cont a' b' c' d' u' v' =>
        simp only
        have hinv' := RInv_cont hinv hu hv24 hst
        have hlt := reduce64Body_cont_lt hst hu hv hv24
        refine ih a' b' c' d' u' v' hinv' hlt.1 hlt.2 ?_
        rcases reduce64Body_cont_measure hst hu hv24 with ⟨huv, rfl, rfl⟩ | ⟨hvu, rfl, h2⟩
        · have hnle : ¬ u' ≤ v' := by omega
          rw [if_neg hnle] at hf
          have hk := two_pow_lt_imp hu24 hf.2
          have e : 21 + (f + 1) = 22 + f := by omega
          rw [e] at hf
          exact ⟨by omega, by rw [if_pos (by omega)]; exact hf.2⟩
        · rw [if_pos hvu] at hf
          have hk := two_pow_lt_imp hv24 hf.2
          have e : 22 + (f + 1) = (22 + f) + 1 := by omega
          rw [e, Nat.pow_succ] at hf
          exact ⟨by omega, by rw [if_pos (by omega)]; omega⟩
    · rw [if_neg hg]
      refine ⟨a, b, c, d, u, v, reduce64Exit_of_RInv hinv, hinv, Or.inl ?_⟩
      intro h24
      apply hg
      exact ⟨Nat.div_pos h24.1 (by decide), Nat.div_pos h24.2 (by decide)⟩

/-- `reduce64(x, y)` for arbitrary words -/
theorem reduce64_spec (x y : Nat) (hx : x < W) (hy : y < W) :
    ∃ a b c d u v, reduce64 x y = some (a, b, c, d) ∧ RInv x y a b c d u v ∧ R64Exit c d u v := by
  unfold reduce64 reduce64Fuel
  refine reduce64Loop_inv x y 70 1 0 0 1 x y (RInv_init x y) hx hy ⟨by decide, ?_⟩
  unfold W at hx hy
  split <;> omega


/-- one column `(p, s)` of the reduce64 matrix against the reduced vector `(U, V)`:
`|s U - p V| = X` bounds both entries by `2 X / U` -/
theorem col_entry_bound {p s U V X : Int} (hU : 0 ≤ U) (hV : 0 ≤ V) (h2 : 2 * V ≤ U)
    (hcol : Col p s) (hX : |s * U - p * V| = X) (hUX : U ≤ X) :
    |s| * U ≤ 2 * X ∧ |p| * U ≤ 2 * X := by
  have hX0 : 0 ≤ X := by rw [← hX]; exact abs_nonneg _
  rcases hcol with hcol | ⟨rfl, hp1⟩
  · have hs0 := abs_nonneg s
    have hp0 := abs_nonneg p
    have h1 : |s| * U - |p| * V ≤ X := by
      have := abs_sub_abs_le_abs_sub (s * U) (p * V)
      rw [abs_mul, abs_mul, abs_of_nonneg hU, abs_of_nonneg hV, hX] at this
      exact this
    have h3 : |p| * V ≤ |s| * V := mul_le_mul_of_nonneg_right hcol hV
    have h4 : 2 * (|s| * V) ≤ |s| * U := by nlinarith
    have h5 : |s| * U ≤ 2 * X := by linarith
    exact ⟨h5, le_trans (mul_le_mul_of_nonneg_right hcol hU) h5⟩
  · constructor
    · simp; linarith
    · have : |p| * U ≤ 1 * U := mul_le_mul_of_nonneg_right hp1 hU
      linarith


end Ymq.Gcd
