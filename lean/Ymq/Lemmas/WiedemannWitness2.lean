/-
Second witness of the early termination of `SparseMat::detz`, with its determinant proved in Lean.

`advMat2` is `advMat` (Ymq/Lemmas/WiedemannWitness.lean) with the digit column moved to the last
position: column `j ≤ 13` has `-1` in row `j` and `B = 16384` in row `j + 1`, the last column holds
the digits `d_0 … d_14`. Right multiplication by the unit upper triangular matrix `advU` (last
column = the Horner partial sums `c_i = d_i + B c_(i-1)`) gives the lower triangular matrix `advL`
with diagonal `-1, …, -1, T`, hence `det = (-1)^14 T = T = Σ d_i B^(14-i) = 108 · p_0 p_1 p_2 p_3`.
The real code returns 0 for this matrix in both profiles (`im_det_sparse`, WITNESS_ZERO_ROT of
props/c19_wied.py).
-/
import Ymq.Lemmas.WiedemannWitness
import Mathlib.LinearAlgebra.Matrix.Block

namespace Ymq.Wied
open Matrix

def advMat2 : Mat := [
  [(0, -1), (14, 21)],
  [(0, 16384), (1, -1), (14, 5461)],
  [(1, 16384), (2, -1), (14, 5461)],
  [(2, 16384), (3, -1), (14, 4926)],
  [(3, 16384), (4, -1), (14, 8192)],
  [(4, 16384), (5, -1)],
  [(5, 16384), (6, -1), (14, 4645)],
  [(6, 16384), (7, -1), (14, -2432)],
  [(7, 16384), (8, -1), (14, -1)],
  [(8, 16384), (9, -1), (14, 535)],
  [(9, 16384), (10, -1), (14, -1832)],
  [(10, 16384), (11, -1), (14, 684)],
  [(11, 16384), (12, -1), (14, -5528)],
  [(12, 16384), (13, -1), (14, -5929)],
  [(13, 16384), (14, 6260)]]

def advUrows : List (List Int) := [
  [1, 0, 0, 0, 0, 0, 0, 0, 0, 0, 0, 0, 0, 0, 21],
  [0, 1, 0, 0, 0, 0, 0, 0, 0, 0, 0, 0, 0, 0, 349525],
  [0, 0, 1, 0, 0, 0, 0, 0, 0, 0, 0, 0, 0, 0, 5726623061],
  [0, 0, 0, 1, 0, 0, 0, 0, 0, 0, 0, 0, 0, 0, 93824992236350],
  [0, 0, 0, 0, 1, 0, 0, 0, 0, 0, 0, 0, 0, 0, 1537228672800366592],
  [0, 0, 0, 0, 0, 1, 0, 0, 0, 0, 0, 0, 0, 0, 25185954575161206243328],
  [0, 0, 0, 0, 0, 0, 1, 0, 0, 0, 0, 0, 0, 0, 412646679759441203090690597],
  [0, 0, 0, 0, 0, 0, 0, 1, 0, 0, 0, 0, 0, 0, 6760803201178684671437874738816],
  [0, 0, 0, 0, 0, 0, 0, 0, 1, 0, 0, 0, 0, 0, 110768999648111569656838139720761343],
  [0, 0, 0, 0, 0, 0, 0, 0, 0, 1, 0, 0, 0, 0, 1814839290234659957257636081184953844247],
  [0, 0, 0, 0, 0, 0, 0, 0, 0, 0, 1, 0, 0, 0, 29734326931204668739709109554134283784141016],
  [0, 0, 0, 0, 0, 0, 0, 0, 0, 0, 0, 1, 0, 0, 487167212440857292631394050934936105519366406828],
  [0, 0, 0, 0, 0, 0, 0, 0, 0, 0, 0, 0, 1, 0, 7981747608631005882472760130517993152829299209464424],
  [0, 0, 0, 0, 0, 0, 0, 0, 0, 0, 0, 0, 0, 1, 130772952819810400378433701978406799815955238247865116887],
  [0, 0, 0, 0, 0, 0, 0, 0, 0, 0, 0, 0, 0, 0, 1]]

def advLrows : List (List Int) := [
  [-1, 0, 0, 0, 0, 0, 0, 0, 0, 0, 0, 0, 0, 0, 0],
  [16384, -1, 0, 0, 0, 0, 0, 0, 0, 0, 0, 0, 0, 0, 0],
  [0, 16384, -1, 0, 0, 0, 0, 0, 0, 0, 0, 0, 0, 0, 0],
  [0, 0, 16384, -1, 0, 0, 0, 0, 0, 0, 0, 0, 0, 0, 0],
  [0, 0, 0, 16384, -1, 0, 0, 0, 0, 0, 0, 0, 0, 0, 0],
  [0, 0, 0, 0, 16384, -1, 0, 0, 0, 0, 0, 0, 0, 0, 0],
  [0, 0, 0, 0, 0, 16384, -1, 0, 0, 0, 0, 0, 0, 0, 0],
  [0, 0, 0, 0, 0, 0, 16384, -1, 0, 0, 0, 0, 0, 0, 0],
  [0, 0, 0, 0, 0, 0, 0, 16384, -1, 0, 0, 0, 0, 0, 0],
  [0, 0, 0, 0, 0, 0, 0, 0, 16384, -1, 0, 0, 0, 0, 0],
  [0, 0, 0, 0, 0, 0, 0, 0, 0, 16384, -1, 0, 0, 0, 0],
  [0, 0, 0, 0, 0, 0, 0, 0, 0, 0, 16384, -1, 0, 0, 0],
  [0, 0, 0, 0, 0, 0, 0, 0, 0, 0, 0, 16384, -1, 0, 0],
  [0, 0, 0, 0, 0, 0, 0, 0, 0, 0, 0, 0, 16384, -1, 0],
  [0, 0, 0, 0, 0, 0, 0, 0, 0, 0, 0, 0, 0, 16384, 2142584058999773599800257773214217008184610623453022075082868]]

/-- the true determinant -/
def advDet : Int := 2142584058999773599800257773214217008184610623453022075082868

/-- a row list as an integer matrix (duplicate columns add up) -/
def intMatOf (n : ℕ) (m : Mat) : Matrix (Fin n) (Fin n) ℤ :=
  fun i j => ((m.getD i []).map (fun je => if je.1 = j.val then je.2 else 0)).sum

def denseOf (n : ℕ) (a : List (List Int)) : Matrix (Fin n) (Fin n) ℤ :=
  fun i j => (a.getD i []).getD j 0

set_option maxRecDepth 100000 in
theorem adv2_valid : mkMat advMat2 = some advMat2 := by decide +kernel

set_option maxRecDepth 100000 in
theorem adv2_primes : selectPrimes Ymq.Mg64.isprime64 advMat2 = some advPrimes := by decide +kernel

set_option maxRecDepth 100000 in
theorem adv2_loop : detzLoop Ymq.Arith.invMod64 advMat2 16 advPrimes [] [] 0 = some 0 := by
  decide +kernel

set_option maxRecDepth 100000 in
theorem adv2_mul : intMatOf 15 advMat2 * denseOf 15 advUrows = denseOf 15 advLrows := by
  decide +kernel

set_option maxRecDepth 100000 in
theorem adv2_U_tri : ∀ i j : Fin 15, j < i → (advUrows.getD i.val []).getD j.val 0 = 0 := by
  decide +kernel

set_option maxRecDepth 100000 in
theorem adv2_U_diag : ∏ i : Fin 15, denseOf 15 advUrows i i = 1 := by decide +kernel

set_option maxRecDepth 100000 in
theorem adv2_L_tri : ∀ i j : Fin 15, i < j → (advLrows.getD i.val []).getD j.val 0 = 0 := by
  decide +kernel

set_option maxRecDepth 100000 in
theorem adv2_L_diag : ∏ i : Fin 15, denseOf 15 advLrows i i = advDet := by decide +kernel

theorem adv2_det : (intMatOf 15 advMat2).det = advDet := by
  have hU : (denseOf 15 advUrows).det = 1 := by
    have h : (denseOf 15 advUrows).BlockTriangular id := fun i j h => adv2_U_tri i j h
    rw [Matrix.det_of_upperTriangular h, adv2_U_diag]
  have hL : (denseOf 15 advLrows).det = advDet := by
    have h : ∀ i j : Fin 15, i < j → denseOf 15 advLrows i j = 0 := fun i j h => adv2_L_tri i j h
    rw [Matrix.det_of_lowerTriangular _ h, adv2_L_diag]
  have := congrArg Matrix.det adv2_mul
  rw [Matrix.det_mul, hU, mul_one, hL] at this
  exact this

theorem advDet_ne_zero : advDet ≠ 0 := by decide

end Ymq.Wied
