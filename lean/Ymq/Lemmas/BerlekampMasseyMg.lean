/-
The two concrete closure records of the Berlekamp-Massey model (Ymq/Model/BerlekampMassey.lean)
satisfy the abstract specification `OpsOK` (Ymq/Lemmas/BerlekampMasseyOps.lean):

* `mgOps p pinv (R² mod p)` — the 64-bit Montgomery closures of `berlekamp_massey` — for an odd prime
  `p < 2^63`, with `κ = 1/R`, `R = 2^64` (`mgOps_ok`); `bm_prelude` shows that the prelude of `bm`
  (`mg_2adic_inv`, `rem_euclid`, the `debug_assert!`) does not panic and hands exactly this record
  to `core`;
* `bigOps p` — the `%`-closures over `U256`/`U512` with `inv_mod::<4>` of `berlekamp_massey_big` —
  for a prime `p < 2^244`, with `κ = 1` (`bigOps_ok`).

The bound `p < 2^63` is needed by `dotp`: the `u128` sum `a*b + c*d` overflows for a 64-bit prime
(`mgDotp_overflow_64bit_prime`).
The word-level facts come from C07 (`mgRedc_spec`, `mgMul_spec`, `mg2adicInv_spec`, `mgInv_spec`)
and C09 (`inv_mod_no_panic`, `inv_mod_spec`).
-/
import Ymq.Lemmas.BerlekampMasseyOps
import Ymq.Props.C07
import Ymq.Props.C09
import Mathlib.Data.ZMod.Basic
import Mathlib.Algebra.Field.ZMod
import Mathlib.Tactic.Ring
import Mathlib.Tactic.Linarith
import Mathlib.Tactic.FieldSimp

namespace Ymq.BM
open Ymq.Mg64

/-! ### casts -/

private theorem W_eq : W = 2 ^ 64 := by decide

private theorem two_lt_of_odd_prime (p : ℕ) [hp : Fact p.Prime] (hodd : p % 2 = 1) : 2 < p := by
  have := hp.out.two_le
  omega

/-- `R = 2^64` is a unit modulo an odd prime -/
private theorem W_ne_zero (p : ℕ) [hp : Fact p.Prime] (hodd : p % 2 = 1) : (W : ZMod p) ≠ 0 := by
  intro h
  rw [ZMod.natCast_eq_zero_iff, W_eq] at h
  have h2 : p ∣ 2 := hp.out.dvd_of_dvd_pow h
  have := Nat.le_of_dvd (by decide) h2
  have := two_lt_of_odd_prime p hodd
  omega

/-- the conclusion of `mgRedc_spec` in `ZMod p` -/
private theorem redc_cast {p r x : ℕ} [Fact p.Prime] (hodd : p % 2 = 1) (h : r * W % p = x % p) :
    (r : ZMod p) = (W : ZMod p)⁻¹ * x := by
  have h1 : ((r * W : ℕ) : ZMod p) = (x : ZMod p) := (ZMod.natCast_eq_natCast_iff' _ _ _).2 h
  rw [Nat.cast_mul] at h1
  rw [← h1, mul_comm, mul_assoc, mul_inv_cancel₀ (W_ne_zero p hodd), mul_one]

private theorem coprime_of_pos_lt {p a : ℕ} [hp : Fact p.Prime] (h0 : 0 < a) (ha : a < p) :
    Nat.gcd a p = 1 := by
  rw [Nat.gcd_comm]
  exact (Nat.Prime.coprime_iff_not_dvd hp.out).2 (Nat.not_dvd_of_pos_of_lt h0 ha)

/-! ### the Montgomery closures -/

/-- `invp` on a non-zero residue: `r·a = R²` -/
private theorem mgInvp_spec (p pinv : ℕ) [Fact p.Prime] (hodd : p % 2 = 1) (hpW : p < W)
    (hpinv : (p * pinv + 1) % W = 0) (a : ℕ) (h0 : 0 < a) (ha : a < p) :
    ∃ r, mgInvp p pinv (W % p * (W % p) % p) a = some r ∧ r < p ∧
      (r : ZMod p) * a = (W : ZMod p) * W := by
  have hp0 : 0 < p := by omega
  have hr2 : W % p * (W % p) % p < W := lt_trans (Nat.mod_lt _ hp0) hpW
  obtain ⟨r, e1, e2, e3⟩ := (Ymq.C07.mgInv_spec p pinv _ a hodd hpW hpinv hr2 (lt_trans ha hpW)).1
    (coprime_of_pos_lt h0 ha)
  refine ⟨r, by simp only [mgInvp, e1], e2, ?_⟩
  have h1 : ((r * a : ℕ) : ZMod p) = ((W % p * (W % p) % p : ℕ) : ZMod p) :=
    (ZMod.natCast_eq_natCast_iff' _ _ _).2 e3
  rw [ZMod.natCast_mod, Nat.cast_mul, Nat.cast_mul, ZMod.natCast_mod] at h1
  exact h1

theorem mgOps_ok (p pinv : ℕ) [Fact p.Prime] (hodd : p % 2 = 1) (hp : p < 2 ^ 63)
    (hpinv : (p * pinv + 1) % Ymq.Mg64.W = 0) :
    OpsOK (mgOps p pinv (Ymq.Mg64.W % p * (Ymq.Mg64.W % p) % p)) p ((Ymq.Mg64.W : ZMod p)⁻¹) := by
  have hp0 : 0 < p := by omega
  have hpW : p < W := by rw [W_eq]; omega
  have h2pW : 2 * p ≤ W := by rw [W_eq]; omega
  have hW : (W : ZMod p) ≠ 0 := W_ne_zero p hodd
  constructor
  · -- mul
    intro a b ha hb
    obtain ⟨r, e1, e2, e3⟩ := Ymq.C07.mgMul_spec p pinv a b hp0 hpW hpinv ha (lt_trans hb hpW)
    refine ⟨r, e1, e2, ?_⟩
    rw [redc_cast hodd e3, Nat.cast_mul, mul_assoc]
  · -- dot
    intro _ a b c d ha hb hc hd
    have hab : a * b < p * p := Nat.mul_lt_mul_of_lt_of_lt ha hb
    have hcd : c * d < p * p := Nat.mul_lt_mul_of_lt_of_lt hc hd
    have hs : a * b + c * d < p * W := by
      have : 2 * p * p ≤ W * p := Nat.mul_le_mul_right p h2pW
      nlinarith
    have hs128 : ¬ (a * b + c * d ≥ U128) := by
      have : p * W < W * W := Nat.mul_lt_mul_of_pos_right hpW (by decide)
      have hU : W * W = U128 := by decide
      omega
    obtain ⟨r, e1, e2, e3⟩ := Ymq.C07.mgRedc_spec p pinv (a * b + c * d) hp0 hpW hpinv hs
    refine ⟨r, ?_, e2, ?_⟩
    · show mgDotp p pinv a b c d = some r
      unfold mgDotp
      simp only [hs128, if_false, e1]
    · rw [redc_cast hodd e3]; push_cast; rfl
  · -- inv
    intro a h0 ha
    obtain ⟨r, e1, e2, e3⟩ := mgInvp_spec p pinv hodd hpW hpinv a h0 ha
    refine ⟨r, e1, e2, ?_⟩
    rw [mul_assoc, e3]
    field_simp
  · -- sub
    intro a b ha hb
    show ∃ r, mgSubp p a b = some r ∧ _
    unfold mgSubp
    by_cases hba : b ≤ a
    · rw [if_pos hba]
      exact ⟨a - b, rfl, by omega, Nat.cast_sub hba⟩
    · rw [if_neg hba, if_neg (by omega), if_neg (by omega)]
      refine ⟨a + (p - b), rfl, by omega, ?_⟩
      rw [Nat.cast_add, Nat.cast_sub (le_of_lt hb), ZMod.natCast_self]
      ring
  · -- fin
    intro a h0 ha
    obtain ⟨i, e1, e2, e3⟩ := mgInvp_spec p pinv hodd hpW hpinv a h0 ha
    obtain ⟨q, f1, f2, f3⟩ := Ymq.C07.mgRedc_spec p pinv i hp0 hpW hpinv
      (lt_of_lt_of_le e2 (Nat.le_mul_of_pos_right p (by decide)))
    refine ⟨q, ?_, f2, ?_⟩
    · show (do let i ← mgInvp p pinv _ a; mgRedc p pinv i) = some q
      rw [e1]; exact f1
    · rw [redc_cast hodd f3, mul_assoc, mul_assoc, e3]
      field_simp

/-- the prelude of `berlekamp_massey` (lines 582-591) does not panic for an odd prime `p < 2^63`:
`mg_2adic_inv(p)` returns a valid `pinv`, `p ≠ 0`, and the `debug_assert!(mulp(2, invp(2)) == r)`
holds; the loop then runs with the closures `mgOps p pinv (R² mod p)`. -/
theorem bm_prelude (p : ℕ) [Fact p.Prime] (hodd : p % 2 = 1) (hp : p < 2 ^ 63) (seq : List ℕ) :
    ∃ pinv, (p * pinv + 1) % Ymq.Mg64.W = 0 ∧
      bm p seq = core (mgOps p pinv (Ymq.Mg64.W % p * (Ymq.Mg64.W % p) % p)) seq := by
  obtain ⟨pinv, e1, _, e3⟩ := Ymq.C07.mg2adicInv_spec p hodd
  refine ⟨pinv, e3, ?_⟩
  have ok := mgOps_ok p pinv hodd hp e3
  have h2 := two_lt_of_odd_prime p hodd
  have hp0 : p ≠ 0 := by omega
  have hW := W_ne_zero p hodd
  obtain ⟨i2, f1, f2, f3⟩ := ok.inv 2 (by decide) h2
  obtain ⟨m2, g1, g2, g3⟩ := ok.mul 2 i2 h2 f2
  have hm : m2 = W % p := by
    have h : (m2 : ZMod p) = (W : ZMod p) := by
      rw [g3]
      calc (W : ZMod p)⁻¹ * ((2 : ℕ) : ZMod p) * (i2 : ZMod p)
          = ((W : ZMod p) * (W : ZMod p)⁻¹) * ((W : ZMod p)⁻¹ * ((2 : ℕ) : ZMod p) * (i2 : ZMod p)) := by
            rw [mul_inv_cancel₀ hW, one_mul]
        _ = (W : ZMod p) * ((W : ZMod p)⁻¹ * (W : ZMod p)⁻¹ * (i2 : ZMod p) * ((2 : ℕ) : ZMod p)) := by
            ring
        _ = (W : ZMod p) := by rw [f3, mul_one]
    have := (ZMod.natCast_eq_natCast_iff' m2 W p).1 h
    rwa [Nat.mod_eq_of_lt g2] at this
  have f1' : mgInvp p pinv (W % p * (W % p) % p) 2 = some i2 := f1
  have g1' : mgMul p pinv 2 i2 = some m2 := g1
  unfold bm
  rw [e1]
  simp only [Option.bind_eq_bind, Option.bind_some, if_neg hp0]
  show (do
    let i2 ← mgInvp p pinv (W % p * (W % p) % p) 2
    let m2 ← mgMul p pinv 2 i2
    if m2 ≠ W % p then none else core (mgOps p pinv (W % p * (W % p) % p)) seq) = _
  rw [f1']
  simp only [Option.bind_eq_bind, Option.bind_some, g1', hm, ne_eq, not_true_eq_false, if_false]

/-! ### the `%`-closures over `U256` -/

/-- `inv_mod::<4>(a, p).unwrap()` on a non-zero residue of a prime `p < 2^244` -/
private theorem bigInvp_spec (p : ℕ) [Fact p.Prime] (hp : p < 2 ^ 244) (a : ℕ) (h0 : 0 < a)
    (ha : a < p) : ∃ r, bigInvp p a = some r ∧ r < p ∧ (r : ZMod p) * a = 1 := by
  have hp0 : p ≠ 0 := (Fact.out : p.Prime).ne_zero
  obtain ⟨r, hr⟩ := Ymq.C09.inv_mod_no_panic 4 (by decide) a p hp0 (lt_trans ha hp) hp
  have hs := Ymq.C09.inv_mod_spec 4 (by decide) a p r hr
  cases r with
  | ok x =>
    obtain ⟨h1, h2⟩ := hs
    refine ⟨x, by simp only [bigInvp, hr], h1, ?_⟩
    have h3 : ((a * x : ℕ) : ZMod p) = ((1 : ℕ) : ZMod p) :=
      (ZMod.natCast_eq_natCast_iff' _ _ _).2 h2
    rw [Nat.cast_mul, Nat.cast_one] at h3
    rw [mul_comm]; exact h3
  | err d =>
    obtain ⟨h1, h2⟩ := hs
    exact absurd (h1.trans (coprime_of_pos_lt h0 ha)) h2

theorem bigOps_ok (p : ℕ) [Fact p.Prime] (hp : p < 2 ^ 244) : OpsOK (bigOps p) p (1 : ZMod p) := by
  have hp0 : p ≠ 0 := (Fact.out : p.Prime).ne_zero
  have hpos : 0 < p := Nat.pos_of_ne_zero hp0
  constructor
  · -- mul
    intro a b _ _
    refine ⟨a * b % p, ?_, Nat.mod_lt _ hpos, ?_⟩
    · show (if p = 0 then none else some (a * b % p)) = _
      rw [if_neg hp0]
    · rw [ZMod.natCast_mod, Nat.cast_mul, one_mul]
  · -- dot: the two-term step does not exist
    intro h
    exact absurd (h : false = true) Bool.false_ne_true
  · -- inv
    intro a h0 ha
    obtain ⟨r, e1, e2, e3⟩ := bigInvp_spec p hp a h0 ha
    exact ⟨r, e1, e2, by rw [one_mul, one_mul]; exact e3⟩
  · -- sub
    intro a b ha hb
    show ∃ r, bigSubp p a b = some r ∧ _
    unfold bigSubp
    by_cases hba : a ≥ b
    · rw [if_pos hba]
      exact ⟨a - b, rfl, by omega, Nat.cast_sub hba⟩
    · have hU : U256 = 2 ^ 256 := rfl
      rw [if_neg hba, if_neg (by omega)]
      refine ⟨a + p - b, rfl, by omega, ?_⟩
      rw [Nat.cast_sub (by omega), Nat.cast_add, ZMod.natCast_self, add_zero]
  · -- fin
    intro a h0 ha
    obtain ⟨r, e1, e2, e3⟩ := bigInvp_spec p hp a h0 ha
    exact ⟨r, e1, e2, by rw [one_mul]; exact e3⟩

theorem bmBig_eq (p : ℕ) (seq : List ℕ) : bmBig p seq = core (bigOps p) seq := rfl

/-- The bound `p < 2^63` of `mgOps_ok` matters. For `P = 2^64 - 59 = 18446744073709551557` (the
largest 64-bit prime; its primality is not proved here), which is odd, `< 2^64`, and comes with the
valid `pinv` that `mg_2adic_inv` returns, the `u128` sum `a*b + c*d` of `dotp` overflows on the
reduced operands `a = b = c = d = P - 1`: a panic in the checked profile (the release profile wraps
and returns a wrong residue). -/
theorem mgDotp_overflow_64bit_prime :
    18446744073709551557 % 2 = 1 ∧ 18446744073709551557 < W ∧ 2 ^ 63 < 18446744073709551557 ∧
    mg2adicInv 18446744073709551557 = some 14694863923124558067 ∧
    (18446744073709551557 * 14694863923124558067 + 1) % W = 0 ∧
    mgDotp 18446744073709551557 14694863923124558067 18446744073709551556 18446744073709551556
      18446744073709551556 18446744073709551556 = none := by
  decide +kernel

/-- non-vacuity of `mgOps_ok`/`bm_prelude` hypotheses and a concrete run: `p = 7`. -/
example : (7 : ℕ) % 2 = 1 ∧ (7 : ℕ) < 2 ^ 63 ∧ (7 * 10540996613548315209 + 1) % W = 0 ∧
    mg2adicInv 7 = some 10540996613548315209 := by decide +kernel

end Ymq.BM
