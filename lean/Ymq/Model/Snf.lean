/-
Model of `SmithNormalForm` (src/matrix/intdense.rs:519-1063): `divider`, `modh128`, `modh256`,
`modh256u`, `normalize`, `colsub`, `colswap`, `submul_n`, `eliminate`, `eliminate_block`,
`reduce_rows`, `reduce_cols`, `reduce` and the dense conversion done by `new`.

Matrices are `List (List Int)` (rows). Every `i128` product/sum that the Rust code computes with
the plain operators is range-checked (`chk128`, the checked profile panics, the release profile
wraps); `I256` intermediates are range-checked with `chk256`; index errors, asserts, debug_asserts
and divisions by zero return `none`; loops take fuel.
`num_integer::Integer::extended_gcd` on `i128` is `Ymq.Arith.extendedGcd` (same Bezout
coefficients as the Rust loop); `Integer::gcd` is modelled by `Int.gcd` (its value).
The class number `h` computed by `compute_lattice_index` inside `new` (floating-point guided) is an
INPUT of the model.
No Mathlib import: this file is linked into the native driver.
-/
import Ymq.Model.Arith

namespace Ymq.Snf
open Ymq.Arith (chk128 extendedGcd)

abbrev Mat := List (List Int)

structure St where
  rows : Mat
  q : Mat
  gens : List Nat
  removed : List (Nat × List (Nat × Int))
  h : Nat
  qm : Nat          -- hinv.0
  qe : Int          -- hinv.1
  deriving Repr

/-! ### helpers -/

def get2 (m : Mat) (i j : Nat) : Option Int :=
  match m[i]? with
  | none => none
  | some r => r[j]?

def set2 (m : Mat) (i j : Nat) (v : Int) : Option Mat :=
  match m[i]? with
  | none => none
  | some r => if j < r.length then some (m.set i (r.set j v)) else none

def forM {σ α} (l : List α) (s : σ) (f : σ → α → Option σ) : Option σ :=
  match l with
  | [] => some s
  | a :: as => match f s a with
    | none => none
    | some s' => forM as s' f

def swapIdx {α} (l : List α) (i j : Nat) : Option (List α) :=
  match l[i]?, l[j]? with
  | some a, some b => some ((l.set i b).set j a)
  | _, _ => none

/-- `l.mapM f` for `Option`, written out -/
def mapOpt {α β} (f : α → Option β) : List α → Option (List β)
  | [] => some []
  | a :: as =>
    match f a with
    | none => none
    | some b =>
      match mapOpt f as with
      | none => none
      | some bs => some (b :: bs)

/-- `for idx in lo..hi { l[idx] = f(idx, l[idx]) }` for updates that only read the entry they replace
(the head of the list has index `idx`); `none` when `f` panics or when the list is shorter than `hi`. -/
def updRange {α} (f : Nat → α → Option α) (lo hi : Nat) : List α → Nat → Option (List α)
  | [], idx => if idx < hi then none else some []
  | v :: vs, idx =>
    match (if lo ≤ idx ∧ idx < hi then f idx v else some v) with
    | none => none
    | some v' =>
      match updRange f lo hi vs (idx + 1) with
      | none => none
      | some vs' => some (v' :: vs')

/-- `lo..hi` -/
def rangeFrom (lo hi : Nat) : List Nat := (List.range (hi - lo)).map (· + lo)

def P127 : Int := 2 ^ 127
def P128 : Int := 2 ^ 128
def P255 : Int := 2 ^ 255
def P256 : Int := 2 ^ 256

/-- truncating cast to `i128` -/
def wrap128 (x : Int) : Int := (x + P127) % P128 - P127
/-- truncating cast to `I256` -/
def wrap256 (x : Int) : Int := (x + P255) % P256 - P255
/-- checked `I256` result -/
def chk256 (x : Int) : Option Int := if -P255 ≤ x ∧ x < P255 then some x else none

/-- `BUint::bits` -/
def bits (x : Nat) : Nat := if x = 0 then 0 else Nat.log2 x + 1

/-! ### divider / modh -/

/-- `Self::divider(h)` -/
def divider (h : Nat) : Option (Nat × Int) :=
  if h ≥ 2 ^ 125 then none
  else if h = 0 then none
  else
    let q := 2 ^ 255 / h
    let qlen := bits q
    if qlen ≤ 127 then some (q, -255)
    else
      let shift := qlen - 127
      let round := (q / 2 ^ (shift - 1)) % 2
      some (q / 2 ^ shift + round, (shift : Int) - 255)

/-- `self.modh128(x)` -/
def St.modh128 (s : St) (x : Int) : Option Int :=
  let q := wrap128 ((x * s.qm) / (2 : Int) ^ (-s.qe).toNat)
  match chk128 (q * s.h) with
  | none => none
  | some qh =>
    match chk128 (x - qh) with
    | none => none
    | some rem => if s.h = 0 then none else some (rem % (s.h : Int))

/-- `self.modh256u(x)` for a `U256` value -/
def St.modh256u (s : St) (x : Nat) : Option Int :=
  let sh := (-s.qe).toNat
  let q? : Option Nat :=
    if x < 2 ^ 128 then some ((x * s.qm) % 2 ^ 256 / 2 ^ sh % 2 ^ 128)
    else
      let shift := bits x - 128
      if sh < shift then none
      else some (((x / 2 ^ shift) * s.qm) % 2 ^ 256 / 2 ^ (sh - shift) % 2 ^ 128)
  match q? with
  | none => none
  | some q =>
    match chk256 (wrap256 x - (q : Int) * s.h) with
    | none => none
    | some d => if s.h = 0 then none else some (wrap128 d % (s.h : Int))

/-- `self.modh256(x)`: a negative multiple of `h` is mapped to `h`, not to `0`. -/
def St.modh256 (s : St) (x : Int) : Option Int :=
  if x < 0 then (s.modh256u x.natAbs).map (fun r => (s.h : Int) - r)
  else s.modh256u x.natAbs

/-- `self.h > 0 && self.h < 1 << 63` -/
def St.small (s : St) : Bool := 0 < s.h ∧ s.h < 2 ^ 63

/-- `a * b` reduced: `modh128(a * b)` on the small path, `modh256(I256 a * I256 b)` otherwise -/
def St.mulMod (s : St) (a b : Int) : Option Int :=
  if s.small then
    match chk128 (a * b) with
    | none => none
    | some p => s.modh128 p
  else
    match chk256 (a * b) with
    | none => none
    | some p => s.modh256 p

/-- `a - k * b` reduced (the two paths of `colsub`) -/
def St.subMulMod (s : St) (a k b : Int) : Option Int :=
  if s.small then
    match chk128 (k * b) with
    | none => none
    | some t =>
      match chk128 (a - t) with
      | none => none
      | some d => s.modh128 d
  else
    match chk256 (k * b) with
    | none => none
    | some t =>
      match chk256 (a - t) with
      | none => none
      | some d => s.modh256 d

/-! ### normalize -/

/-- `while gcd(e.gcd, e.x) != 1 { e.x += h / e.gcd }` -/
def coprimeLoop (g step : Int) : Nat → Int → Option Int
  | 0, _ => none
  | f + 1, x =>
    if Int.gcd g x = 1 then some x
    else
      match chk128 (x + step) with
      | none => none
      | some x' => coprimeLoop g step f x'

def normFuel : Nat := 100000

/-- `self.normalize(i, k)` -/
def St.normalize (s : St) (i k : Nat) : Option St :=
  let h : Int := s.h
  match get2 s.rows i k with
  | none => none
  | some a =>
    match extendedGcd a h with
    | none => none
    | some (g, x, _) =>
      if a = g then some s
      else if g = 0 then none
      else
        let m := Int.tdiv h g
        if Int.gcd x m ≠ 1 then none                      -- debug_assert
        else
          match coprimeLoop g m normFuel x with
          | none => none
          | some x =>
            if h = 0 then none
            else
              let x := x % h
              if Int.gcd x h ≠ 1 then none                -- debug_assert
              else
                -- for k in 0..gens.len() { rows[i][k] = modh(rows[i][k] * x) }
                match s.rows[i]? with
                | none => none
                | some row =>
                  match updRange (fun _ vi => s.mulMod vi x) 0 s.gens.length row 0 with
                  | none => none
                  | some row' => some { s with rows := s.rows.set i row' }

/-! ### submul_n / eliminate -/

/-- the `debug_assert!` at the head of `submul_n` -/
def St.echelonOk (s : St) (j n : Nat) : Bool :=
  (List.range n).all (fun k =>
    (List.range (j + k)).all (fun c =>
      match get2 s.rows (j + k) c with
      | some v => v = 0 ∨ v = (s.h : Int)
      | none => false))

/-- `x - Σ m[k] * rows[j+k][idx]`, every step checked in the given integer type -/
def subProducts (chk : Int → Option Int) (rows : Mat) (j idx : Nat) : List Int → Nat → Int → Option Int
  | [], _, x => some x
  | m :: ms, k, x =>
    match get2 rows (j + k) idx with
    | none => none
    | some r =>
      match chk (m * r) with
      | none => none
      | some t =>
        match chk (x - t) with
        | none => none
        | some x' => subProducts chk rows j idx ms (k + 1) x'

/-- `self.submul_n(i, j, m)` with `N = m.length` -/
def St.submulN (s : St) (i j : Nat) (m : List Int) : Option St :=
  let n := m.length
  if n = 0 then none
  else if !s.echelonOk j n then none                       -- debug_assert
  else if j + n > s.gens.length then none                  -- assert
  else
    let small : Bool := 0 < s.h ∧ s.h < 2 ^ 63 / n
    -- for idx in j..gens.len() { rows[i][idx] = modh(rows[i][idx] - Σ m[k] * rows[j+k][idx]) }
    match s.rows[i]? with
    | none => none
    | some row =>
      match updRange (fun idx x0 =>
          match subProducts (if small then chk128 else chk256) s.rows j idx m 0 x0 with
          | none => none
          | some x => if small then s.modh128 x else s.modh256 x) j s.gens.length row 0 with
      | none => none
      | some row' => some { s with rows := s.rows.set i row' }

/-- `a * x + b * y` with checks -/
def lin2 (chk : Int → Option Int) (a x b y : Int) : Option Int :=
  match chk (a * x), chk (b * y) with
  | some u, some v => chk (u + v)
  | _, _ => none

/-- `self.eliminate(i, j, k)` -/
def St.eliminate (s : St) (i j k : Nat) : Option St :=
  if i = j then none
  else
    match get2 s.rows i k, get2 s.rows j k with
    | some xi, some xj =>
      if xj = 0 then some s
      else if xi = 1 ∨ (xi ≠ 0 ∧ Int.tmod xj xi = 0) then
        s.submulN j i [Int.tdiv xj xi]
      else
        match extendedGcd xi xj with
        | none => none
        | some (g, a, b) =>
          if g = 0 then none
          else
            match chk128 (0 - xj) with
            | none => none
            | some nxj =>
              let c := Int.tdiv nxj g
              let d := Int.tdiv xi g
              -- for idx in 0..gens.len(): (rows[i][idx], rows[j][idx]) = (a x + b y, c x + d y) mod h
              match s.rows[i]?, s.rows[j]? with
              | some ri, some rj =>
                let comb := fun (p q : Int) (x y : Int) =>
                  if s.small then (lin2 chk128 p x q y).map (· % (s.h : Int))
                  else
                    match lin2 chk256 p x q y with
                    | none => none
                    | some v => s.modh256 v
                let newI := updRange (fun idx x =>
                    match rj[idx]? with
                    | none => none
                    | some y => if x = 0 ∧ y = 0 then some x else comb a b x y) 0 s.gens.length ri 0
                let newJ := updRange (fun idx y =>
                    match ri[idx]? with
                    | none => none
                    | some x => if x = 0 ∧ y = 0 then some y else comb c d x y) 0 s.gens.length rj 0
                match newI, newJ with
                | some ri', some rj' => some { s with rows := (s.rows.set i ri').set j rj' }
                | _, _ => none
              | _, _ => none
    | _, _ => none

/-- the triangular update of the 8 multipliers in `eliminate_block` -/
def St.blockMs (s : St) (i : Nat) (ms : List Int) : Option (List Int) :=
  forM (List.range 8) ms (fun ms b =>
    forM (List.range b) ms (fun ms c =>
      match ms[b]?, ms[c]?, get2 s.rows (i + c) (i + b) with
      | some mb, some mc, some r =>
        match chk256 (mc * r) with
        | none => none
        | some t =>
          match chk256 (mb - t) with
          | none => none
          | some x => (s.modh256 x).map (ms.set b ·)
      | _, _, _ => none))

/-- `self.eliminate_block(j, start..end, upper)` -/
def St.eliminateBlock (s : St) (j e : Nat) (upper : Bool) : Nat → Nat → Option St
  | 0, _ => none
  | f + 1, i =>
    if e ≤ i then some s
    else
      match get2 s.rows j i with
      | none => none
      | some rji =>
        if rji = 0 then St.eliminateBlock s j e upper f (i + 1)
        else
          let blk : Option Bool :=
            if i + 8 < e then
              (rangeFrom i (i + 8)).foldl (fun acc c =>
                match acc with
                | none => none
                | some false => some false               -- `all` short-circuits
                | some true => (get2 s.rows c c).map (· = 1)) (some true)
            else some false
          match blk with
          | none => none
          | some true =>
            match s.rows[j]? with
            | none => none
            | some rj =>
              let ms := (rj.drop i).take 8
              if ms.length ≠ 8 then none
              else
                match s.blockMs i ms with
                | none => none
                | some ms =>
                  match s.submulN j i ms with
                  | none => none
                  | some s' => St.eliminateBlock s' j e upper f (i + 8)
          | some false =>
            match get2 s.rows i i with
            | none => none
            | some di =>
              if !upper ∨ di = 1 ∨ (di > 0 ∧ Int.tmod rji di = 0) then
                match s.eliminate i j i with
                | none => none
                | some s' => St.eliminateBlock s' j e upper f (i + 1)
              else St.eliminateBlock s j e upper f (i + 1)

def St.elimBlock (s : St) (j lo hi : Nat) (upper : Bool) : Option St :=
  s.eliminateBlock j hi upper (hi - lo + 1) lo

/-! ### column operations -/

/-- one row of `colsub`: `row[i] = modh(row[i] - k * row[j])` -/
def St.colsubRow (s : St) (i j : Nat) (k : Int) (row : List Int) : Option (List Int) :=
  match row[i]?, row[j]? with
  | some yi, some yj => (s.subMulMod yi k yj).map (row.set i ·)
  | _, _ => none

/-- `self.colsub(i, j, k)`: column `i` -= `k` · column `j`, on the first `gens.len()` rows of `rows`
and of `q` -/
def St.colsub (s : St) (i j : Nat) (k : Int) : Option St :=
  if k = 0 then some s
  else
    match updRange (fun _ row => s.colsubRow i j k row) 0 s.gens.length s.rows 0,
          updRange (fun _ row => s.colsubRow i j k row) 0 s.gens.length s.q 0 with
    | some rows, some q => some { s with rows := rows, q := q }
    | _, _ => none

/-- `if self.rows[k][k] == 0 { self.rows[k][k] = self.h }` -/
def St.zeroToH (s : St) (k : Nat) : Option St :=
  match get2 s.rows k k with
  | none => none
  | some v => if v = 0 then (set2 s.rows k k s.h).map (fun rows => { s with rows := rows }) else some s

/-- `self.colswap(i, j)` -/
def St.colswap (s : St) (i j : Nat) : Option St :=
  match mapOpt (swapIdx · i j) s.rows, mapOpt (swapIdx · i j) s.q with
  | some rows, some q =>
    let s := { s with rows := rows, q := q }
    match forM (rangeFrom i j) s (fun s k =>
        match forM (rangeFrom (k + 1) (j + 1)) s (fun s l => s.eliminate k l k) with
        | none => none
        | some s =>
          match s.normalize k k with
          | none => none
          | some s => s.zeroToH k) with
    | none => none
    | some s =>
      match s.normalize j j with
      | none => none
      | some s => s.zeroToH j
  | _, _ => none

/-! ### reduce_rows -/

/-- `i128::saturating_mul` -/
def satMul128 (a b : Int) : Int :=
  let p := a * b
  if p < Ymq.Arith.I128MIN then Ymq.Arith.I128MIN else if p > Ymq.Arith.I128MAX then Ymq.Arith.I128MAX else p

/-- `diag.iter().fold(1i128, |acc, &d| acc.saturating_mul(d))` -/
def prod128 : List Int → Int → Option Int
  | [], acc => some acc
  | x :: xs, acc => prod128 xs (satMul128 acc x)

def St.diag (s : St) (n : Nat) : Option (List Int) := (List.range n).mapM (fun j => get2 s.rows j j)

/-- `for j in i+1..rows.len() { if rows[j][i] & 1 == 1 { rows.swap(i, j); break } }` -/
def St.findOdd (s : St) (i : Nat) : List Nat → Option St
  | [] => some s
  | j :: js =>
    match get2 s.rows j i with
    | none => none
    | some v => if v % 2 = 1 then (swapIdx s.rows i j).map (fun rows => { s with rows := rows })
                else St.findOdd s i js

/-- first loop of `reduce_rows` (one value of `i`) -/
def St.triStep (s : St) (i : Nat) : Option St :=
  match get2 s.rows i i with
  | none => none
  | some v =>
    match (if v = 0 then s.findOdd i (rangeFrom (i + 1) s.rows.length) else some s) with
    | none => none
    | some s =>
      match s.elimBlock i 0 i false with
      | none => none
      | some s =>
        match get2 s.rows i i with
        | none => none
        | some v =>
          match (if v ≠ 0 then s.normalize i i
                 else (set2 s.rows i i s.h).map (fun rows => { s with rows := rows })) with
          | none => none
          | some s =>
            forM (List.range i) s (fun s j =>
              match get2 s.rows i j with
              | none => none
              | some v =>
                if v = (s.h : Int) then (set2 s.rows i j 0).map (fun rows => { s with rows := rows })
                else if v = 0 then some s else none)          -- assert_eq!(rows[i][j], 0)

/-- second loop of `reduce_rows` (`for i in n..rows.len()` with `break`) -/
def St.extraRows (s : St) (n : Nat) : List Nat → Option St
  | [] => some s
  | i :: is =>
    match s.elimBlock i 0 n false with
    | none => none
    | some s =>
      if n = 0 then none                                    -- `n - 1`
      else
        match s.zeroToH (n - 1) with
        | none => none
        | some s =>
          match s.diag n with
          | none => none
          | some d =>
            match prod128 d 1 with
            | none => none
            | some prod => if prod = (s.h : Int) then some s else St.extraRows s n is

/-- extraction of the generators whose relation has coefficient 1 -/
def St.extract (s : St) (n : Nat) : List Nat → List (List Int) → List Nat →
    List (Nat × List (Nat × Int)) → Option (List (List Int) × List Nat × List (Nat × List (Nat × Int)))
  | [], remaining, cols, removed => some (remaining, cols, removed)
  | j :: js, remaining, cols, removed =>
    match get2 s.rows j j, s.rows[j]? with
    | some d, some rj =>
      if d = 1 then
        match s.gens[j]? with
        | none => none
        | some p =>
          let rel := (rangeFrom (j + 1) n).mapM (fun idx =>
            match rj[idx]?, s.gens[idx]? with
            | some e, some g =>
              some (if e = 0 then none
                    else if e.natAbs < s.h / 2 then some (g, -e) else some (g, (s.h : Int) - e))
            | _, _ => none)
          match rel with
          | none => none
          | some rel => St.extract s n js remaining cols (removed ++ [(p, rel.filterMap id)])
      else St.extract s n js (remaining ++ [rj]) (cols ++ [j]) removed
    | _, _ => none

/-- `self.reduce_rows()` -/
def St.reduceRows (s : St) : Option St :=
  let n := s.gens.length
  match forM (List.range n) s St.triStep with
  | none => none
  | some s =>
    match s.extraRows n (rangeFrom n s.rows.length) with
    | none => none
    | some s =>
      let s := { s with rows := s.rows.take n }
      match forM (List.range n) s (fun s j =>
          match get2 s.rows j j with
          | none => none
          | some v => if v ≠ 0 then s.normalize j j else some s) with
      | none => none
      | some s =>
        match forM (List.range n) s (fun s j => s.elimBlock j (j + 1) n true) with
        | none => none
        | some s =>
          match s.extract n (List.range n) [] [] s.removed with
          | none => none
          | some (remaining, cols, removed) =>
            match remaining.mapM (fun r => cols.mapM (r[·]?)), cols.mapM (s.gens[·]?) with
            | some rows, some gens =>
              if rows.length ≠ gens.length then none
              else some { s with rows := rows, gens := gens, removed := removed }
            | _, _ => none

/-! ### reduce_cols -/

def identity (n : Nat) : Mat :=
  (List.range n).map (fun i => (List.range n).map (fun j => if i = j then 1 else 0))

/-- `while self.rows[i][j] != 0 { ... }`; returns the state and whether the body ran -/
def St.colWhile (s : St) (i j : Nat) : Nat → Bool → Option (St × Bool)
  | 0, _ => none
  | f + 1, ran =>
    match get2 s.rows i j, get2 s.rows i i with
    | some rij, some rii =>
      if rij = 0 then some (s, ran)
      else if rii = 0 then none                             -- div_euclid by zero
      else
        match s.colsub j i (rij / rii) with
        | none => none
        | some s =>
          match get2 s.rows i j with
          | none => none
          | some rij' =>
            match (if rij' ≠ 0 then s.colswap i j else some s) with
            | none => none
            | some s => St.colWhile s i j f true
    | _, _ => none

def colFuel : Nat := 1000

/-- body of the `for j in i+1..n` loop -/
def St.colPair (s : St) (more : Bool) (i j : Nat) : Option (St × Bool) :=
  match s.colWhile i j colFuel false with
  | none => none
  | some (s, ran) =>
    match get2 s.rows i i, get2 s.rows j j with
    | some rii, some rjj =>
      if rii ≠ 0 ∧ Int.tmod rjj rii ≠ 0 then
        match s.colsub j i 1 with
        | none => none
        | some s => (s.colswap i j).map (fun s => (s, true))
      else some (s, more || ran)
    | _, _ => none

/-- one pass `for i in 0..n { for j in i+1..n { ... } }` -/
def St.colPass (s : St) (n : Nat) : Option (St × Bool) :=
  forM (List.range n) (s, false) (fun (s, more) i =>
    forM (rangeFrom (i + 1) n) (s, more) (fun (s, more) j => s.colPair more i j))

/-- `for _ in 0..10` -/
def St.colPasses (s : St) (n : Nat) : Nat → Option St
  | 0 => some s
  | k + 1 =>
    match s.colPass n with
    | none => none
    | some (s, more) => if more then St.colPasses s n k else some s

/-- `self.reduce_cols()` -/
def St.reduceCols (s : St) : Option St :=
  let n := s.rows.length
  St.colPasses { s with q := identity n } n 10

/-! ### reduce -/

/-- `for i in 0..rows.len() { if rows[i][i] == 0 { rows[i][i] = h } }` -/
def St.zeroAll (s : St) : Option St :=
  forM (List.range s.rows.length) s (fun s i => s.zeroToH i)

/-- the diagonal of a matrix -/
def diagList (M : Mat) : Option (List Int) := mapOpt (fun i => get2 M i i) (List.range M.length)

/-- the `assert_eq!(rows[i][j], 0)` of the two check loops: below the diagonal (`full = false`) or
everywhere off the diagonal (`full = true`) -/
def offDiagOk (M : Mat) (full : Bool) : Bool :=
  (List.range M.length).all (fun i =>
    (if full then (List.range M.length).filter (· ≠ i) else List.range i).all (fun j => get2 M i j = some 0))

/-- the check loops of `reduce`: zero diagonal entries become `h`, the (saturating) product of the
diagonal is accumulated, the listed off-diagonal entries must vanish. The three actions of the loop
body only touch/read disjoint cells, so they are modelled one after the other. -/
def St.checkDiag (s : St) (full : Bool) : Option (St × Int) :=
  match s.zeroAll with
  | none => none
  | some s =>
    match diagList s.rows with
    | none => none
    | some ds => if offDiagOk s.rows full then some (s, ds.foldl satMul128 1) else none

/-- the `HACK` of `reduce` (orphan generator with relation p^2) -/
def St.hack (s : St) (det : Int) : Option (St × Int) :=
  if det = 2 * (s.h : Int) ∧ s.rows.length ≥ 2 ∧ get2 s.rows 0 0 = some 2 then
    match s.gens[0]?, s.gens[1]? with
    | some g0, some g1 =>
      if 100 * g1 ≥ 2 ^ 32 then none                       -- u32 overflow (checked profile)
      else if (s.rows.length ≥ 3 ∧ g0 > 20 * g1 ∧ g1 > 10) ∨ g0 > 100 * g1 then
        some ({ s with rows := (s.rows.drop 1).map (·.drop 1), gens := s.gens.drop 1 }, det / 2)
      else some (s, det)
    | _, _ => none
  else some (s, det)

/-- `self.reduce()` -/
def St.reduce (s : St) : Option St :=
  match s.reduceRows with
  | none => none
  | some s =>
    match s.checkDiag false with
    | none => none
    | some (s, det) =>
      match s.hack det with
      | none => none
      | some (s, det) =>
        if det ≠ (s.h : Int) then none
        else
          match s.reduceCols with
          | none => none
          | some s =>
            match s.checkDiag true with
            | none => none
            | some (s, det) => if det ≠ (s.h : Int) then none else some s

/-! ### new -/

def insertUniq (x : Nat) : List Nat → List Nat
  | [] => [x]
  | y :: ys => if x < y then x :: y :: ys else if x = y then y :: ys else y :: insertUniq x ys

/-- the merge loop building one dense row (generators ascending), before `v.reverse()` -/
def denseRow (row : List (Nat × Int)) : List Nat → Nat → List Int
  | [], _ => []
  | p :: gs, j =>
    if row.length ≤ j then 0 :: denseRow row gs j            -- `break`: remaining entries stay 0
    else
      let j' := j + ((row.drop j).takeWhile (fun e => e.1 < p)).length
      match row[j']? with
      | some (p', e) => (if p' = p then e else 0) :: denseRow row gs j'
      | none => 0 :: denseRow row gs j'

/-- `SmithNormalForm::new(rels, [], _, _)` with the lattice index `h` given -/
def St.new (rels : List (List (Nat × Int))) (h : Nat) : Option St :=
  let gens := rels.foldl (fun acc row => row.foldl (fun acc e => insertUniq e.1 acc) acc) []
  if rels.length < gens.length then none
  else
    let rows := (rels.filter (· ≠ [])).map (fun row => (denseRow row gens 0).reverse)
    match divider h with
    | none => none
    | some (qm, qe) =>
      some { rows := rows, q := [], gens := gens.reverse, removed := [], h := h, qm := qm, qe := qe }

/-- a state with given `h`, `gens`, `rows`, `q` (what the harness builds for the `snf_*` ops) -/
def St.mk' (h : Nat) (gens : List Nat) (rows q : Mat) : Option St :=
  match divider h with
  | none => none
  | some (qm, qe) => some { rows := rows, q := q, gens := gens, removed := [], h := h, qm := qm, qe := qe }

end Ymq.Snf
