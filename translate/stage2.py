#!/usr/bin/env python3
"""Index structure of the stage-2 grids (C16): loop bounds of the baby/giant steps of
ecm::ecm_curve, ecm128::ecm_curve, pp1::pp1, pollard_pm1::pm1_stage2_polyeval and the P-1
prime walk, the call sites of pp1 / pm1_impl that exist only in the test-suite, and the
factorisation of every d1 of the P-1 table (the polynomial degree is phi(d1) + 1).

The tables themselves and the hard-wired arms are in Gen/Stage2.lean (translate/params.py).
Output: lean/Ymq/Gen/Stage2Arms.lean.  Every pattern that no longer matches raises ExtractError.
"""
import re, sys, os
sys.path.insert(0, os.path.dirname(os.path.abspath(__file__)))
from common import *


def ws(pat):
    """pattern written with single spaces -> tolerant of any whitespace/newlines"""
    return re.sub(r" +", r"\\s*", pat)


def fn_body(text, header_pat, what):
    m = must(header_pat, text, what)
    i = text.index("{", m.end() - 1)
    depth = 0
    for j in range(i, len(text)):
        if text[j] == "{":
            depth += 1
        elif text[j] == "}":
            depth -= 1
            if depth == 0:
                return text[i + 1:j]
    raise ExtractError(f"unbalanced braces in {what}")


def table_rows(text, what):
    m = must(r"const STAGE2_PARAMS: &\[\(f64, u64, u64\)\] = &\[(.*?)\];", text, what)
    rows = []
    for mm in re.finditer(r"\(([^(),]+),([^(),]+),([^(),]+)\)", m.group(1)):
        rows.append((num_lit(mm.group(1)), int_lit(mm.group(2)), int_lit(mm.group(3))))
    if not rows:
        raise ExtractError(f"{what}: no rows")
    return rows


def factorize(n):
    fs, p = [], 2
    while p * p <= n:
        if n % p == 0:
            e = 0
            while n % p == 0:
                n //= p
                e += 1
            fs.append((p, e))
        p += 1
    if n > 1:
        fs.append((n, 1))
    return fs


def is_prime(n):
    if n < 2:
        return False
    for p in (2, 3, 5, 7, 11, 13, 17, 19, 23, 29, 31, 37):
        if n % p == 0:
            return n == p
    d, k = n - 1, 0
    while d % 2 == 0:
        d //= 2
        k += 1
    for a in (2, 3, 5, 7, 11, 13, 17, 19, 23, 29, 31, 37):      # deterministic below 3.3e24
        x = pow(a, d, n)
        if x in (1, n - 1):
            continue
        for _ in range(k - 1):
            x = x * x % n
            if x == n - 1:
                break
        else:
            return False
    return True


def phi_of(fs):
    r = 1
    for p, e in fs:
        r *= p ** (e - 1) * (p - 1)
    return r


def sym_eff(giant, d1, d2):
    first, pushed, loop_lo = giant
    return (first + pushed + max(d2 - loop_lo, 0) - 1) * d1 + d1 // 2 - 1


def bad_rows(rows, eff):
    """(label, effective B2, first prime above the effective B2 that does not divide d1) for label > eff"""
    from math import gcd
    out = []
    for (lab, d1, d2) in rows:
        u = eff(d1, d2)
        if lab > u:
            w = u + 1
            while not (gcd(w, d1) == 1 and is_prime(w)):
                w += 1
            out.append((lab, u, w))
    return out


def _rho(n):
    """a non-trivial factor of the composite n (Pollard rho, deterministic start values)"""
    from math import gcd
    if n % 2 == 0:
        return 2
    for c in range(1, 200):
        x = y = 2
        d = 1
        while d == 1:
            x = (x * x + c) % n
            y = (y * y + c) % n
            y = (y * y + c) % n
            d = gcd(abs(x - y), n)
        if d != n:
            return d
    raise ExtractError(f"cannot factor {n}")


def factor_full(n):
    fs = {}
    todo = [n]
    while todo:
        m = todo.pop()
        if m == 1:
            continue
        if is_prime(m):
            fs[m] = fs.get(m, 0) + 1
            continue
        if m < 1 << 20:
            for p, e in factorize(m):
                fs[p] = fs.get(p, 0) + e
            continue
        d = _rho(m)
        todo += [d, m // d]
    return sorted(fs.items())


def pratt_entries(primes):
    """Pratt certificates, dependencies first: (p, a, [(q, e)]) with p - 1 = prod q^e, a a primitive root mod p;
    every q >= 2^16 has its own entry earlier in the list"""
    done, out = set(), []

    def go(p):
        if p in done or p < 65536:
            return
        if not is_prime(p):
            raise ExtractError(f"{p} is not prime")
        fs = factor_full(p - 1)
        for q, _ in fs:
            go(q)
        a = 2
        while not (pow(a, p - 1, p) == 1 and all(pow(a, (p - 1) // q, p) != 1 for q, _ in fs)):
            a += 1
        done.add(p)
        out.append((p, a, fs))
    for p in primes:
        go(p)
    return out


def ecm_like(body, what, mul_pat, dbl_pat, gg_init_pat, add_pat, push2_pat, push_loop_pat):
    """baby loop `for b in LO..d1 / DIV`, giant steps: first = [d1]G, second = its double,
    then `for _ in K..d2` adding [d1]G. Returns (babyLo, babyDiv, giantFirst, pushed, loopLo)."""
    m = must(ws(r"for b in (\d+)\.\.d1 / (\d+) \{ if Integer::gcd\(&b, &d1\) == 1 \{ bs\.push\(b\); \} \}"), body,
             f"{what}: baby-step list")
    lo, div = int(m.group(1)), int(m.group(2))
    must(ws(r"assert_eq!\(bs\[0\], 1\); steps\.push\(g\.clone\(\)\); let mut n_bsteps = 1 as usize; "
            r"for &b in &bs\[1\.\.\] \{ let gap = b - bexp;"), body, f"{what}: baby steps walk bs[0] = 1, bs[1..]")
    must(ws(r"let dg = " + mul_pat + r"; let dg2 = " + dbl_pat + r";"), body, f"{what}: [d1]G and its double")
    must(ws(gg_init_pat), body, f"{what}: running giant step starts at 2*[d1]G")
    m = must(ws(r"steps\.push\(dg\); " + push2_pat + r" for _ in (\d+)\.\.d2 \{ " + add_pat + r" " + push_loop_pat + r" \}"),
             body, f"{what}: giant-step loop")
    loop_lo = int(m.group(1))
    must(ws(r"let bsteps = &steps\[\.\.n_bsteps\]; let gsteps = &steps\[n_bsteps\.\.\];"), body, f"{what}: split of steps")
    return lo, div, 1, 2, loop_lo


def run():
    ecm = strip_rust_comments(src("src/ecm.rs"))
    ecm128 = strip_rust_comments(src("src/ecm128.rs"))
    pp1 = strip_rust_comments(src("src/pp1.rs"))
    pm1 = strip_rust_comments(src("src/pollard_pm1.rs"))
    # --- ECM (multiprecision)
    b_ecm = fn_body(ecm, r"fn ecm_curve\(\s*sb: &SmoothBase,", "ecm::ecm_curve")
    e = ecm_like(b_ecm, "ecm::ecm_curve", r"c\.scalar64_chainmul\(d1, &g\)", r"c\.double\(&dg\)",
                 r"let mut gg = c\.to_extended\(&dg2\);", r"gg = c\.addext\(&gg, &dgext\);",
                 r"steps\.push\(dg2\);", r"steps\.push\(gg\.to_proj\(\)\);")
    must(ws(r"let dgext = c\.to_extended\(&dg\);"), b_ecm, "ecm::ecm_curve: dgext")
    # both arms multiply y(G) - y(B) over all pairs
    must(ws(r"for pg in gsteps \{ for pb in bsteps \{ let delta_y = zn\.sub\(&pg\.1, &pb\.1\); "
            r"buffer = zn\.mul\(&buffer, &delta_y\); \} prods\.push\(buffer\); \}"), b_ecm, "ecm::ecm_curve: quadratic arm")
    must(ws(r"let pbs: Vec<MInt> = bsteps\.iter\(\)\.map\(\|p\| p\.1\)\.collect\(\); "
            r"let pgs: Vec<MInt> = gsteps\.iter\(\)\.map\(\|p\| p\.1\)\.collect\(\); "
            r"let mut vals = Poly::roots_eval\(zn, &pgs, &pbs\);"), b_ecm, "ecm::ecm_curve: roots_eval arm")
    # the values handed to check_gcd_factor: quadratic arm = 1 followed by one cumulative product per giant step;
    # roots_eval arm = the cumulative products shifted by one AND the full product pushed at the end
    must(ws(r"let mut buffer = zn\.one\(\); let mut prods = Vec::with_capacity\(gsteps\.len\(\)\); prods\.push\(buffer\); for pg in gsteps \{"),
         b_ecm, "ecm::ecm_curve: quadratic arm starts the products with 1")
    must(ws(r"prods\.push\(buffer\); \} if let Some\(d\) = check_gcd_factor\(n, &prods\) \{ result = Some\(\(d, n / d\)\); \}"), b_ecm,
         "ecm::ecm_curve: quadratic arm hands every row product to check_gcd_factor")
    must(ws(r"let mut prod = zn\.one\(\); for i in 0\.\.vals\.len\(\) \{ let v = vals\[i\]; vals\[i\] = prod; prod = zn\.mul\(&prod, &v\); \} "
            r"vals\.push\(prod\); if let Some\(d\) = check_gcd_factor\(n, &vals\) \{ result = Some\(\(d, n / d\)\); \}"), b_ecm,
         "ecm::ecm_curve: roots_eval arm: cumulative products and the final vals.push(prod)")
    # --- ECM128
    b_e128 = fn_body(ecm128, r"fn ecm_curve\(\s*c: &Curve,", "ecm128::ecm_curve")
    e128 = ecm_like(b_e128, "ecm128::ecm_curve", r"c\.scalar64_mul\(d1, &g\)", r"c\.dblext\(&dg\)",
                    r"let mut gg = dg2\.clone\(\);", r"gg = c\.add\(&gg, &dgext\);",
                    r"steps\.push\(dg2\.proj\(\)\);", r"steps\.push\(gg\.proj\(\)\);")
    must(ws(r"let dgext = c\.ext\(&dg\);"), b_e128, "ecm128::ecm_curve: dgext")
    must(ws(r"for pg in gsteps \{ for pb in bsteps \{ let delta_y = sub\(pg\.1, pb\.1\); "
            r"buffer = mul\(buffer, delta_y\); \} prods\.push\(buffer\); \}"), b_e128, "ecm128::ecm_curve: products")
    must(ws(r"let d = Integer::gcd\(&buffer\.0, &c\.n\); if d > 1 && d < n \{ return Some\(\(d, n / d\)\); \} None"), b_e128,
         "ecm128::ecm_curve: final gcd of the full product with the return guard")
    # --- P+1
    b_pp1 = fn_body(pp1, r"pub fn pp1\(", "pp1::pp1")
    m = must(ws(r"v\.push\(g\.clone\(\)\); let mut exp = (\d+); (?:debug_assert!\([^;]*\); )?"
                r"while exp \+ (\d+) < d1 / (\d+) \{ exp \+= (\d+); "
                r"\(bprev, b\) = \(b, zn\.sub\(&zn\.mul\(&b, &g2\), &bprev\)\); "
                r"if exp % 3 != 0 && Integer::gcd\(&exp, &d1\) == 1 \{ v\.push\(b\); \} \}"), b_pp1, "pp1: baby-step loop")
    pp1_start, pp1_ahead, pp1_div, pp1_step = (int(x) for x in m.groups())
    if pp1_ahead != pp1_step:
        raise ExtractError("pp1: baby-step loop test and increment differ")
    must(ws(r"let g2 = chebyshev_modn\(&zn, &g, 2\);"), b_pp1, "pp1: baby step increment g2 = V_2")
    m = must(ws(r"let mut dgprev = two; let mut dg = chebyshev_modn\(&zn, &g, d1\); let step = dg; "
                r"(steps\.push\(two\); )?steps\.push\(dg\); for _ in (\d+)\.\.d2 \{ "
                r"let dgnext = zn\.sub\(&zn\.mul\(&dg, &step\), &dgprev\); steps\.push\(dgnext\); "
                r"\(dgprev, dg\) = \(dg, dgnext\); \}"), b_pp1, "pp1: giant-step loop")
    pp1_first = 0 if m.group(1) else 1
    pp1_pushed = 2 if m.group(1) else 1
    pp1_loop_lo = int(m.group(2))
    must(ws(r"let vals = Poly::roots_eval\(&zn, &gsteps, &bsteps\);"), b_pp1, "pp1: roots_eval(gsteps, bsteps)")
    must(ws(r"prods\.push\(zn\.one\(\)\); for v in vals \{ prods\.push\(zn\.mul\(prods\.last\(\)\.unwrap\(\), &v\)\); \} "
            r"let logstage = [^;]*; check_gcd_factors\(&n, &mut factors, &mut nred, &mut prods, logstage\);"), b_pp1,
         "pp1: every value of roots_eval enters the cumulative products handed to check_gcd_factors")
    must(ws(r"if p > b1 \{ break; \} g = chebyshev_modn\(&zn, &g, pow\);"), b_pp1, "pp1: stage-1 stop test")
    b_cheb = fn_body(pp1, r"fn chebyshev_modn\(", "pp1::chebyshev_modn")
    m = must(ws(r"if exp == 0 \{ return (zn\.one\(\)|zn\.add\(&zn\.one\(\), &zn\.one\(\)\)); \}"), b_cheb,
             "chebyshev_modn: exp == 0 case")
    cheb_zero = 1 if m.group(1) == "zn.one()" else 2
    # --- P-1 polynomial evaluation
    b_pe = fn_body(pm1, r"fn pm1_stage2_polyeval\(", "pm1_stage2_polyeval")
    m = must(ws(r"let mut b = (\d+); let g2 = zn\.mul\(&g, &g\); let mut gaps = vec!\[g2\]; let mut bg = g\.clone\(\); "
                r"let mut bexp = 1; v\.push\(bg\.clone\(\)\); while b < d1 \{ b \+= (\d+); "
                r"if b % 3 == 0 \|\| Integer::gcd\(&b, &d1\) != 1 \{ continue; \}"), b_pe, "pm1 polyeval: baby-step loop")
    pm1_start, pm1_step = int(m.group(1)), int(m.group(2))
    must(ws(r"let mut gexp = zn\.one\(\); let mut dg = exp_modn\(zn, &g, d1 / 2\); let ddg = zn\.mul\(&dg, &dg\); "
            r"for _ in 0\.\.d2 \{ steps\.push\(gexp\); gexp = zn\.mul\(&gexp, &dg\); gaps\.push\(dg\); "
            r"dg = zn\.mul\(&dg, &ddg\) \}"), b_pe, "pm1 polyeval: giant steps g^(i^2 d1/2), i in 0..d2")
    m = must(ws(r"gexp = zn\.one\(\); for i in 0\.\.d2 \{ gexp = zn\.mul\(&gexp, &gaps\[d2 - (\d+) - i\]\); "
                r"negsteps\.push\(gexp\); \}"), b_pe, "pm1 polyeval: negated steps")
    pm1_neg = int(m.group(1))
    must(ws(r"let mut p = Poly::from_roots\(&znx, &bsteps\)\.c; for i in 0\.\.p\.len\(\) \{ "
            r"p\[i\] = zn\.mul\(&p\[i\], &negsteps\[i\]\); \} let q = gsteps; "
            r"let mut z = vec!\[MInt::default\(\); d2\]; convolve_modn_ntt\(mzp, d2, &p, &q, &mut z, 0\);"),
         b_pe, "pm1 polyeval: convolution")
    m = must(ws(r"let vals = &mut z\[p\.len\(\) - (\d+)\.\.\]; vals\[0\] = zn\.one\(\); "
                r"for i in 1\.\.vals\.len\(\) \{ vals\[i\] = zn\.mul\(&vals\[i - 1\], &vals\[i\]\); \} "
                r"gcd_factors\(&zn\.n, vals\)"), b_pe, "pm1 polyeval: slice of valid coefficients")
    pm1_off = int(m.group(1))
    # --- P-1 prime walk
    b_pm1 = fn_body(pm1, r"pub fn pm1_impl\(", "pm1_impl")
    # polynomial path: gcd_factors' list is appended directly; since 9b94f92 a list containing n is refused
    m = must(ws(r"let \(mut f2, n2\) = pm1_stage2_polyeval\(&zn, b2, g\); (if f2\.contains\(n\) \{ return None; \} )?"
                r"factors\.append\(&mut f2\); nred = n2; logtime\(\); if !factors\.is_empty\(\) \{ return Some\(\(factors, nred\)\); \} return None;"),
             b_pm1, "pm1_impl: polynomial path result")
    pm1_poly_guard = "true" if m.group(1) else "false"
    must(ws(r"let stop = p > b1;"), b_pm1, "pm1_impl: stage-1 stop test")
    must(ws(r"let mut x = exp_modn\(&zn, &g, p_prev as u64\);"), b_pm1, "pm1 walk: starts at g^p_prev")
    must(ws(r"for &p in block \{ if p <= p_prev \{ continue; \} let gap = \(p - p_prev\) as usize;"), b_pm1,
         "pm1 walk: skips primes <= p_prev")
    must(ws(r"x = zn\.mul\(x, gaps\[gap / 2 - 1\]\); product = zn\.mul\(&product, &zn\.sub\(&x, &one\)\); "
            r"products\.push\(product\); p_prev = p; if p > b2 as u32 \{ break; \}"), b_pm1,
         "pm1 walk: product update before the `p > b2` test")
    # --- y-normalisation (both ECM implementations): forward pass from steps[0].2, backward pass from steps[l-1].2
    must(ws(r"let l = steps\.len\(\); let mut u = steps\[0\]\.2; for i in 1\.\.l \{ steps\[i\]\.1 = zn\.mul\(&steps\[i\]\.1, &u\); "
            r"u = zn\.mul\(&u, &steps\[i\]\.2\); \} u = steps\[l - 1\]\.2; for i in 2\.\.=l \{ "
            r"steps\[l - i\]\.1 = zn\.mul\(&steps\[l - i\]\.1, &u\); u = zn\.mul\(&u, &steps\[l - i\]\.2\); \}"), b_ecm,
         "ecm::ecm_curve: y-normalisation")
    must(ws(r"let l = steps\.len\(\); let mut u = steps\[0\]\.2; for i in 1\.\.l \{ steps\[i\]\.1 = mul\(steps\[i\]\.1, u\); "
            r"u = mul\(u, steps\[i\]\.2\); \} u = steps\[l - 1\]\.2; for i in 2\.\.=l \{ "
            r"steps\[l - i\]\.1 = mul\(steps\[l - i\]\.1, u\); u = mul\(u, steps\[l - i\]\.2\); \}"), b_e128,
         "ecm128::ecm_curve: y-normalisation")
    # --- PM1Base::factor: constants of the two stages
    b_pb = fn_body(pm1, r"pub fn factor\(&self, n: u64, budget: usize\)", "PM1Base::factor")
    m = must(ws(r"let fmax = std::cmp::min\(self\.factors\.len\(\), budget \* self\.factors\.len\(\) / (\d+)\);"), b_pb,
             "PM1Base::factor: fmax")
    pb_full = int(m.group(1))
    m = must(ws(r"if budget < (\d+) \{ return None; \} let pmax = std::cmp::min\(self\.larges\.len\(\), budget - (\d+)\);"), b_pb,
             "PM1Base::factor: stage-2 budget")
    pb_min, pb_off = int(m.group(1)), int(m.group(2))
    m = must(ws(r"let mut jumps = \[0u64; (\d+)\]; let mut j = xr2; for k in 1\.\.=jumps\.len\(\) \{ jumps\[k - 1\] = j; "
                r"j = mg_mul\(n, ninv, j, xr2\); \}"), b_pb, "PM1Base::factor: jumps")
    pb_jumps = int(m.group(1))
    must(ws(r"let sub_one = \|x: u64\| if x >= one_r \{ x - one_r \} else \{ x \+ minus_one_r \};"), b_pb,
         "PM1Base::factor: (x - 1) in Montgomery form (fix 7e3b2f6)")
    m = must(ws(r"let mut product = sub_one\(h\); let mut exp = (\d+); debug_assert!\(self\.larges\[0\] == (\d+)\); "
                r"for \(idx, &p\) in self\.larges\[1\.\.pmax\]\.iter\(\)\.enumerate\(\) \{"), b_pb, "PM1Base::factor: stage-2 loop")
    if m.group(1) != m.group(2):
        raise ExtractError("PM1Base::factor: start exponent and asserted first large prime differ")
    pb_first = int(m.group(1))
    must(ws(r"let gap = \(p - exp\) as usize; h = mg_mul\(n, ninv, h, jumps\[gap / 2 - 1\]\); "
            r"product = mg_mul\(n, ninv, product, sub_one\(h\)\); exp = p;"), b_pb, "PM1Base::factor: gap step")
    # h starts as xr^first: 120*4 + 22 + 1
    must(ws(r"let xr240 = mg_mul\(n, ninv, jumps\[120 / 2 - 1\], jumps\[120 / 2 - 1\]\); let xr480 = mg_mul\(n, ninv, xr240, xr240\); "
            r"let xr502 = mg_mul\(n, ninv, xr480, jumps\[22 / 2 - 1\]\); let mut h = mg_mul\(n, ninv, xr502, xr\);"), b_pb,
         "PM1Base::factor: h = xr^503")
    if pb_first != 4 * 120 + 22 + 1:
        raise ExtractError("PM1Base::factor: first exponent is not 503")
    # --- call sites that exist only in the test-suite
    raw_pp1 = src("src/pp1.rs")
    pp1_calls = [(int_lit(a), int_lit(b), num_lit(c)) for a, b, c in
                 re.findall(r"pp1\(p \* p128, (\d+), ([\d_]+), ([\d.e]+), v\)", raw_pp1)]
    if not pp1_calls:
        raise ExtractError("pp1: test call sites not found")
    others = [f for f in os.listdir(os.path.join(REPO, "src")) if f.endswith(".rs") and f != "pp1.rs"]
    for f in others + [os.path.join("bin", g) for g in os.listdir(os.path.join(REPO, "src", "bin"))]:
        if re.search(r"\bpp1::pp1\b|\bpp1\(", strip_rust_comments(src(os.path.join("src", f)))):
            raise ExtractError(f"pp1 now has a caller in src/{f}: add its (B1, B2) to the translator")
    raw_pm1 = src("src/pollard_pm1.rs")
    pm1_calls = [(int_lit(a), num_lit(b)) for a, b in re.findall(r"pm1_impl\(&n, ([\d_]+), ([\d.e]+), v\)", raw_pm1)]
    # --- factorisations of the d1 of the P-1 table (phi(d1) = polynomial degree - 1)
    t_pm1 = table_rows(pm1, "pollard_pm1::STAGE2_PARAMS")
    t_ecm = table_rows(strip_rust_comments(src("src/params.rs")), "params::STAGE2_PARAMS")
    d1s = sorted({r[1] for r in t_pm1} | {r[1] for r in t_ecm})
    facs = [(d, factorize(d)) for d in d1s]

    phi = {d: phi_of(fs) for d, fs in facs}
    for d, fs in facs:          # cross-check the formula by the loop itself where that is cheap
        if d <= 40000:
            from math import gcd
            cnt = 1 + sum(1 for b in range(pm1_start + pm1_step, d + pm1_step + 1, pm1_step) if b % 3 != 0 and gcd(b, d) == 1)
            if cnt != phi[d] + 1:
                raise ExtractError(f"phi({d}) + 1 != number of baby steps")
    threshold = num_lit(must(r"const MULTIEVAL_THRESHOLD: f64 = ([\d.e]+);", pm1, "MULTIEVAL_THRESHOLD").group(1))
    # rows of the P-1 table that a b2 > threshold can select (nearest label; a row r is never selected
    # when a larger label r' has r + r' <= 2*threshold)
    poly_rows = [r for r in t_pm1 if not any(r[0] < q[0] and r[0] + q[0] <= 2 * threshold for q in t_pm1)]
    bad_ecm = bad_rows(t_ecm, lambda d1, d2: sym_eff(e[2:], d1, d2))
    bad_pp1 = bad_rows(t_ecm, lambda d1, d2: sym_eff((pp1_first, pp1_pushed, pp1_loop_lo), d1, d2))
    bad_pm1 = bad_rows(poly_rows, lambda d1, d2: (d2 - pm1_neg - (phi[d1] + 1 + 2 - pm1_off)) * d1 - 1)

    certs = pratt_entries(sorted({t[2] for t in bad_ecm + bad_pp1 + bad_pm1}))
    cert_txt = ",\n  ".join(f"({p_}, {a_}, [" + ", ".join(f"({q}, {e_})" for q, e_ in fs) + "])" for p_, a_, fs in certs)

    def lrow(t):
        return "(" + ", ".join(str(x) for x in t) + ")"
    fac_txt = ",\n  ".join(f"({d}, [" + ", ".join(f"({p}, {k})" for p, k in fs) + "])" for d, fs in facs)
    out = f"""
namespace Ymq.Gen.Stage2Arms

/-! Loop bounds of the baby/giant steps, read from the source text. A giant-step triple is
`(first, pushed, loopLo)`: the first step is `first * d1`, `pushed` steps are pushed explicitly and
the loop `for _ in loopLo..d2` pushes one more step each time. -/

/-- `ecm::ecm_curve`: `for b in LO..d1 / DIV` keeping gcd(b, d1) = 1. -/
def ecmBaby : Nat × Nat := ({e[0]}, {e[1]})
/-- `ecm::ecm_curve`: steps.push(dg); steps.push(dg2); for _ in K..d2. -/
def ecmGiant : Nat × Nat × Nat := ({e[2]}, {e[3]}, {e[4]})
/-- `ecm128::ecm_curve`. -/
def ecm128Baby : Nat × Nat := ({e128[0]}, {e128[1]})
def ecm128Giant : Nat × Nat × Nat := ({e128[2]}, {e128[3]}, {e128[4]})

/-- `pp1::pp1` baby steps: exp = START, then `while exp + STEP < d1 / DIV {{ exp += STEP; keep if coprime }}`. -/
def pp1Baby : Nat × Nat × Nat := ({pp1_start}, {pp1_step}, {pp1_div})
/-- `pp1::pp1` giant steps (first = 0 when L(0) = 2 is pushed first). -/
def pp1Giant : Nat × Nat × Nat := ({pp1_first}, {pp1_pushed}, {pp1_loop_lo})
/-- value returned by `chebyshev_modn(g, 0)` (2 = L(0)). -/
def chebZero : Nat := {cheb_zero}

/-- `pm1_stage2_polyeval` baby steps: b = START (kept), then `while b < d1 {{ b += STEP; keep if coprime }}`. -/
def pm1Baby : Nat × Nat := ({pm1_start}, {pm1_step})
/-- `negsteps[i]` uses `gaps[d2 - NEG - i]`; the evaluations read are `z[p.len() - OFF ..]` with entry 0 overwritten. -/
def pm1Neg : Nat := {pm1_neg}
def pm1ValsOff : Nat := {pm1_off}
/-- `pm1_impl`, polynomial path: whether `if f2.contains(n) {{ return None; }}` guards the appended list -/
def pm1PolyGuard : Bool := {pm1_poly_guard}

/-- `PM1Base::factor`: (budget giving the whole stage 1, minimal budget of stage 2, offset of `pmax`, number of
jumps, first large prime = start exponent). -/
def pm1base : Nat × Nat × Nat × Nat × Nat := ({pb_full}, {pb_min}, {pb_off}, {pb_jumps}, {pb_first})

/-- Call sites of `pp1::pp1` (test-suite only; no caller elsewhere): (seed, B1, B2). -/
def pp1Calls : List (Nat × Nat × Nat) := [{", ".join(lrow(t) for t in pp1_calls)}]
/-- Direct calls of `pm1_impl` in the test-suite: (B1, B2). -/
def pm1TestCalls : List (Nat × Nat) := [{", ".join(lrow(t) for t in pm1_calls)}]

/-! Rows whose label exceeds the last value of the grid: (label, effective B2, first prime above the
effective B2 not dividing d1). Computed by the translator with its own arithmetic; `Props/C16.lean`
proves that the lists agree with the model (`*_badRows`). -/
def ecmBadRows : List (Nat × Nat × Nat) := [{", ".join(lrow(t) for t in bad_ecm)}]
def pp1BadRows : List (Nat × Nat × Nat) := [{", ".join(lrow(t) for t in bad_pp1)}]
/-- only rows that `pm1_impl` can select with `b2 > MULTIEVAL_THRESHOLD` -/
def pm1BadRows : List (Nat × Nat × Nat) := [{", ".join(lrow(t) for t in bad_pm1)}]

/-- Pratt certificates `(p, a, [(q, e), ..])` for the witnesses of the bad rows (third components above) and for the
primes `>= 2^16` they depend on, dependencies first; checked by `Ymq.Stage2.prattTable` (`bad_row_witnesses_prime`). -/
def witnessCerts : List (Nat × Nat × List (Nat × Nat)) := [
  {cert_txt}]

/-- Prime factorisation of every d1 of both stage-2 tables: (d1, [(p, e), ..]). Checked in Lean. -/
def d1Factors : List (Nat × List (Nat × Nat)) := [
  {fac_txt}]

end Ymq.Gen.Stage2Arms
"""
    write_gen("Stage2Arms", out, ["src/ecm.rs", "src/ecm128.rs", "src/pp1.rs", "src/pollard_pm1.rs", "src/params.rs"])
    return (f"ecm {e} ecm128 {e128} pp1 baby {(pp1_start, pp1_step, pp1_div)} giant {(pp1_first, pp1_pushed, pp1_loop_lo)} "
            f"pm1 baby {(pm1_start, pm1_step)} neg {pm1_neg} off {pm1_off}; {len(pp1_calls)} pp1 calls, {len(d1s)} d1 values; "
            f"bad rows ecm {len(bad_ecm)} pp1 {len(bad_pp1)} pm1 {len(bad_pm1)}")


if __name__ == "__main__":
    main(run)
