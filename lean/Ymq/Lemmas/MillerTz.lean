/- Trailing zeros and the 2-adic inverse loop of the 64-bit Montgomery model (C06). -/
import Ymq.Model.Mg64
import Mathlib.Tactic.Ring
import Mathlib.Tactic.Linarith

namespace Ymq.Mg64

theorem W_eq : W = 2 ^ 64 := by decide

theorem tzAux_spec : ∀ f n, 0 < n → n < 2 ^ f →
    tzAux f n < f ∧ n % 2 ^ (tzAux f n) = 0 ∧ n / 2 ^ (tzAux f n) % 2 = 1 := by
  intro f
  induction f with
  | zero => intro n h0 h1; simp at h1; omega
  | succ f ih =>
    intro n h0 h1
    unfold tzAux
    by_cases hodd : n % 2 = 1
    · simp [hodd, Nat.mod_one]
    · simp only [hodd, if_false]
      have h2 : 0 < n / 2 := by omega
      have h3 : n / 2 < 2 ^ f := by rw [pow_succ] at h1; omega
      obtain ⟨a, b, c⟩ := ih (n / 2) h2 h3
      have e : n = 2 * (n / 2) := by omega
      generalize n / 2 = h at *
      generalize tzAux f h = t at *
      subst e
      refine ⟨by omega, ?_, ?_⟩
      · rw [Nat.add_comm, pow_succ, Nat.mul_comm (2 ^ _) 2, Nat.mul_mod_mul_left, b]
      · rw [Nat.add_comm, pow_succ, Nat.mul_comm (2 ^ _) 2, ← Nat.div_div_eq_div_mul,
          Nat.mul_div_cancel_left _ (by decide : 0 < 2)]
        exact c

/-- `trailing_zeros` of a non-zero 64-bit word. -/
theorem tz64_spec (n : Nat) (h0 : 0 < n) (h1 : n < W) :
    tz64 n < 64 ∧ n % 2 ^ (tz64 n) = 0 ∧ n / 2 ^ (tz64 n) % 2 = 1 := by
  unfold tz64
  have : n ≠ 0 := by omega
  simp only [this, if_false]
  exact tzAux_spec 64 n h0 (by rw [← W_eq]; exact h1)

/-- a power of two dividing `n` is at most `2^t` when `n / 2^t` is odd. -/
theorem le_of_pow_dvd_of_odd_quot (n k t : Nat) (hk : n % 2 ^ k = 0) (ht : n % 2 ^ t = 0)
    (hq : n / 2 ^ t % 2 = 1) : k ≤ t := by
  by_contra h
  have h1 : 2 ^ (t + 1) ∣ n :=
    dvd_trans (pow_dvd_pow 2 (by omega)) (Nat.dvd_of_mod_eq_zero hk)
  have h2 : n = 2 ^ t * (n / 2 ^ t) := by
    have := Nat.div_add_mod n (2 ^ t); omega
  rw [h2, pow_succ] at h1
  have h3 : 2 ∣ n / 2 ^ t := (Nat.mul_dvd_mul_iff_left (by positivity)).1 h1
  omega

/-- Invariant of the loop of `mg_2adic_inv`: `x < 2^k`, `n x ≡ 1 (mod 2^k)`, `k` increases at
every turn, hence at most `65 - k` turns are left. -/
theorem inv2adicLoop_spec (n : Nat) (hn : n % 2 = 1) :
    ∀ f k x, 1 ≤ k → k ≤ 64 → x < 2 ^ k → n * x % 2 ^ k = 1 → 65 ≤ f + k →
    ∃ x', inv2adicLoop f n x = some x' ∧ x' < W ∧ n * x' % W = 1 := by
  intro f
  induction f with
  | zero => intro k x _ _ _ _ h; omega
  | succ f ih =>
    intro k x hk1 hk64 hx hinv hf
    have hkW : 2 ^ k ∣ W := by rw [W_eq]; exact pow_dvd_pow 2 hk64
    have hW0 : 0 < W := by decide
    have hnx : n * x % W % 2 ^ k = 1 := by rw [Nat.mod_mod_of_dvd _ hkW]; exact hinv
    have hk2 : 2 ≤ 2 ^ k := by
      calc 2 = 2 ^ 1 := rfl
        _ ≤ 2 ^ k := Nat.pow_le_pow_right (by decide) hk1
    have hnx0 : n * x % W ≠ 0 := by
      intro h; rw [h, Nat.zero_mod] at hnx; omega
    have hxW : x < W := lt_of_lt_of_le hx (Nat.le_of_dvd hW0 hkW)
    unfold inv2adicLoop
    simp only [hnx0, if_false]
    by_cases hrem : n * x % W - 1 = 0
    · simp only [hrem, if_true]
      exact ⟨x, rfl, hxW, by omega⟩
    · simp only [hrem, if_false]
      have hremW : n * x % W - 1 < W := by have := Nat.mod_lt (n * x) hW0; omega
      obtain ⟨ht64, htdvd, htodd⟩ := tz64_spec _ (Nat.pos_of_ne_zero hrem) hremW
      generalize ht : tz64 (n * x % W - 1) = t at *
      have hremk : (n * x % W - 1) % 2 ^ k = 0 := by
        have := Nat.div_add_mod (n * x % W) (2 ^ k)
        rw [hnx] at this
        have e : n * x % W - 1 = 2 ^ k * (n * x % W / 2 ^ k) := by omega
        rw [e, Nat.mul_mod_right]
      have hkt : k ≤ t := le_of_pow_dvd_of_odd_quot _ k t hremk htdvd htodd
      have hpk : 2 ^ k ≤ 2 ^ t := Nat.pow_le_pow_right (by decide) hkt
      have hpt : 2 ^ (t + 1) ≤ W := by
        rw [W_eq]; exact Nat.pow_le_pow_right (by decide) (by omega)
      have hx' : x + 2 ^ t < 2 ^ (t + 1) := by rw [pow_succ]; omega
      have hnot : ¬ (x + 2 ^ t ≥ W) := by omega
      simp only [hnot, if_false]
      refine ih (t + 1) (x + 2 ^ t) (by omega) (by omega) hx' ?_ (by omega)
      -- n (x + 2^t) = 1 (mod 2^(t+1))
      obtain ⟨u, hu⟩ : ∃ u, W = 2 ^ (t + 1) * u := by
        refine ⟨2 ^ (63 - t), ?_⟩
        rw [W_eq, ← pow_add]; congr 1; omega
      have e1 := Nat.div_add_mod (n * x) W
      have e2 := Nat.div_add_mod (n * x % W - 1) (2 ^ t)
      rw [htdvd] at e2
      have e3 := Nat.div_add_mod ((n * x % W - 1) / 2 ^ t) 2
      rw [htodd] at e3
      have e4 := Nat.div_add_mod n 2
      rw [hn] at e4
      generalize (n * x % W - 1) / 2 ^ t / 2 = q at e3
      generalize n / 2 = m at e4
      generalize n * x / W = a at e1
      have e5 : n * x % W = 2 ^ t * (2 * q + 1) + 1 := by
        have : 0 < n * x % W := Nat.pos_of_ne_zero hnx0
        rw [← e3] at e2; omega
      have key : n * (x + 2 ^ t) = 2 ^ (t + 1) * (u * a + q + m + 1) + 1 := by
        have : n * (x + 2 ^ t) = n * x + n * 2 ^ t := by ring
        rw [this, ← e1, e5, hu, ← e4, pow_succ]; ring
      rw [key, Nat.mul_add_mod]
      exact Nat.mod_eq_of_lt (by omega)

/-- `mg_2adic_inv` terminates within the 65 turns of fuel for every odd `n`, does not panic, and
returns `v < 2^64` with `n * v ≡ -1 (mod 2^64)`. -/
theorem mg2adicInv_odd (n : Nat) (hn : n % 2 = 1) :
    ∃ v, mg2adicInv n = some v ∧ v < W ∧ (n * v + 1) % W = 0 := by
  obtain ⟨x, hx, hxW, hinv⟩ := inv2adicLoop_spec n hn 65 1 1 (by omega) (by omega) (by decide)
    (by simpa using hn) (by omega)
  unfold mg2adicInv
  rw [hx]
  have hx0 : x ≠ 0 := by
    intro h; rw [h] at hinv; simp at hinv
  simp only [hx0, if_false]
  refine ⟨W - x, rfl, by omega, ?_⟩
  have e1 := Nat.div_add_mod (n * x) W
  rw [hinv] at e1
  have e2 : n * (W - x) = n * W - n * x := Nat.mul_sub n W x
  have e3 : n * x ≤ n * W := Nat.mul_le_mul_left n (by omega)
  generalize n * x / W = a at e1
  have e4 : n * (W - x) + 1 + W * a = W * n := by
    rw [e2, Nat.mul_comm W n]; omega
  have e5 : a ≤ n := by
    by_contra h
    have : W * n < W * a := Nat.mul_lt_mul_of_pos_left (by omega) (by decide)
    omega
  have e6 : n * (W - x) + 1 = W * (n - a) := by
    rw [Nat.mul_sub W n a]; omega
  rw [e6, Nat.mul_mod_right]

end Ymq.Mg64
