"""Shared by C01..C05: structured inputs for the factoring entry point, parsing of harness answers,
construction of the model replay request."""
from vlib.pipeline import Case
from vlib import gen

ALGOS = ["auto", "rho", "squfof", "qs64", "pm1", "ecm", "ecm128", "qs", "mpqs", "siqs"]
SMALL_PRIMES = [p for p in range(2, 200) if all(p % q for q in range(2, p))]


def parse_answer(ans):
    """-> (kind, factors|None, trace, meta dict). kind in ok/failure/panic/hang/abort/?"""
    if " | " not in ans:
        return ans.split(" ")[0], None, None, {}
    res, trace, meta = [x.strip() for x in ans.split(" | ")]
    md = dict(kv.split("=") for kv in meta.split())
    md = {k: (int(v) if v.lstrip("-").isdigit() else v) for k, v in md.items()}
    if res.startswith("ok"):
        body = res[2:].strip()
        fs = [] if body in ("-", "") else [int(x) for x in body.split(",")]
        return "ok", fs, trace, md
    return res, None, trace, md


def res_field(ans):
    return ans.split(" | ")[0].strip() if " | " in ans else ans


def prod(l):
    r = 1
    for x in l:
        r *= x
    return r


class Input:
    __slots__ = ("n", "factors", "shape")

    def __init__(self, factors, shape):
        self.factors = sorted(factors)
        self.n = prod(factors)
        self.shape = shape


def prime_of_class(rng, cls):
    lo, hi = {"tiny": (2, 8), "s16": (9, 16), "s32": (17, 32), "s52": (33, 52), "s64": (53, 64),
              "s90": (65, 90)}[cls]
    return gen.rand_prime(rng, rng.randint(lo, hi))


def structured_inputs(rng, count, maxbits, classes=("tiny", "s16", "s32", "s52")):
    """Inputs with known factorisation, all shapes named in C01/C02."""
    out = []
    shapes = ["semiprime", "semiprime", "three", "many", "prime", "prime-power", "square-of-composite",
              "p2q", "close", "fb-factor", "smooth-times-prime", "repeated"]
    tries = 0
    while len(out) < count and tries < count * 50:
        tries += 1
        sh = rng.choice(shapes)
        c = lambda: prime_of_class(rng, rng.choice(classes))
        if sh == "semiprime":
            fs = [c(), c()]
        elif sh == "three":
            fs = [c(), c(), c()]
        elif sh == "many":
            fs = [prime_of_class(rng, rng.choice(["tiny", "s16"])) for _ in range(rng.randint(4, 7))]
        elif sh == "prime":
            fs = [gen.rand_prime(rng, rng.randint(2, maxbits))]
        elif sh == "prime-power":
            p = prime_of_class(rng, rng.choice(["tiny", "s16", "s32"]))
            fs = [p] * rng.choice([2, 3, 4, 5, 6, 7, 11])
        elif sh == "square-of-composite":
            a, b = prime_of_class(rng, "s16"), prime_of_class(rng, rng.choice(["tiny", "s16"]))
            fs = [a, a, b, b] + ([c()] if rng.random() < 0.5 else [])
        elif sh == "p2q":
            a = c()
            fs = [a, a, c()]
        elif sh == "close":
            p = c()
            fs = [p, gen.next_prime(p + rng.randint(0, 1000))]
        elif sh == "fb-factor":
            fs = [rng.choice([199, 211, 223, 227, 229, 233, 5407, 1009, 251]), c(), c()]
        elif sh == "smooth-times-prime":
            fs = [rng.choice(SMALL_PRIMES) for _ in range(rng.randint(1, 6))] + [c()]
        else:
            p = c()
            fs = [p, p, p, c()]
        inp = Input(fs, sh)
        if 2 <= inp.n and inp.n.bit_length() <= maxbits:
            out.append(inp)
    return out


def nred_bits(n):
    for p in SMALL_PRIMES:
        while n % p == 0 and n > 0:
            n //= p
    return n.bit_length()


def allowed(alg, n):
    """documented size preconditions of the selectors (asserted on the value left after trial division)"""
    b = nred_bits(n)
    if alg in ("rho", "squfof", "qs64"):
        return b <= 64
    if alg == "ecm128":
        return b <= 128
    return True


def replay_request(case, ans):
    """model replay request built from a harness `factor` answer"""
    if case.op != "factor":
        return None
    kind, fs, trace, md = parse_answer(ans)
    if trace is None or kind not in ("ok", "failure"):
        return None
    return (f"factor_replay {case.args[0]} {case.args[1]} {trace}", res_field(ans))
