"""C06 — Primality decisions are exact on 64 bits and one-sided above.

K: `isprime64 p` / `pseudoprime p` answered by the real code (both profiles) and by the Lean
   models Ymq.Mg64.isprime64 / Ymq.Pseudoprime.pseudoprime; `pseudoprime_word p` (same real call) by the
   word-level model Ymq.PseudoprimeWord.pseudoprimeW (Miller-Rabin loop over the limb-level ZmodN);
   `pp_ring p b` (the ring values pseudoprime builds for a base: one, pm1, from_int(b), its square) by the
   real ZmodN calls and by the limb-level model, judged by Montgomery forms computed in Python.
O: independent primality knowledge in plain Python: a sieve below 2^22, explicit factorizations
   of the published strong pseudoprimes psi_k, numbers built here with a known status (primes with a
   Pocklington/Proth certificate checked at generation time, composites as explicit products),
   vlib.gen.is_prime (deterministic Miller-Rabin, valid below 3.3e24) otherwise, and a 100-base
   Miller-Rabin as last resort for untagged replays of larger inputs.
"""
# SIZE AUDIT (quick tier)
# sizes the code supports: isprime64(u64): three tiers switched at p >> 20 and p >> 40, table below 199; pseudoprime(Uint = 1024 bits):
# <= 64 bits delegates to isprime64, above that ZmodN (k = ceil(bits/64) words, k = 2..8, assert bits <= 512 -> panic above).
#   op            max size quick / thorough / supported            boundary classes reached deterministically by quick
#   isprime64     64 bits / 64 bits / 64 bits (u64)                every odd p in windows of +-1500 around 2^20, 2^32, 2^40, 2^63 and the
#                                                                  3000 below 2^64 (so the largest prime below and the smallest above each:
#                                                                  2^32-5, 2^32+15, 2^63-25, 2^63+29, 2^64-59), +-200 around psi_2 and psi_5
#                                                                  (the literature bounds behind the two thresholds), every published psi_k
#   pseudoprime   512 bits judged, 513/600/1024 bits refused       the same windows (+-200) below 2^64; 2^64+1, 2^64+13 (smallest prime
#                 (same sizes in thorough, 6x the count) /         above 2^64); 2 certified primes at EACH of 65,66,67,127,128,129,191,192,
#                 512 bits (ZmodN::new asserts), Uint = 1024       193,255,256,257,320,383,384,385,447,448,449,499,500,501,511,512 bits
#                                                                  (every word count 2..8, both sides of every word boundary), products,
#                                                                  evens at 65..1023 bits, oversize odd 513, 600, 1024 bits (panic, K)
# gap found: every multiword modulus had random words. Not reached: moduli whose words are all ones / all zeros (the largest prime
# below and the smallest prime above 2^(64k), k = 2..8, 2^(64k)-1, 2^(64k)+1, the Mersenne / curve primes), where the carry chains and the
# final conditional subtraction of the Montgomery product run at their extremes (at 512 bits the pre-subtraction value overflows
# 8 words). Added: boundary_cases (88 requests, both tiers, first in the stream). Nothing else was missing.
import math
from vlib.pipeline import Case
from vlib import gen

PID = "C06"
GEN = ["primality"]
LEAN = ["Ymq.Props.C06", "Ymq.Props.C06Word"]
AUDIT = "Ymq.Audit.C06"
THEOREMS = ["Ymq.C06." + t for t in (
    "mg2adicInv_spec", "miller_iff_sprp", "isprime64_complete", "isprime64_even", "isprime64_total",
    "isprime64_sound", "isprime64_exact", "pseudoprime_complete", "pseudoprime_even",
    "pseudoprime_eq_isprime64", "pseudoprime_total", "pseudoprime_oversize",
    # Props/C06Word.lean: the Miller-Rabin loop over the limb-level ZmodN (composition with C07)
    "pseudoprime_word_eq", "pseudoprime_word_total", "pseudoprime_complete_word", "pseudoprime_word_even",
    "pseudoprime_below_two", "pseudoprime_word_eq_isprime64", "pseudoprime_word_oversize", "pseudoprime_word_iff_sprp_partial",
    "millerBase_low_word_one_counterexample")]
PROFILES = ["release", "chk"]
TIMEOUT = 20.0
W = 1 << 64
HYPOTHESES = [
    "Hψ2 (Pomerance-Selfridge-Wagstaff 1980): no odd composite n < 1373653 is a strong probable prime to both bases 2 and 3",
    "Hψ5 (Jaeschke 1993): no odd composite n < 2152302898747 is a strong probable prime to all of the bases 2,3,5,7,11",
    "Hψ12 (Sorenson-Webster 2015, psi_12 > 2^64): no odd composite n < 2^64 is a strong probable prime to all twelve prime bases up to 37",
]
RULE = ("boundary family first, in both tiers: the largest prime below / smallest prime above 2^(64k) (k = 1..8), 2^(64k) -+ 1, Mersenne and "
        "curve primes, products next to the ends of each word count (moduli with all-ones / all-zero words); then: "
        "isprime64: every odd p and every p < 200 below 2^16 (quick) / 2^22 (thorough), sampled evens >= 200 (an even that "
        "hangs costs a full timeout, so they are sampled), dense windows around 199, 2^20, 2^32, 2^40, 2^63, 2^64, all published psi_k, "
        "families p(r(p-1)+1), Carmichael (6k+1)(12k+1)(18k+1), random primes/semiprimes/squares of every bit size; "
        "pseudoprime: the same 64-bit corpora plus 65..512-bit certified primes (Pocklington chains, Proth primes with low word 1), "
        "explicit products, large Carmichael numbers, evens, a few oversize (>512-bit) odd inputs (K only). "
        "non-trivial = input >= 199 (past the table lookup); distinct by request line")
MODELLED = [
    "lib.rs isprime64: table lookup, even guard, Montgomery set-up (mg_2adic_inv, r1, r2, tz, podd), miller closure "
    "(powering loop, squaring loop with both exits), tier loop -- word-exact (Ymq/Model/Mg64.lean); "
    "SMALL_PRIMES, the three base lists, the two shift thresholds and the presence of the even guard are regenerated from the source",
    "lib.rs pseudoprime: even test, 64-bit delegation, ZmodN::new size assert, s = tz(low word - 1), p >> s, pow_mod, "
    "squaring loop, 46 bases (Ymq/Model/Pseudoprime.lean)",
    "lib.rs pseudoprime above 64 bits at WORD level (Ymq/Model/PseudoprimeWord.lean): the same loop (inner pow_mod with its last useless "
    "squaring, pm1 = sub(zero, one), == on 8-word MInts, early return false) over C07's limb-level ZmodN (new, from_int, CIOS mul + "
    "conditional subtraction, sub), every assert/debug_assert/overflow/index site a panic; proved equal to the residue-level model on "
    "every input (pseudoprime_word_eq), run by the driver against the real pseudoprime (op pseudoprime_word) and, value by value, against "
    "the real ring calls pseudoprime makes for a base (op pp_ring: one, pm1, from_int(b), its square)",
]
UNMODELLED = [
    "bnum's Uint operators used by pseudoprime / ZmodN::new (bit, bits, >>, %, *, digits) are mathematical operations on Nat",
    "rejection of composites above 64 bits is not a theorem (no bound is known for 46 bases): checked on corpora only",
]

PSI = {
    2047: [23, 89], 1373653: [829, 1657], 25326001: [2251, 11251], 3215031751: [151, 751, 28351],
    2152302898747: [6763, 10627, 29947], 3474749660383: [1303, 16927, 157543],
    341550071728321: [10670053, 32010157], 3825123056546413051: [149491, 747451, 34233211],
    318665857834031151167461: [399165290221, 798330580441],
    3317044064679887385961981: [1287836182261, 2575672364521],
}
for _n, _f in PSI.items():
    assert math.prod(_f) == _n and all(1 < x < _n for x in _f)

# ---------------------------------------------------------------- independent truth

_SIEVE_N = 1 << 22
_sieve = None


def sieve():
    global _sieve
    if _sieve is None:
        s = bytearray([1]) * _SIEVE_N
        s[0] = s[1] = 0
        for i in range(2, int(_SIEVE_N ** 0.5) + 1):
            if s[i]:
                s[i * i::i] = bytes(len(range(i * i, _SIEVE_N, i)))
        _sieve = s
    return _sieve


_SMALL = [p for p in range(2, 550) if all(p % q for q in range(2, int(p ** 0.5) + 1))][:100]


def mr_big(n):
    """100-base Miller-Rabin (last resort for untagged inputs >= 3.3e24)."""
    if n < 2:
        return False
    for p in _SMALL:
        if n % p == 0:
            return n == p
    d, s = n - 1, 0
    while d % 2 == 0:
        d //= 2
        s += 1
    for a in _SMALL:
        x = pow(a, d, n)
        if x in (1, n - 1):
            continue
        for _ in range(s - 1):
            x = x * x % n
            if x == n - 1:
                break
        else:
            return False
    return True


def truth(n, tag=""):
    """(is n prime?, how we know)"""
    if n in PSI:
        return False, "factored"
    if tag.startswith("P:"):
        return True, "certificate"
    if tag.startswith("C:"):
        return False, "product"
    if n < _SIEVE_N:
        return bool(sieve()[n]), "sieve"
    if n < 3317044064679887385961981:
        return gen.is_prime(n), "det-mr"
    return mr_big(n), "mr100"


# ---------------------------------------------------------------- certified big primes

def pocklington_step(rng, q, bits):
    """prime p = 2kq+1 with exactly `bits` bits from a certified prime q (bits(q)+2 <= bits <= 2 bits(q)-1):
    q > sqrt(p), a^(p-1) = 1, gcd(a^((p-1)/q) - 1, p) = 1  =>  p prime (Pocklington)."""
    assert q.bit_length() + 2 <= bits <= 2 * q.bit_length() - 1
    lo = ((1 << (bits - 1)) + 2 * q - 1) // (2 * q)
    hi = ((1 << bits) - 2) // (2 * q)
    for _ in range(4000):
        if lo > hi:
            return None
        k = rng.randrange(lo, hi + 1)
        if 2 * k >= q:
            continue
        p = 2 * k * q + 1
        if p.bit_length() != bits or any(p % s == 0 for s in _SMALL):
            continue
        for a in (2, 3, 5, 7):
            if pow(a, p - 1, p) != 1:
                break
            if math.gcd(pow(a, 2 * k, p) - 1, p) == 1:
                return p
            # gcd == p: try the next a
        # not certified with this k: next k
    return None


def certified_prime(rng, bits):
    """Pocklington chain from a <=64-bit prime (deterministic MR) up to `bits` bits."""
    if bits <= 64:
        return gen.rand_prime(rng, bits)
    chain = [bits]
    while chain[-1] > 64:
        b = chain[-1]
        chain.append(max((b + 3) // 2, min(64, b - 2)))
    while True:
        q = gen.rand_prime(rng, chain[-1])
        for b in reversed(chain[:-1]):
            q = pocklington_step(rng, q, b)
            if q is None:
                break               # few candidates k for this q (e.g. 65 bits from 63): draw another seed prime
        if q is not None:
            return q


def proth_prime(rng, n, kbits):
    """p = k 2^n + 1, k odd < 2^n, certified by Proth: a^((p-1)/2) = -1 mod p."""
    assert kbits <= n
    for _ in range(20000):
        k = rng.getrandbits(kbits) | 1 | (1 << (kbits - 1))
        p = (k << n) + 1
        if any(p % s == 0 for s in _SMALL[:40]):
            continue
        for a in (3, 5, 7, 11, 13):
            if pow(a, (p - 1) // 2, p) == p - 1:
                return p
    return None


def sprp(n, a):
    d, s = n - 1, 0
    while d % 2 == 0:
        d //= 2
        s += 1
    x = pow(a, d, n)
    if x in (1, n - 1):
        return True
    for _ in range(s - 1):
        x = x * x % n
        if x == n - 1:
            return True
    return False


# ---------------------------------------------------------------- cases

T64 = 5.0       # a healthy answer takes microseconds
TEVEN = 2.0     # an even p >= 200 used to hang (before a49e903): every such case then costs a full timeout, so
                # they are sampled (~100 per run), not enumerated; isprime64_even covers all of them


def c64(n, tag="", both=True, k=True):
    """isprime64 n (and pseudoprime n when both) for n < 2^64"""
    yield Case(f"isprime64 {n}", tag=tag, timeout=TEVEN if n % 2 == 0 else T64, k=k)
    if both:
        yield Case(f"pseudoprime {n}", tag=tag, timeout=T64, k=k)


# The driver runs the limb-level model on boxed 64-bit words: an accepted 512-bit input (46 bases x ~770 CIOS products) takes
# ~5.5 s there, cubic in the size; a rejected one stops at the first base. Accepted inputs of 200 bits and more therefore draw on
# a budget of driver seconds (reset by cases(); the boundary family is served first) and are sent to the checked profile only (the
# one where a panic site of ZmodN would show); the real call itself runs in both profiles under the op `pseudoprime`.
_WORD_BUDGET = {"left": 0.0}


def word_case(n, tag=""):
    """`pseudoprime_word n`: the same real call as `pseudoprime n`; the driver answers with the limb-level model"""
    bits = n.bit_length()
    accepted = bits <= 512 and n % 2 == 1 and (tag.startswith("P:") or tag == "edge" or (not tag.startswith("C:") and mr_big(n)))
    if not accepted or bits < 200:
        yield Case(f"pseudoprime_word {n}", tag=tag, timeout=20.0, o=bits <= 512 or n % 2 == 0)
        return
    est = 5.5 * (bits / 512.0) ** 3
    if _WORD_BUDGET["left"] >= est:
        _WORD_BUDGET["left"] -= est
        yield Case(f"pseudoprime_word {n}", tag=tag, timeout=30.0, profiles=["chk"])


def cbig(n, tag=""):
    yield Case(f"pseudoprime {n}", tag=tag, timeout=20.0)
    yield from word_case(n, tag)


RING_BASES = (2, 199, 4294967295)       # first / last of SMALL_PRIMES, the largest u32 (`b.into()`)


def cring(n, bases=RING_BASES):
    """the ring values pseudoprime builds for a base: one, pm1 = sub(zero, one), from_int(b), its square (odd n < 2^512, b < n)"""
    for b in bases:
        if b < n:
            yield Case(f"pp_ring {n} {b}", timeout=20.0)


def family_products(limit, rs=(2, 3, 4, 5, 6, 7, 9, 13)):
    """n = p (r(p-1)+1) < limit with both factors prime: where strong pseudoprimes to many bases live"""
    s = sieve()
    for r in rs:
        pmax = int((limit / r) ** 0.5) + 2
        for p in range(3, min(pmax, _SIEVE_N), 2):
            if not s[p]:
                continue
            q = r * (p - 1) + 1
            n = p * q
            if n >= limit:
                break
            if (s[q] if q < _SIEVE_N else gen.is_prime(q)):
                yield n


def carmichael_chernick(kmax):
    for k in range(1, kmax):
        a, b, c = 6 * k + 1, 12 * k + 1, 18 * k + 1
        if gen.is_prime(a) and gen.is_prime(b) and gen.is_prime(c):
            yield a * b * c


# ---------------------------------------------------------------- boundary family (size audit)

# (c, d): 2^k - c is the largest prime below 2^k, 2^k + d the smallest prime above (re-checked by mr_big when the cases are built)
NEAR_POW2 = {64: (59, 13), 128: (159, 51), 192: (237, 133), 256: (189, 297), 320: (197, 27), 384: (317, 231), 448: (203, 211),
             512: (569, 75)}
# primes with published proofs whose words are all ones / all zeros: Mersenne primes and the field primes of the standard curves
PUBLISHED_PRIMES = [
    2**61 - 1, 2**89 - 1, 2**107 - 1, 2**127 - 1, 2**255 - 19, 2**448 - 2**224 - 1, 2**192 - 2**64 - 1, 2**224 - 2**96 + 1,
    2**256 - 2**224 + 2**192 + 2**96 - 1, 2**384 - 2**128 - 2**96 + 2**32 - 1, 2**256 - 2**32 - 977,
]


def _fork(rng, label):
    """own stream for the boundary family: depends on the run's seed, leaves the stream of the older families untouched"""
    import random
    return random.Random(f"{label}:{rng.getstate()[1][:4]}")


def boundary_cases(rng, tier):
    """moduli at the extreme ends of every word count (all-ones / all-zero words): the largest prime below and the smallest prime above
    2^(64k) for k = 1..8, the published Mersenne / curve primes, 2^(64k) -+ 1 and products of the primes next to 2^(32k), 2^(64k).
    Primes carry the tag edge (truth: deterministic MR below 3.3e24, 100 bases above; re-checked here) or P:published; every composite
    is shown composite here by a Miller-Rabin witness (a proof) and tagged C:witness. Deterministic: rng is not used."""
    def emit(n, tag):
        if n < W:
            yield from c64(n, tag=tag)
        elif n.bit_length() <= 512:
            yield from cbig(n, tag=tag)
        else:                                                            # assert of ZmodN::new: panic in both profiles (K only)
            yield Case(f"pseudoprime {n}", o=False, tag="oversize")
            yield Case(f"pseudoprime_word {n}", o=False, tag="oversize")

    def composite(n):
        assert not mr_big(n), n
        yield from emit(n, "C:witness")

    for k, (c, d) in NEAR_POW2.items():
        lo, hi = (1 << k) - c, (1 << k) + d
        assert mr_big(lo) and mr_big(hi)
        assert not any(mr_big(x) for x in range(lo + 2, hi, 2))
        yield from emit(lo, "edge")
        yield from emit(hi, "edge")
        yield from composite((1 << k) - 1)                               # every word all ones
        yield from composite((1 << k) + 1)                               # 1, zeros, 1 (k = 512: refused)
        yield from composite(lo - 2 if not mr_big(lo - 2) else lo - 4)   # odd neighbours of the extreme primes
        yield from composite(hi + 2 if not mr_big(hi + 2) else hi + 4)
    for p in PUBLISHED_PRIMES:
        assert mr_big(p)
        yield from emit(p, "P:published")
        yield from composite(p + 2 if not mr_big(p + 2) else p + 4)
    # products whose value sits next to the top / the bottom of a word count
    for k in (64, 128, 256, 512):
        a, b = (1 << (k // 2)) - {32: 5, 64: 59, 128: 159, 256: 189}[k // 2], (1 << (k // 2)) + {32: 15, 64: 13, 128: 51, 256: 297}[k // 2]
        for n in (a * a, a * b, b * b):                                  # k bits all-ones top / k bits / k+1 bits (k = 512: refused)
            yield from composite(n)


# Arnault 1995: strong pseudoprime to every prime base up to 31 (46 digits), with its factorisation p (2p - 1)
ARNAULT = (24444516448431392447461, 48889032896862784894921, 1195068768795265792518361315725116351898245581)


def word_cases(rng, quick, primes):
    """inputs aimed at the word-level loop: 2^k -+ 1 at and around every word boundary, p - 1 = 2^j * odd for large j (low word 1,
    several zero words), moduli of all-ones words, a strong pseudoprime to 11 bases, the ring values for first/last/largest base at
    every word count (8-word moduli with the top bit set included: pm1 = sub(0, one) where C07's general sub has no headroom)."""
    ks = [65, 66, 96, 127, 128, 129, 191, 192, 193, 255, 256, 257, 320, 383, 384, 385, 447, 448, 449, 500, 510, 511, 512]
    for k in ks:
        for n in ((1 << k) - 1, (1 << k) + 1, (1 << k) - (1 << (k // 2)) - 1, (1 << k) - (1 << 64) + 1):
            if n.bit_length() <= 512 and n >= W:
                yield from cbig(n)
                yield from cring(n, bases=(2, 199))
    # p - 1 = 2^j * odd: the squaring loop runs s = tz(low word - 1) times (64 when the low word is 1: p >> s is then even for j > 64)
    for j in (1, 2, 31, 63, 64, 65, 66, 100, 128, 192, 200, 256, 320, 384, 447, 448, 500):
        for _ in range(1 if quick else 4):
            hb = rng.randrange(max(2, 66 - j), 513 - j) if j < 500 else rng.randrange(2, 12)
            m = rng.getrandbits(hb) | 1 | (1 << (hb - 1))
            n = (m << j) + 1
            if W <= n and n.bit_length() <= 512:
                yield from cbig(n)
                yield from cring(n, bases=(3,))
    for j, kb in [(447, 64), (63, 10), (65, 8), (66, 30), (128, 20), (192, 64)] + ([] if quick else [(256, 100), (320, 60), (400, 100)]):
        p = proth_prime(rng, j, kb)
        if p is not None:
            yield from cbig(p, tag="P:proth")
    a, b, n = ARNAULT
    if a * b == n and 2 * a - 1 == b and all(sprp(n, q) for q in _SMALL[:11]):
        yield from cbig(n, tag="C:psi")
        yield from cring(n)
    # strong pseudoprimes to base 2 (and more) above 2^64: n = p (2p - 1) passes a base with probability ~1/4
    found = 0
    for _ in range(40000 if quick else 400000):
        if found >= (6 if quick else 40):
            break
        p = rng.getrandbits(rng.randrange(34, 60)) | 3
        if any(p % q == 0 or (2 * p - 1) % q == 0 for q in _SMALL[1:25]):
            continue
        if gen.is_prime(p) and gen.is_prime(2 * p - 1):
            n = p * (2 * p - 1)
            if n >= W and sprp(n, 2):
                found += 1
                yield from cbig(n, tag="C:fam")
    # ring values at every word count; both ends of the 8-word range
    for p in primes:
        yield from cring(p)
    for n in ((1 << 512) - 1, (1 << 512) - 569, (1 << 511) + 1, (1 << 511) - 1, (1 << 448) + 1, (1 << 448) - 1, W + 1, W + 13,
              (1 << 128) - 159, 3 * W + 1, (1 << 512) - (1 << 64) + 1):
        yield from cring(n)
    for _ in range(20 if quick else 200):
        n = rng.getrandbits(rng.randrange(65, 513)) | 1
        if n >= W:
            yield from cring(n, bases=(rng.randrange(2, 1 << 32),))
    for n in (3, 199, 1000003, W - 59):                                 # one-word rings (k = 1): never built by pseudoprime itself
        yield from cring(n, bases=(2,))


def cases(tier, rng, extended=False):
    quick = tier == "quick"
    scale = (1 if quick else 12) * (10 if extended else 1)
    _WORD_BUDGET["left"] = 21.0 if quick else 60.0
    yield from boundary_cases(_fork(rng, "C06-boundary"), tier)
    _WORD_BUDGET["left"] = (19.0 if quick else 400.0) * (3 if extended else 1)
    # ---- isprime64: exhaustive low range (odd p and everything below 200), sampled evens
    top = (1 << 16) if quick else (1 << 22)
    for p in range(0, 200):
        yield from c64(p)
    for p in range(201, top, 2):
        yield from c64(p, both=(p < 8192))
    for _ in range(32 if quick else 128):
        yield from c64(rng.randrange(100, top // 2) * 2)
    # structured evens (all of them used to hang above 199)
    evens = [200, 202, 1 << 10, 1 << 20, (1 << 20) + 2, 1 << 32, (1 << 32) - 2, 1 << 40, 1 << 63, (1 << 63) + 2,
             W - 2, W - 4, W - 6, 2 * 97, 2 * 101, 2 * gen.rand_prime(rng, 31), 2 * gen.rand_prime(rng, 63), 6, 4, 198]
    evens += [rng.getrandbits(rng.randrange(9, 65)) & ~1 for _ in range(24)]
    for e in evens:
        yield from c64(max(e, 0))
    # ---- windows around every branch point of isprime64
    half = 1500 if quick else 20000
    for c in (1 << 20, 1 << 32, 1 << 40, 1 << 63):
        for p in range(c - half + 1, c + half, 2):
            yield from c64(p, both=(abs(p - c) < 200))
        for p in (c - 2, c, c + 2):
            yield from c64(p)
    for p in range(W - 2 * half + 1, W, 2):
        yield from c64(p, both=(W - p < 400))
    for c in (1373653, 2152302898747):          # the literature bounds themselves
        for p in range(c - 200, c + 201, 2):
            yield from c64(p)
    # ---- published strong pseudoprimes and their factors
    for n, f in PSI.items():
        if n < W:
            yield from c64(n, tag="C:psi")
        else:
            yield from cbig(n, tag="C:psi")
        for q in f:
            yield from c64(q)
    # ---- structured composites below 2^64
    fam = list(family_products(1 << (44 if quick and not extended else 50)))
    if quick and not extended:
        keep = [n for n in fam if sprp(n, 2)]
        fam = keep + rng.sample(fam, min(len(fam), 3000))
    for n in fam:
        yield from c64(n, tag="C:fam", both=False)
    for _ in range(400 * scale):
        p = gen.rand_prime(rng, rng.randrange(8, 32))
        r = rng.choice([2, 3, 4, 5, 7])
        q = r * (p - 1) + 1
        if p * q < W:
            yield from c64(p * q, tag="C:fam", both=False)
    for n in carmichael_chernick(3000 if quick else 40000):
        if n < W:
            yield from c64(n, tag="C:carmichael")
    # ---- random 64-bit primes and composites of every size
    for _ in range(1500 * scale):
        bits = rng.randrange(8, 65)
        yield from c64(gen.rand_prime(rng, bits), both=False)
        a = rng.randrange(4, max(5, bits - 3))
        n = gen.rand_prime(rng, a) * gen.rand_prime(rng, max(2, bits - a))
        if n < W:
            yield from c64(n, tag="C:semi", both=False)
        yield from c64(rng.getrandbits(bits) | 1, both=False)
    for _ in range(200 * scale):
        p = gen.rand_prime(rng, rng.randrange(5, 33))
        if p * p < W:
            yield from c64(p * p, tag="C:square")
        yield from c64(gen.rand_prime(rng, 64))
        n = gen.rand_prime(rng, 21) * gen.rand_prime(rng, 21) * gen.rand_prime(rng, 21)
        yield from c64(n, tag="C:3primes")
    # ---- pseudoprime above 64 bits
    sizes = [65, 66, 67, 70, 80, 96, 112, 127, 128, 129, 160, 191, 192, 193, 224, 255, 256, 257, 300, 320, 383, 384,
             385, 400, 447, 448, 449, 480, 499, 500, 501, 511, 512]
    reps = (2 if quick else 12) * (3 if extended else 1)
    primes = []
    for b in sizes:
        for _ in range(reps):
            p = certified_prime(rng, b)
            primes.append(p)
            yield Case(f"pseudoprime {p}", tag="P:pocklington", timeout=20.0)
    # word-level op: one prime of every word count first (largest first, both sides of the 8-word top), the others while the budget lasts
    first = [primes[sizes.index(b) * reps] for b in (512, 449, 385, 511, 320, 257, 193, 129, 65)]
    for p in first + [q for q in primes if q not in first]:
        yield from word_case(p, tag="P:pocklington")
    # low word = 1 (s = 64 and an even p >> s when v2(p-1) > 64)
    for n, kb in [(64, 8), (64, 12), (64, 20), (64, 60), (65, 10), (70, 16), (100, 30), (128, 60), (200, 100),
                  (250, 249), (256, 250)]:
        for _ in range(1 if quick else 4):
            p = proth_prime(rng, n, kb)
            if p is not None:
                yield from cbig(p, tag="P:proth")
    yield from cbig(221360928884514619393, tag="P:proth")       # 12 * 2^64 + 1
    for _ in range(60 * scale):
        p, q = rng.choice(primes), rng.choice(primes)
        if (p * q).bit_length() <= 512:
            yield from cbig(p * q, tag="C:product")
        p = certified_prime(rng, rng.randrange(33, 250))
        yield from cbig(p * p, tag="C:square")
        yield from cbig(p * gen.rand_prime(rng, rng.randrange(2, 40)), tag="C:product")
        # p (2p-1), p(r(p-1)+1): composite whatever the second factor is
        r = rng.choice([2, 3, 4, 5])
        yield from cbig(p * (r * (p - 1) + 1), tag="C:fam")
        # k 2^64 + 1 composites: low word 1
        a, b = gen.rand_prime(rng, 40), gen.rand_prime(rng, 45)
        n = ((a * b) << 64) + 1
        if not mr_big(n):
            yield from cbig(n)
        yield from cbig(rng.getrandbits(rng.randrange(65, 513)) | 1)
    # large Carmichael numbers (6k+1)(12k+1)(18k+1)
    found = 0
    want = 12 if quick else 60
    tries = 0
    while found < want and tries < 400000:
        tries += 1
        k = rng.getrandbits(rng.randrange(20, 80)) | 1
        a, b, c = 6 * k + 1, 12 * k + 1, 18 * k + 1
        if all(x % s for x in (a, b, c) for s in _SMALL[:30]) and mr_big(a) and mr_big(b) and mr_big(c):
            found += 1
            yield from cbig(a * b * c, tag="C:carmichael")
    # evens of every size, oversize inputs
    for b in (65, 128, 129, 500, 512, 513, 700, 1023):
        yield from cbig(rng.getrandbits(b) & ~1 | (1 << (b - 1)), tag="C:even")
    yield from cbig(1 << 64, tag="C:even")
    # multiword evens whose LOW WORD is a small even number (2 in particular): a truncating even test would accept them
    for j in (64, 65, 127, 128, 200, 448, 500):
        for low in (2, 4, 0):
            yield from cbig((1 << j) + low, tag="C:even")
    for _ in range(12):
        yield from cbig((rng.getrandbits(rng.randrange(1, 440)) << 64) + 2, tag="C:even")
    yield from cbig(W + 1)
    yield from cbig(W + 13)
    for b in (513, 600, 1024):                                          # assert in ZmodN::new: panic in both profiles
        n = rng.getrandbits(b) | 1 | (1 << (b - 1))
        yield Case(f"pseudoprime {n}", o=False, tag="oversize")
        yield Case(f"pseudoprime_word {n}", o=False, tag="oversize")
        yield Case(f"pp_ring {n} 2", o=False, tag="oversize")
    yield from word_cases(rng, quick, primes)


def corpus_case(line):
    n = int(line.split()[1])
    if line.startswith("pp_ring"):
        return Case(line, timeout=20.0, o=n % 2 == 1 and n.bit_length() <= 512 and int(line.split()[2]) < n)
    oversize = n % 2 == 1 and n.bit_length() > 512          # refused by the assert of ZmodN::new (C03 / F12)
    t = 20.0
    if line.startswith("isprime64"):
        t = TEVEN if n % 2 == 0 else T64
    return Case(line, timeout=t, o=not oversize)


def oracle_ring(case, ans):
    n, b = int(case.args[0]), int(case.args[1])
    k = (n.bit_length() + 63) // 64
    R = 1 << (64 * k)
    want = [R % n, (n - 1) * R % n, b * R % n, b * b * R % n]
    try:
        got = [int(x) for x in ans.split()]
    except ValueError:
        return f"no ring values returned ({ans})"
    names = ["one", "pm1 = sub(zero, one)", "from_int(b)", "from_int(b)^2"]
    for nm, g, w in zip(names, got, want):
        if g != w:
            return f"{nm} = {g}, expected the Montgomery form {w} (n = {n}, b = {b})"
    return None if len(got) == 4 else f"malformed answer ({ans})"


def oracle(case, ans):
    if case.op == "pp_ring":
        return oracle_ring(case, ans)
    n = int(case.args[0])
    if ans not in ("true", "false"):
        return f"no decision returned ({ans})"
    got = ans == "true"
    if n % 2 == 0:
        return None if got == (n == 2) else f"even input answered {ans}"
    is_p, how = truth(n, case.tag)
    if case.op == "isprime64" or n < W:
        return None if got == is_p else f"{case.op}({n}) = {ans} but n is {'prime' if is_p else 'composite'} [{how}]"
    # above 64 bits: never reject a prime; reject the structured composites the property names
    if is_p and not got:
        return f"pseudoprime rejects the prime {n} [{how}]"
    if not is_p and got and (case.tag in ("C:psi", "C:carmichael", "C:fam") or how == "factored"):
        return f"pseudoprime accepts the composite {n} [{case.tag or how}]"
    return None


def klass(case, ans):
    n = int(case.args[0])
    if case.op == "pp_ring":
        return f"pp_ring/{(n.bit_length() + 63) // 64}w" + ("-top" if n.bit_length() == 512 else "") + ("/panic" if ans == "panic" else "")
    if case.op == "isprime64" or n < W:
        if n < 199:
            br = "table"
        elif n % 2 == 0:
            br = "even"
        elif n >> 20 == 0:
            br = "tier1"
        elif n >> 40 == 0:
            br = "tier2"
        else:
            br = "tier3"
    elif n % 2 == 0:
        br = "big-even"
    elif n.bit_length() > 512:
        br = "oversize"
    else:
        br = f"big-{(n.bit_length() + 63) // 64}w" + ("-low1" if n % W == 1 else "")
    return f"{case.op}/{br}/{ans}"


def nontrivial(case, ans):
    return int(case.args[0]) >= 199


CLAIM = ("Lean theorems for all inputs: the model of isprime64 returns on every 64-bit input, never rejects a prime, answers p = 2 on "
         "even inputs, and accepts only primes provided the three published strong-pseudoprime bounds (explicit hypotheses, constants "
         "written in the statement) hold; its Miller closure decides the textbook strong-probable-prime predicate; mg_2adic_inv terminates "
         "on odd words. pseudoprime never rejects a prime below 2^512, answers p = 2 on evens, false on 0 and 1, and "
         "equals isprime64 below 2^64 -- for the residue-level model AND for the word-level model (the Miller-Rabin loop over C07's "
         "limb-level ZmodN), proved to be the same function on every input, so that no panic site of ZmodN is reachable from pseudoprime "
         "up to 512 bits; unless p = 1 mod 2^65 the multiword test decides exactly `strong probable prime to the 46 bases'. Base sets, thresholds, table and even guard are regenerated from the Rust source on every run and "
         "enter the proofs through `decide`; the hand-written control flow is tied to the code by differential runs in both profiles; "
         "an independent Python primality oracle judges every answer.")
LEVEL_NOTE = ("Trusted: Lean kernel (+propext, Classical.choice, Quot.sound); the literature bounds psi_2, psi_5, psi_12 > 2^64 (hypotheses "
              "of isprime64_sound/_exact, not proved); the regex translator for the constants; the sampled (not proved) correspondence of "
              "the hand models with the Rust control flow; Python integers, a sieve and deterministic Miller-Rabin in the oracle. Rejection "
              "of composites above 64 bits is checked on corpora only.")
TECHNIQUE = "Lean 4 proof about a hand model with source-generated constants + differential correspondence check + spec oracle"
