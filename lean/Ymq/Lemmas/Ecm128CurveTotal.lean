/-
Totality of the model of `ecm128::ecm_curve` under an invariant of the point operations, and the invariant for the
translated formulas `e128*` over a commutative ring (they are the a = -1 formulas of ecm.rs: `C15.e128_eq_ecm`).
-/
import Ymq.Lemmas.Ecm128CurveGroup
import Ymq.Props.C15Stage2

namespace Ymq.Ecm128Curve
open Ymq.Chain Ymq.EcmCurve

section Inv
variable {P E X : Type} {o : Ops128 P E} {IP : P → Prop} {IE : E → Prop}

/-- the fused double-add of `scalar64_mul` is the extended addition after the extended doubling, without `t` -/
def Fused (o : Ops128 P E) : Prop := ∀ p q, o.dbladd p q = o.proj (o.add (o.dblext p) q)

theorem mul_eq_mul64 (hf : Fused o) (k : Nat) (p : P) : o.mul k p = o.asOps.mul64 k p := by
  have hstep : ∀ gaps, stepOp o.double id o.dbladd (fun q g => o.dbladd q (o.neg g)) gaps
      = stepOp o.asOps.double o.asOps.dblext o.asOps.addp o.asOps.subp gaps := by
    intro gaps
    funext q op
    simp only [stepOp, Ops128.asOps, id, hf _ _]
  unfold Ops128.mul Ops.mul64 scalar64Mul128 scalar64Chainmul
  by_cases h0 : k = 0
  · simp [h0, Ops128.asOps]
  · simp only [h0, if_false]
    cases makeChain k with
    | none => rfl
    | some c =>
      simp only
      unfold runChain
      rw [hstep]
      rfl

theorem mul_inv (hf : Fused o) (hi : OpsInv o.asOps IP IE) (k : Nat) (hk : k < 2 ^ 64) (p : P) (hp : IP p) :
    ∃ q, o.mul k p = some q ∧ IP q := by
  rw [mul_eq_mul64 hf]
  exact mul64_inv hi k hk p hp

theorem stage1_inv (hf : Fused o) (hi : OpsInv o.asOps IP IE) (n : Nat) (xv : P → Nat) :
    ∀ (fs : List Nat) (g : P), (∀ f ∈ fs, f < 2 ^ 64) → IP g →
      NoPanic (stage1 o n xv fs g) ∧ GoesWith (stage1 o n xv fs g) IP
  | [], g, _, hg => by
    unfold stage1
    split
    · exact ⟨trivial, trivial⟩
    · exact ⟨trivial, hg⟩
  | f :: fs, g, h, hg => by
    obtain ⟨q, e, hq⟩ := mul_inv hf hi f (h f (List.mem_cons_self ..)) g hg
    unfold stage1
    rw [e]
    simp only
    split
    · exact ⟨trivial, trivial⟩
    · exact stage1_inv hf hi n xv fs q (fun x hx => h x (List.mem_cons_of_mem _ hx)) hq

theorem babySteps_total (o : Ops128 P E) {d1 : Nat} (hev : 2 ∣ d1) (h4 : 4 ≤ d1) (g : P) :
    ∃ bt, babySteps o d1 g = some bt := by
  obtain ⟨rest, hr⟩ := babyIdx_head h4
  have hs := babyIdx_sorted d1
  have hodd : ∀ b ∈ babyIdx d1, b % 2 = 1 := by
    intro b hb
    have hg := (babyIdx_mem.mp hb).2.2
    by_contra hcon
    have : 2 ∣ Nat.gcd b d1 := Nat.dvd_gcd (by omega) hev
    rw [hg] at this; omega
  unfold babySteps
  rw [hr] at hs hodd ⊢
  simp only [ne_eq, not_true_eq_false, if_false]
  obtain ⟨r, e⟩ := babyLoop_total o.asOps rest 1 (o.ext g) [o.dblext g, o.dblext (o.proj (o.dblext g))]
    (by decide) (fun b hb => hodd b (List.mem_cons_of_mem _ hb)) (List.Pairwise.of_cons hs)
    (fun x hx => List.rel_of_pairwise_cons hs hx) (by simp)
  rw [e]
  exact ⟨_, rfl⟩

/-- **`ecm128::ecm_curve` returns.** If the operations preserve invariants that hold for the generator, the double-add is
the fused one, `is_valid` accepts the extended form of every point satisfying the invariant, the blocks are `u64` and
`d1` is even, at least 4 and a `u64`: no assertion fails, no index is out of range, nothing underflows. -/
theorem ecmCurve_total (env : Env P E X) (hf : Fused env.ops) (hi : OpsInv env.ops.asOps IP IE)
    (hvalid : ∀ p, IP p → env.valid (env.ops.ext p) = true) (factors : List Nat) (hfs : ∀ f ∈ factors, f < 2 ^ 64)
    {d1 : Nat} (hev : 2 ∣ d1) (h4 : 4 ≤ d1) (hd : d1 < 2 ^ 64) (d2 : Nat) (g : P) (hg : IP g) :
    ecmCurve env factors d1 d2 g ≠ none := by
  obtain ⟨h1, h2⟩ := stage1_inv hf hi env.n env.xv factors g hfs hg
  unfold ecmCurve
  cases hs : stage1 env.ops env.n env.xv factors g with
  | panic => rw [hs] at h1; exact absurd h1 id
  | ret r => simp
  | go g1 =>
    rw [hs] at h2
    have hg1 : IP g1 := h2
    simp only [hvalid g1 hg1, Bool.not_true, Bool.false_eq_true, if_false]
    obtain ⟨bt, eb⟩ := babySteps_total env.ops hev h4 g1
    obtain ⟨q, eg, _⟩ := mul_inv hf hi d1 hd g1 hg1
    unfold stage2 giantSteps
    simp [eb, eg]

end Inv

section Ring
open Ymq.Gen.Curves Ymq.Curve
variable {R : Type} [CommRing R]

/-- `gap.0 = n - gap.0; gap.3 = n - gap.3` over a ring -/
def negExt (e : Ext R) : Ext R := ⟨-e.x, e.y, e.z, -e.t⟩

theorem negExt_closed (d : R) (e : Ext R) (h : ecmIsValidext d true e ∧ OnQuadric e) :
    ecmIsValidext d true (negExt e) ∧ OnQuadric (negExt e) := by
  obtain ⟨x, y, z, t⟩ := e
  obtain ⟨h1, h2⟩ := h
  simp only [ecmIsValidext, ecmIsValidextSides, OnQuadric, negExt, if_true] at h1 h2 ⊢
  refine ⟨by rw [neg_mul_neg, neg_mul_neg]; exact h1, by rw [neg_mul, neg_mul, h2]⟩

theorem curveOps128_fused (g : Pt R) : Fused (curveOps128 g (negExt (R := R))) := by
  intro p q
  show e128Dbladd g p q = (e128Add g (e128Dblext g p) q).toProj
  exact Ymq.Curve.e128_dbladd_eq g p q

/-- the `e128*` formulas preserve "on the curve" / "on the curve and on the quadric" for the curve `-x² + y² = 1 + d x² y²` -/
theorem curveOps128_closed (g : Pt R) (d : R) :
    OpsInv (curveOps128 g (negExt (R := R))).asOps (ecmIsValid d true)
      (fun e => ecmIsValidext d true e ∧ OnQuadric e) := by
  have hc := Ymq.C15.curve_ops_closed d true
  have ea : ∀ p q, e128Add g p q = ecmAddext d true p q := e128_add_eq g d
  refine ⟨?_, ?_, ?_, ?_, ?_, ?_, ?_, ?_⟩
  · exact hc.zero
  · intro p hp; show _ ∧ OnQuadric (e128Ext g p); rw [e128_ext_eq g d]; exact hc.toExt p hp
  · intro e he; exact hc.toProj e he
  · intro p hp; show ecmIsValid d true (e128Double g p); rw [e128_double_eq g d]; exact hc.double p hp
  · intro p hp; show _ ∧ OnQuadric (e128Dblext g p); rw [e128_dblext_eq g d]; exact hc.dblext p hp
  · intro a b ha hb; show _ ∧ OnQuadric (e128Add g a b); rw [ea]; exact hc.addext a b ha hb
  · intro a b ha hb
    show ecmIsValid d true (e128Add g a b).toProj
    rw [ea]; exact hc.toProj _ (hc.addext a b ha hb)
  · intro a b ha hb
    show ecmIsValid d true (e128Add g a (negExt b)).toProj
    rw [ea]; exact hc.toProj _ (hc.addext a _ ha (negExt_closed d b hb))

end Ring

end Ymq.Ecm128Curve
