/-
C04 / C05 for the worker programs of siqs() and mpqs() AS THE SOURCE SHAPES THEM.

The protocol theorems of Props/C04.lean and Props/C05Sched.lean are about arbitrary configurations of
the scheduling model; their two statements about initial configurations use the hand-written program
`compile` (poll, check, adds, publish per unit). Here the programs are built from the shapes that
translate/sched.py reads in src/siqs.rs and src/mpqs.rs on every run (Ymq/Gen/SchedShape.lean):

* `sched_inv_shape`        whatever the shape, every schedule and every pattern of stale reads leaves the
                           store equal to the sequential replay of the lock-order history, made of relations
                           of the workers' own polynomials only, and keeps any invariant `add` preserves;
* `sched_inv_any_programs` the same for arbitrary action lists (covers classical QS's fork-join by over-approximation);
* `shape_adds_exactly`     with the side condition `addsOnce`, a worker's program adds exactly the relations
                           of its polynomials, once each, in order (nothing is dropped or duplicated by the
                           loop structure);
* `abort_bounded_shape`    with the side condition `pollsPerUnit`: the abort predicate may start answering
                           `true` at ANY moment (after any schedule prefix); from then on the workers perform
                           at most two work units' worth of actions each before all of them have stopped,
                           however many units are left;
* `source_shapes_ok`       the four shapes generated from the current source meet the side conditions (by
                           `decide` on the generated data: this is the obligation that breaks when a poll, a
                           flag read, the add or the completion decision is moved or deleted in the source);
* `siqs_mt_*`, `mpqs_mt_*`, … the instances; `source_ecm_shape_ok`, `ecm_abort_bounded`, `ecm_unit_length` for the
  curve loop of ecm.rs (a unit = one curve: read `done`, poll, work, publish; no shared store).

What this does not model: the cost of an action (the time between two polls is measured on the real code
by the C05 check), `prepare_a` / `batch_inversion` (no protocol action) and classical QS (fork-join of two
block sieves, a different protocol: tied by latency measurement and history replay only).
-/
import Ymq.Lemmas.SchedShape
import Ymq.Props.C04
import Ymq.Props.C05Sched

namespace Ymq.C04Shape
open Ymq.Sched Ymq.Gen.SchedShape

variable {ρ σ : Type}

theorem sched_inv_shape (add : σ → ρ → σ) (enough : σ → Bool) (Inv : σ → Prop) (Good : ρ → Prop)
    (hadd : ∀ s r, Inv s → Good r → Inv (add s r)) (sh : Shape)
    (s0 : σ) (progs : List (List (List (List ρ)))) (h0 : Inv s0)
    (hgood : ∀ prog ∈ progs, ∀ u ∈ prog, ∀ p ∈ u, ∀ r ∈ p, Good r) (sched : List (Nat × Bool × Bool)) :
    let c := run add enough (initShape sh s0 progs) sched
    c.store = c.log.foldl add s0 ∧ Inv c.store ∧ (∀ r ∈ c.log, Good r) ∧
      (∀ r ∈ c.log, ∃ prog ∈ progs, ∃ u ∈ prog, ∃ p ∈ u, r ∈ p) := by
  have hpend : ∀ r ∈ pend (initShape sh s0 progs : Cfg ρ σ), ∃ prog ∈ progs, ∃ u ∈ prog, ∃ p ∈ u, r ∈ p := by
    intro r hr
    simp only [pend, initShape, List.mem_flatMap, List.mem_map] at hr
    obtain ⟨l, ⟨prog, hp, rfl⟩, hr⟩ := hr
    obtain ⟨u, hu, p, hpp, hrp⟩ := mem_pendingAdds_compileShape sh prog r hr
    exact ⟨prog, hp, u, hu, p, hpp, hrp⟩
  have := run_spec add enough Inv Good hadd sched (initShape sh s0 progs) s0 (by simp [initShape]) h0
    (by simp [initShape])
    (fun r hr => by
      obtain ⟨prog, hp, u, hu, p, hpp, hrp⟩ := hpend r hr
      exact hgood prog hp u hu p hpp r hrp)
  obtain ⟨a1, a2, a3, _, a5⟩ := this
  refine ⟨a1, a2, a3, ?_⟩
  intro r hr
  rcases a5 r hr with h | h
  · simp [initShape] at h
  · exact hpend r h

/-- The same for ANY worker programs (arbitrary lists of actions, not built from a shape): this is what covers
drivers whose loop structure is not one of the translated shapes — classical QS runs, per large block, a
forward and a backward block sieve as a fork-join pair and polls in the joining thread; a barrier only
removes schedules, so every real execution is still a schedule of the barrier-free programs. -/
theorem sched_inv_any_programs (add : σ → ρ → σ) (enough : σ → Bool) (Inv : σ → Prop) (Good : ρ → Prop)
    (hadd : ∀ s r, Inv s → Good r → Inv (add s r))
    (s0 : σ) (pcs : List (List (Act ρ))) (done0 : Bool) (h0 : Inv s0)
    (hgood : ∀ l ∈ pcs, ∀ r ∈ pendingAdds l, Good r) (sched : List (Nat × Bool × Bool)) :
    let c := run add enough { store := s0, log := [], done := done0, pcs := pcs } sched
    c.store = c.log.foldl add s0 ∧ Inv c.store ∧ (∀ r ∈ c.log, Good r) ∧
      (∀ r ∈ c.log, ∃ l ∈ pcs, r ∈ pendingAdds l) := by
  have hpend : ∀ r ∈ pend ({ store := s0, log := [], done := done0, pcs := pcs } : Cfg ρ σ),
      ∃ l ∈ pcs, r ∈ pendingAdds l := by
    intro r hr
    simp only [pend, List.mem_flatMap] at hr
    exact hr
  have := run_spec add enough Inv Good hadd sched { store := s0, log := [], done := done0, pcs := pcs } s0
    (by simp) h0 (by simp)
    (fun r hr => by
      obtain ⟨l, hl, hrl⟩ := hpend r hr
      exact hgood l hl r hrl)
  obtain ⟨a1, a2, a3, _, a5⟩ := this
  refine ⟨a1, a2, a3, ?_⟩
  intro r hr
  rcases a5 r hr with h | h
  · simp at h
  · exact hpend r h

theorem shape_adds_exactly (sh : Shape) (h : addsOnce sh = true) (prog : List (List (List ρ))) :
    pendingAdds (compileShape sh prog) = prog.flatten.flatten := by
  unfold addsOnce at h
  simp only [Bool.and_eq_true, beq_iff_eq] at h
  exact pendingAdds_compileShape sh h.1.1 prog

theorem abort_bounded_shape (add : σ → ρ → σ) (enough : σ → Bool) (sh : Shape)
    (hp : pollsPerUnit sh = true) (s0 : σ) (progs : List (List (List (List ρ)))) (B : Nat)
    (hB : ∀ prog ∈ progs, ∀ u ∈ prog, (compileUnit sh u).length ≤ B)
    (before after : List (Nat × Bool × Bool))
    (heff : allEffective add enough (run add enough (initShape sh s0 progs) before) after)
    (hab : allAbort after) :
    after.length ≤ progs.length * (2 * B) := by
  have hinv := suffixInv_run add enough sh progs before _ (suffixInv_init sh s0 progs)
  have h1 := abort_steps_bounded add enough after _ heff hab
  have h2 := abortBudget_le_of_suffixInv sh hp B progs hB _ hinv
  omega

/-- the obligations on the shapes generated from the current source -/
theorem source_shapes_ok :
    ∀ x ∈ Ymq.Gen.SchedShape.all,
      pollsPerUnit x.2 = true ∧ addsOnce x.2 = true ∧ publishesPerPoly x.2 = true := by decide

/-- in the thread-pool branches the poll comes before any work of the unit: a worker that starts a
unit after the abort request performs no add -/
theorem source_mt_poll_first :
    siqsMt.pre.contains K.poll = true ∧ mpqsMt.pre.contains K.poll = true ∧
      siqsMt.pre.contains K.add = false ∧ mpqsMt.pre.contains K.add = false := by decide

theorem siqs_mt_abort_bounded (add : σ → ρ → σ) (enough : σ → Bool) (s0 : σ)
    (progs : List (List (List (List ρ)))) (B : Nat)
    (hB : ∀ prog ∈ progs, ∀ u ∈ prog, (compileUnit siqsMt u).length ≤ B)
    (before after : List (Nat × Bool × Bool))
    (heff : allEffective add enough (run add enough (initShape siqsMt s0 progs) before) after)
    (hab : allAbort after) : after.length ≤ progs.length * (2 * B) :=
  abort_bounded_shape add enough siqsMt (by decide) s0 progs B hB before after heff hab

theorem mpqs_mt_abort_bounded (add : σ → ρ → σ) (enough : σ → Bool) (s0 : σ)
    (progs : List (List (List (List ρ)))) (B : Nat)
    (hB : ∀ prog ∈ progs, ∀ u ∈ prog, (compileUnit mpqsMt u).length ≤ B)
    (before after : List (Nat × Bool × Bool))
    (heff : allEffective add enough (run add enough (initShape mpqsMt s0 progs) before) after)
    (hab : allAbort after) : after.length ≤ progs.length * (2 * B) :=
  abort_bounded_shape add enough mpqsMt (by decide) s0 progs B hB before after heff hab

theorem siqs_st_abort_bounded (add : σ → ρ → σ) (enough : σ → Bool) (s0 : σ)
    (prog : List (List (List ρ))) (B : Nat)
    (hB : ∀ u ∈ prog, (compileUnit siqsSt u).length ≤ B)
    (before after : List (Nat × Bool × Bool))
    (heff : allEffective add enough (run add enough (initShape siqsSt s0 [prog]) before) after)
    (hab : allAbort after) : after.length ≤ 2 * B := by
  have := abort_bounded_shape add enough siqsSt (by decide) s0 [prog] B
    (by intro p hp u hu; simp at hp; subst hp; exact hB u hu) before after heff hab
  simpa using this

theorem mpqs_st_abort_bounded (add : σ → ρ → σ) (enough : σ → Bool) (s0 : σ)
    (prog : List (List (List ρ))) (B : Nat)
    (hB : ∀ u ∈ prog, (compileUnit mpqsSt u).length ≤ B)
    (before after : List (Nat × Bool × Bool))
    (heff : allEffective add enough (run add enough (initShape mpqsSt s0 [prog]) before) after)
    (hab : allAbort after) : after.length ≤ 2 * B := by
  have := abort_bounded_shape add enough mpqsSt (by decide) s0 [prog] B
    (by intro p hp u hu; simp at hp; subst hp; exact hB u hu) before after heff hab
  simpa using this

/-- ECM: one curve polls the abort predicate (after reading `done`) before it does anything else; a curve adds
nothing to a shared store and only ever publishes completion -/
theorem source_ecm_shape_ok :
    pollsPerUnit ecmCurve = true ∧ ecmCurve.pre.take 2 = [K.check, K.poll] ∧
      ecmCurve.pre.contains K.add = false ∧ ecmCurve.body = [] ∧ ecmCurve.post = [] := by decide

/-- ECM with a pool: each worker owns a list of curves (seeds); after the abort request at most two
curves' worth of protocol actions per worker remain (the cost of a curve is measured, not modelled) -/
theorem ecm_abort_bounded (add : σ → ρ → σ) (enough : σ → Bool) (s0 : σ)
    (progs : List (List (List (List ρ)))) (B : Nat)
    (hB : ∀ prog ∈ progs, ∀ u ∈ prog, (compileUnit ecmCurve u).length ≤ B)
    (before after : List (Nat × Bool × Bool))
    (heff : allEffective add enough (run add enough (initShape ecmCurve s0 progs) before) after)
    (hab : allAbort after) : after.length ≤ progs.length * (2 * B) :=
  abort_bounded_shape add enough ecmCurve (by decide) s0 progs B hB before after heff hab

/-- a curve's program does not depend on relations: its length is the number of protocol actions read in
the source, so `B` above can be taken to be that number -/
theorem ecm_unit_length (u : List (List ρ)) : (compileUnit ecmCurve u).length = ecmCurve.pre.length := by
  have hb : ecmCurve.body = [] := by decide
  have hp : ecmCurve.post = [] := by decide
  have hadd : ecmCurve.pre.contains K.add = false := by decide
  unfold compileUnit
  rw [hb, hp]
  have h1 : ∀ (l : List (List ρ)), l.flatMap (expand ([] : List K)) = [] := by
    intro l; induction l with
    | nil => rfl
    | cons x xs ih => simp [List.flatMap_cons, expand, ih]
  have h2 : ∀ ks : List K, ks.contains K.add = false → (expand ks ([] : List ρ)).length = ks.length := by
    intro ks
    induction ks with
    | nil => intro _; rfl
    | cons k ks ih =>
      intro h
      have hk : k ≠ K.add := by
        intro hk; subst hk; simp at h
      have hks : ks.contains K.add = false := by
        simp only [List.contains_cons, Bool.or_eq_false_iff] at h
        exact h.2
      have := ih hks
      unfold expand at *
      rw [List.flatMap_cons, List.length_append, this]
      cases k <;> simp [expandK] at hk ⊢ <;> omega
  rw [h1, show expand ([] : List K) ([] : List ρ) = [] from rfl]
  simp [h2 _ hadd]

/-! ### non-vacuity: two SIQS workers, two A values each, two polynomials per A; the abort answer turns
`true` while worker 0 is inside its first A: it finishes that A (bounded by its unit), reaches the poll
of its second A and stops; worker 1 stops at the poll of its first A. 10 actions in a unit of the
largest size here; 11 steps after the flip, within 2 * (2 * 10). -/

example :
    let progs : List (List (List (List Nat))) := [[[[2, 4], [6]], [[1], [3]]], [[[8], [10, 12]], [[5], []]]]
    let c0 := run (· + ·) (fun _ => false) (initShape siqsMt 0 progs)
      [(0, false, false), (0, false, false), (0, false, false), (0, false, false), (0, false, false)]
    let after := [(0, false, true), (1, false, true), (0, false, true), (1, false, true), (0, false, true),
      (1, false, true), (0, false, true), (0, false, true), (0, false, true), (0, false, true), (0, false, true)]
    let c := run (· + ·) (fun _ => false) c0 after
    c0.log = [2] ∧ c.log = [2, 4, 6] ∧ finished c = true ∧ after.length = 11 ∧
      (∀ prog ∈ progs, ∀ u ∈ prog, (compileUnit siqsMt u).length ≤ 10) := by decide

example : (compileShape siqsMt [[[2, 4], [6]]] : List (Act Nat)) =
    [Act.check, Act.check, Act.poll, Act.check, Act.add 2, Act.add 4, Act.publish,
     Act.check, Act.add 6, Act.publish] := by decide

end Ymq.C04Shape
