/-
C07 ∘ C09: `ZmodN::inv` / `ZmodN::gcd` with `arith_gcd::inv_mod` / `big_gcd` instantiated by the MODEL of
arith_gcd.rs (Ymq/Model/Gcd.lean, tied to the code under C09), using C09's `inv_mod_spec`,
`inv_mod_no_panic` and `no_panic`. This removes the named hypothesis `inv_mod_spec` of C07's
`inv_spec` for moduli of at most 500 bits (the supported range). Kept in its own module so that
neither property's file depends on the other.
-/
import Ymq.Props.C07
import Ymq.Props.C09
import Mathlib.Data.Int.GCD

namespace Ymq.C09
open Ymq.Gcd Ymq.Limbs Ymq.ZmodN

/-- `arith_gcd::inv_mod::<8>(a, n).ok()` as computed by the C09 model -/
def invModC09 (a n : Nat) : Option Nat :=
  match invMod 8 a n with
  | some (.ok i) => some i
  | _ => none

/-- an inverse exists for coprime operands (used only to extend `invModC09` outside its domain) -/
private theorem exists_inverse (a n : Nat) (hn : 0 < n) (h : Nat.gcd a n = 1) :
    ∃ i, i < n ∧ i * a % n = 1 % n := by
  rcases Nat.lt_or_ge 1 n with h1 | h1
  · obtain ⟨m, hmlt, hm⟩ := Nat.exists_mul_mod_eq_one_of_coprime (k := n) (n := a) h h1
    exact ⟨m, hmlt, by rw [Nat.mod_eq_of_lt h1, Nat.mul_comm]; exact hm⟩
  · have : n = 1 := by omega
    subst this; exact ⟨0, by decide, by simp⟩

/-- `ZmodN::inv` on top of the C09 model of `inv_mod`, modulus and operand below `2^500 = 2^(64*8-12)`: no panic;
`None` only if `gcd(x, n) ≠ 1`, otherwise the Montgomery form of the inverse (`r·x ≡ R² (mod n)`).
No hypothesis about `inv_mod` is left. -/
theorem zmodn_inv_spec (c : Ctx) (hc : Valid c) (hn : c.n < 2 ^ (64 * 8 - 12)) (x : List Nat)
    (hx : val x < 2 ^ (64 * 8 - 12)) :
    (Nat.gcd (val x) c.n ≠ 1 ∧ ZmodN.inv invModC09 c x = some none) ∨
    (∃ r, ZmodN.inv invModC09 c x = some (some r) ∧ val r < c.n ∧
      val r * val x % c.n = Limbs.W ^ c.k * Limbs.W ^ c.k % c.n ∧ r.length = 8 ∧ Wf r) := by
  classical
  have hnpos : 0 < c.n := hc.npos
  obtain ⟨B, hB⟩ : ∃ B : Nat, B = 2 ^ (64 * 8 - 12) := ⟨_, rfl⟩
  rw [← hB] at hn hx
  -- a total extension of the model's inverse (the model is only known not to panic below 2^500)
  let tot : Nat → Nat → Option Nat := fun a n =>
    if a < B then invModC09 a n
    else if h : ∃ i, i < n ∧ i * a % n = 1 % n then some (Classical.choose h) else none
  have htot : ∀ a, match tot a c.n with
      | some i => i < c.n ∧ i * a % c.n = 1 % c.n
      | none => Nat.gcd a c.n ≠ 1 := by
    intro a
    by_cases ha : a < B
    · have e : tot a c.n = invModC09 a c.n := by simp only [tot, if_pos ha]
      rw [e]
      obtain ⟨r, hr⟩ := inv_mod_no_panic 8 (by decide) a c.n (by omega) (hB ▸ ha) (hB ▸ hn)
      have hs := inv_mod_spec 8 (by decide) a c.n r hr
      unfold invModC09
      rw [hr]
      cases r with
      | ok i => simp only at hs ⊢; exact ⟨hs.1, by rw [Nat.mul_comm]; exact hs.2⟩
      | err d => simp only at hs ⊢; rw [← hs.1]; exact hs.2
    · have e : tot a c.n = if h : ∃ i, i < c.n ∧ i * a % c.n = 1 % c.n then some (Classical.choose h)
          else none := by simp only [tot, if_neg ha]
      rw [e]
      by_cases hex : ∃ i, i < c.n ∧ i * a % c.n = 1 % c.n
      · rw [dif_pos hex]; exact Classical.choose_spec hex
      · rw [dif_neg hex]
        intro hg
        exact hex (exists_inverse a c.n hnpos hg)
  have key := Ymq.C07.inv_spec c hc tot x htot
  have e : ZmodN.inv tot c x = ZmodN.inv invModC09 c x := by
    unfold ZmodN.inv
    have : tot (val x) c.n = invModC09 (val x) c.n := by simp only [tot, if_pos hx]
    rw [this]
  rw [e] at key
  exact key

/-- `ZmodN::gcd` on top of the C09 model of `big_gcd`: never panics and is `gcd(n, x)`. -/
theorem zmodn_gcd_spec (c : Ctx) (x : List Nat) (hn : c.n < 2 ^ (64 * 8)) (hx : val x < 2 ^ (64 * 8)) :
    bigGcd 8 c.n (val x) = some (ZmodN.gcd c x) := by
  rw [Ymq.C07.gcd_spec]
  exact no_panic 8 (by decide) c.n (val x) hn hx

/-- non-vacuity: the 3-word modulus `n = 2^192 - 237` of C07's examples -/
example : invModC09 3 (2 ^ 192 - 237) = some 4184734490257787175890526282138444277401570296309356341773 ∧
    3 * 4184734490257787175890526282138444277401570296309356341773 % (2 ^ 192 - 237) = 1 := by
  decide +kernel

end Ymq.C09
