/-
Refinement of the word-level model of `pseudoprime` (Ymq/Model/PseudoprimeWord.lean, running on
the limb-level `ZmodN`) to the residue-level model (Ymq/Model/Pseudoprime.lean), by composition
with C07's specifications of `ZmodN::{new, mul, sub, from_int}`.

`Rep c m a`: the `MInt` `m` (8 well-formed words) is the Montgomery form of the residue `a < n`,
i.e. `val m = a·R mod n` with `R = 2^(64k)`.  `a ↦ a·R mod n` is a bijection of `[0, n)`
(`R` is a unit modulo the odd `n`), so `==` on `MInt`s decides equality of residues.
-/
import Ymq.Lemmas.ZmodNOps
import Ymq.Lemmas.ZmodNNew
import Ymq.Model.PseudoprimeWord

namespace Ymq.PseudoprimeWord
open Ymq.Limbs Ymq.ZmodN Ymq.Pseudoprime

/-- `m` is the Montgomery representation of the residue `a` -/
structure Rep (c : Ctx) (m : List Nat) (a : Nat) : Prop where
  wf : Wf m
  len : m.length = 8
  lt : a < c.n
  eq : val m = a * W ^ c.k % c.n

theorem Rep.vlt {c : Ctx} (h : Valid c) {m : List Nat} {a : Nat} (r : Rep c m a) : val m < c.n := by
  rw [r.eq]; exact Nat.mod_lt _ h.npos

/-- two 8-word well-formed lists with the same value are the same list -/
theorem eq_of_val_eq {x y : List Nat} (hx : Wf x) (hy : Wf y) (hl : x.length = y.length)
    (hv : val x = val y) : x = y := by
  rw [← ofNat_val hx, ← ofNat_val hy, hl, hv]

/-- `MInt` equality decides equality of the residues -/
theorem Rep.eq_iff {c : Ctx} (h : Valid c) {m m' : List Nat} {a a' : Nat}
    (r : Rep c m a) (r' : Rep c m' a') : m = m' ↔ a = a' := by
  constructor
  · intro hm
    have : a * W ^ c.k % c.n = a' * W ^ c.k % c.n := by rw [← r.eq, ← r'.eq, hm]
    have := cancel_R h this
    rwa [Nat.mod_eq_of_lt r.lt, Nat.mod_eq_of_lt r'.lt] at this
  · intro ha
    exact eq_of_val_eq r.wf r'.wf (by rw [r.len, r'.len]) (by rw [r.eq, r'.eq, ha])

/-- `zp.one()` represents 1 -/
theorem rep_one {c : Ctx} (h : Valid c) (h1 : 1 < c.n) : Rep c c.r 1 :=
  ⟨h.rwf, h.rlen, h1, by rw [h.rval, Nat.one_mul]⟩

/-- `zp.mul` on representations: never panics, represents the product of the residues -/
theorem rep_mul {c : Ctx} (h : Valid c) {x y : List Nat} {a b : Nat}
    (rx : Rep c x a) (ry : Rep c y b) :
    ∃ m, mul c x y = some m ∧ Rep c m (a * b % c.n) := by
  obtain ⟨m, e1, e2, e3, e4, e5⟩ := mul_spec' h x y rx.wf rx.len ry.len (rx.vlt h) (ry.vlt h)
  refine ⟨m, e1, e5, e4, Nat.mod_lt _ h.npos, ?_⟩
  have key : val m * W ^ c.k % c.n = (a * b % c.n * W ^ c.k) * W ^ c.k % c.n := by
    rw [e3, rx.eq, ry.eq]
    have e : (a * b % c.n * W ^ c.k) * W ^ c.k = (a * b % c.n) * (W ^ c.k * W ^ c.k) := by
      rw [Nat.mul_assoc]
    rw [e, Nat.mul_mod (a * b % c.n), Nat.mod_mod, ← Nat.mul_mod, ← Nat.mul_mod]
    congr 1
    ac_rfl
  have := cancel_R h key
  rw [Nat.mod_eq_of_lt e2] at this
  exact this

/-- `zp.from_int(b)` for `b < n` -/
theorem rep_fromInt {c : Ctx} (h : Valid c) (b : Nat) (hb : b < c.n) :
    ∃ m, fromInt c b = some m ∧ Rep c m b := by
  obtain ⟨m, e1, _, e3, e4, e5⟩ := fromInt_spec h b hb
  exact ⟨m, e1, e5, e4, hb, e3⟩

/-- `zp.sub(&zp.zero(), &zp.one())` represents `n - 1`, for EVERY admitted modulus (8-word ones
included: `0 + n < 2^512` is the case of `sub` that needs no headroom). -/
theorem rep_pm1 {c : Ctx} (h : Valid c) (h1 : 1 < c.n) :
    ∃ m, sub c (zeros MW) c.r = some m ∧ Rep c m (c.n - 1) := by
  have hz : val (zeros MW) = 0 := val_zeros _
  have hr : val c.r < c.n := by rw [h.rval]; exact Nat.mod_lt _ h.npos
  obtain ⟨m, e1, e2, e3, e4, e5⟩ := sub_spec' h (zeros MW) c.r (Wf_zeros _) h.rwf
    (by simp [zeros, MW]) h.rlen (by rw [hz]; exact h.npos) hr
    (by right; right; rw [hz, Nat.zero_add]; exact h.nlt8)
  refine ⟨m, e1, e5, e4, by omega, ?_⟩
  rw [hz, Nat.zero_mod, h.rval] at e3
  -- val m + R % n ≡ 0, ((n-1) R) + R = n R ≡ 0
  have e : (val m + W ^ c.k % c.n) % c.n = ((c.n - 1) * W ^ c.k % c.n + W ^ c.k % c.n) % c.n := by
    rw [e3, ← Nat.add_mod]
    have : (c.n - 1) * W ^ c.k + W ^ c.k = c.n * W ^ c.k := by
      have : c.n = (c.n - 1) + 1 := by omega
      conv => rhs; rw [this, Nat.add_mul, Nat.one_mul]
    rw [this, Nat.mul_mod_right]
  have := Nat.ModEq.add_right_cancel' (W ^ c.k % c.n) e
  have h2 : val m % c.n = (c.n - 1) * W ^ c.k % c.n % c.n := this
  rwa [Nat.mod_eq_of_lt e2, Nat.mod_mod] at h2

/-- the exponentiation loop -/
theorem powModW_eq {c : Ctx} (h : Valid c) :
    ∀ (f : Nat) (res x : List Nat) (a b e : Nat), Rep c res a → Rep c x b →
      ∃ m, powModW c f res x e = some m ∧ Rep c m (powMod c.n f a b e) := by
  intro f
  induction f with
  | zero => intro res x a b e ra _; exact ⟨res, rfl, ra⟩
  | succ f ih =>
    intro res x a b e ra rb
    unfold powModW powMod
    by_cases he : e = 0
    · rw [if_pos he, if_pos he]; exact ⟨res, rfl, ra⟩
    · rw [if_neg he, if_neg he]
      obtain ⟨x', hx', rx'⟩ := rep_mul h rb rb
      by_cases hb : e % 2 = 1
      · obtain ⟨res', hr', rr'⟩ := rep_mul h ra rb
        simp only [if_pos hb, hr', hx']
        exact ih res' x' _ _ _ rr' rx'
      · simp only [if_neg hb, hx']
        exact ih res x' _ _ _ ra rx'

/-- the squaring loop -/
theorem sqLoopW_eq {c : Ctx} (h : Valid c) (h1 : 1 < c.n) {pm1 : List Nat}
    (rp : Rep c pm1 (c.n - 1)) :
    ∀ (t : Nat) (pow : List Nat) (a : Nat) (ok : Bool), Rep c pow a →
      sqLoopW c pm1 t pow ok = some (sqLoop c.n t a ok) := by
  intro t
  induction t with
  | zero => intro pow a ok _; rfl
  | succ t ih =>
    intro pow a ok ra
    unfold sqLoopW sqLoop
    obtain ⟨pow', hp', rp'⟩ := rep_mul h ra ra
    simp only [hp']
    by_cases e1 : a * a % c.n = c.n - 1
    · rw [if_pos ((rp'.eq_iff h rp).2 e1), if_pos e1]
    · rw [if_neg (fun hh => e1 ((rp'.eq_iff h rp).1 hh)), if_neg e1]
      by_cases e2 : a * a % c.n = 1
      · rw [if_pos ((rp'.eq_iff h (rep_one h h1)).2 e2), if_pos e2]
      · rw [if_neg (fun hh => e2 ((rp'.eq_iff h (rep_one h h1)).1 hh)), if_neg e2]
        exact ih pow' _ ok rp'

/-- one base -/
theorem millerBaseW_eq {c : Ctx} (h : Valid c) (h1 : 1 < c.n) (s podd b : Nat) (hb : b < c.n) :
    millerBaseW c s podd b = some (millerBase c.n s podd b) := by
  obtain ⟨bm, hbm, rb⟩ := rep_fromInt h b hb
  obtain ⟨pow, hpow, rpow⟩ := powModW_eq h 1024 c.r bm 1 b podd (rep_one h h1) rb
  obtain ⟨pm1, hpm1, rp⟩ := rep_pm1 h h1
  unfold millerBaseW millerBase
  simp only [hbm, hpow, hpm1, Nat.mod_eq_of_lt hb]
  rw [sqLoopW_eq h h1 rp s pow _ _ rpow]
  congr 2
  have i1 := rpow.eq_iff h (rep_one h h1)
  have i2 := rpow.eq_iff h rp
  by_cases q1 : pow = c.r <;> by_cases q2 : pow = pm1 <;> simp_all

/-- the base loop with its early `return false` is `List.all` -/
theorem basesW_eq {c : Ctx} (h : Valid c) (h1 : 1 < c.n) (s podd : Nat) :
    ∀ l : List Nat, (∀ b ∈ l, b < c.n) →
      basesW c s podd l = some (l.all fun b => millerBase c.n s podd b) := by
  intro l
  induction l with
  | nil => intro _; rfl
  | cons b bs ih =>
    intro hl
    unfold basesW
    rw [millerBaseW_eq h h1 s podd b (hl b (by simp))]
    simp only [List.all_cons]
    cases hm : millerBase c.n s podd b
    · simp
    · simp only [if_true, Bool.true_and]
      exact ih (fun b' hb' => hl b' (by simp [hb']))

end Ymq.PseudoprimeWord
