/-
C13 helper lemmas: shape of every bucket of every `SieveTable` / `SieveTableLarge` after `Sieve::new`: a sublist
(in order) of the entries registered for the primes of the class of the table, and exactly those entries when the
table has not counted an overflow.
-/
import Ymq.Lemmas.SieveBuckets
import Ymq.Lemmas.SieveLogTables

namespace Ymq.SieveLog
open Ymq.Sieve

/-- offsets registered by `vlargeOffsets` for prime index `pidx` (third class of `new`; both classes of `rehash`). -/
def offsV (fb : FB) (r1 r2 : Array Nat) (interval pidx : Nat) : List Nat :=
  match fb.primes[pidx]?, r1[pidx]?, r2[pidx]? with
  | some p, some o1, some o2 => (vlargeOffsets interval p o1 o2).getD []
  | _, _, _ => []

/-- entries of prime index `pidx` in bucket `b` of a size-class table, for the offsets `O pidx`. -/
def partT (O : Nat → List Nat) (b pidx : Nat) : List (Nat × Nat) :=
  ((O pidx).filter fun off => off / 256 = b).map fun off => (off % 256, pidx % 2 ^ 32 % 256)

/-- entries of prime index `pidx` in bucket `b` of a large table, for the offsets `O pidx`. -/
def partV (O : Nat → List Nat) (b pidx : Nat) : List (Nat × Nat) :=
  ((O pidx).filter fun off => off / 16384 = b).map fun off => (off % BLOCK % 65536, pidx % 65536)

theorem table_class_shape (O : Nat → List Nat) (stepf : Table → Nat → Option Table)
    (hs : ∀ t pidx t', stepf t pidx = some t' →
      (O pidx).foldlM (fun (t : Table) off => t.add off (pidx % 2 ^ 32)) t = some t')
    (L : List Nat) (t t' : Table) (hwf : t.WF) (h : L.foldlM stepf t = some t') :
    t'.WF ∧ t.nOverflows ≤ t'.nOverflows ∧ ∀ b bk, t.bucket b = some bk →
      ∃ ext, t'.bucket b = some (bk ++ ext) ∧ ext.Sublist (L.flatMap (partT O b)) ∧
        (t'.nOverflows = t.nOverflows → ext = L.flatMap (partT O b)) := by
  have hfl := foldlM_flatMap_of_step stepf (fun (t : Table) (a : Nat × Nat) => t.add a.1 a.2)
    (fun pidx => (O pidx).map fun off => (off, pidx % 2 ^ 32))
    (fun t i t' hst => by rw [List.foldlM_map]; exact hs t i t' hst) L t t' h
  have key : ∀ b, (((L.flatMap fun pidx => (O pidx).map fun off => (off, pidx % 2 ^ 32)).filter
      fun a => a.1 / 256 = b).map fun a => (a.1 % 256, a.2 % 256)) = L.flatMap (partT O b) := by
    intro b
    rw [List.filter_flatMap, List.map_flatMap]
    congr 1; funext pidx
    unfold partT
    simp only [List.filter_map, List.map_map]; rfl
  obtain ⟨w, m, hb⟩ := Table.fold_shape _ t t' hwf hfl
  refine ⟨w, m, ?_⟩
  intro b bk hbk
  obtain ⟨ext, e1, e2, e3⟩ := hb b bk hbk
  rw [key b] at e2 e3
  exact ⟨ext, e1, e2, e3⟩

theorem ltable_class_shape (O : Nat → List Nat) (stepf : LTable → Nat → Option LTable)
    (hs : ∀ t pidx t', stepf t pidx = some t' →
      (O pidx).foldlM (fun (t : LTable) off => t.add off pidx) t = some t')
    (L : List Nat) (t t' : LTable) (hwf : t.WF) (h : L.foldlM stepf t = some t') :
    t'.WF ∧ t.overflows.size ≤ t'.overflows.size ∧ ∀ b bk, t.bucket b = some bk →
      ∃ ext, t'.bucket b = some (bk ++ ext) ∧ ext.Sublist (L.flatMap (partV O b)) ∧
        (t'.overflows.size = t.overflows.size → ext = L.flatMap (partV O b)) := by
  have hfl := foldlM_flatMap_of_step stepf (fun (t : LTable) (a : Nat × Nat) => t.add a.1 a.2)
    (fun pidx => (O pidx).map fun off => (off, pidx))
    (fun t i t' hst => by rw [List.foldlM_map]; exact hs t i t' hst) L t t' h
  have key : ∀ b, (((L.flatMap fun pidx => (O pidx).map fun off => (off, pidx)).filter
      fun a => a.1 / 16384 = b).map fun a => (a.1 % BLOCK % 65536, a.2 % 65536)) = L.flatMap (partV O b) := by
    intro b
    rw [List.filter_flatMap, List.map_flatMap]
    congr 1; funext pidx
    unfold partV
    simp only [List.filter_map, List.map_map]; rfl
  obtain ⟨w, m, hb⟩ := LTable.fold_shape _ t t' hwf hfl
  refine ⟨w, m, ?_⟩
  intro b bk hbk
  obtain ⟨ext, e1, e2, e3⟩ := hb b bk hbk
  rw [key b] at e2 e3
  exact ⟨ext, e1, e2, e3⟩

section
variable {fb : FB} {r1 r2 : Array Nat} {interval : Nat}

theorem newLargeStep_offs {t t' : Table} {pidx : Nat} (h : newLargeStep fb r1 r2 interval t pidx = some t') :
    (offsL fb r1 r2 interval pidx).foldlM (fun (t : Table) off => t.add off (pidx % 2 ^ 32)) t = some t' := by
  unfold newLargeStep at h
  simp only [Option.bind_eq_bind, Option.bind_eq_some_iff] at h
  obtain ⟨o1, h1, o2, h2, p, hp, h⟩ := h
  split at h
  · simp at h
  simp only [Option.pure_def, Option.bind_some, Option.bind_eq_some_iff] at h
  obtain ⟨offsets, ho, hf⟩ := h
  unfold offsL
  simp only [hp, h1, h2, ho, Option.getD_some]
  exact hf

theorem newVLargeStep_offs {t t' : LTable} {pidx : Nat} (h : newVLargeStep fb r1 r2 interval t pidx = some t') :
    (offsV fb r1 r2 interval pidx).foldlM (fun (t : LTable) off => t.add off pidx) t = some t' := by
  unfold newVLargeStep at h
  simp only [Option.bind_eq_bind, Option.bind_eq_some_iff] at h
  obtain ⟨o1, h1, o2, h2, p, hp, h⟩ := h
  split at h
  · simp at h
  simp only [Option.pure_def, Option.bind_some, Option.bind_eq_some_iff] at h
  obtain ⟨offsets, ho, hf⟩ := h
  unfold offsV
  simp only [hp, h1, h2, ho, Option.getD_some]
  exact hf

/-- a step of the loop of `new`, seen from large table `li`. -/
theorem newStep_ltable {st st' : Array Nat × Array Table × Array LTable} {log li : Nat}
    (h : newStep fb r1 r2 interval st log = some st') :
    (log ≠ li + 19 → st'.2.2[li]? = st.2.2[li]?) ∧
    (log = li + 19 → ∃ idx1 idx2 t t', fb.ibl[log]? = some idx1 ∧ fb.ibl[log + 1]? = some idx2 ∧
      st.2.2[li]? = some t ∧ (List.range' idx1 (idx2 - idx1)).foldlM (newVLargeStep fb r1 r2 interval) t = some t' ∧
      st'.2.2[li]? = some t') := by
  obtain ⟨offs, tables, ltables⟩ := st
  unfold newStep at h
  simp only [Option.bind_eq_bind, Option.bind_eq_some_iff] at h
  obtain ⟨idx1, h1, idx2, h2, h⟩ := h
  by_cases hass : ¬ (idx2 ≤ r1.size ∧ idx2 ≤ r2.size ∧ idx2 ≤ fb.primes.size)
  · simp [hass] at h
  simp only [hass, if_false, Option.pure_def, Option.bind_some] at h
  by_cases hl : log < LARGE_LOG
  · simp only [hl, if_true, Option.bind_eq_some_iff, Option.some.injEq] at h
    obtain ⟨offs', _, rfl⟩ := h
    simp only [LARGE_LOG] at hl
    exact ⟨fun _ => rfl, fun e => by omega⟩
  · simp only [hl, if_false] at h
    by_cases hv : log < VLARGE_LOG
    · simp only [hv, if_true, Option.bind_eq_some_iff, Option.some.injEq] at h
      obtain ⟨tables', _, rfl⟩ := h
      simp only [VLARGE_LOG] at hv
      exact ⟨fun _ => rfl, fun e => by omega⟩
    · simp only [hv, if_false, Option.bind_eq_some_iff, Option.some.injEq] at h
      obtain ⟨ltables', hm, rfl⟩ := h
      obtain ⟨x, y, hx, hf, _, hy, hne⟩ := modifyM_spec hm
      simp only [VLARGE_LOG] at hv hx hy hne
      constructor
      · intro hne'
        exact hne li (by omega)
      · intro e
        have : log - 19 = li := by omega
        rw [this] at hx hy
        exact ⟨idx1, idx2, x, y, h1, h2, hx, hf, hy⟩

theorem newFold_ltable {T0 : Array Table} {L0 : Array LTable} {offs0 : Array Nat} {li : Nat} :
    ∀ (n : Nat) (st' : Array Nat × Array Table × Array LTable),
      (List.range' 0 n).foldlM (newStep fb r1 r2 interval) (offs0, T0, L0) = some st' →
      (n ≤ li + 19 → st'.2.2[li]? = L0[li]?) ∧
      (li + 19 < n → ∃ idx1 idx2 t t', fb.ibl[li + 19]? = some idx1 ∧ fb.ibl[li + 20]? = some idx2 ∧
        L0[li]? = some t ∧ (List.range' idx1 (idx2 - idx1)).foldlM (newVLargeStep fb r1 r2 interval) t = some t' ∧
        st'.2.2[li]? = some t') := by
  intro n
  induction n with
  | zero =>
    intro st' h
    simp at h; subst h
    exact ⟨fun _ => rfl, fun h => by omega⟩
  | succ n ih =>
    intro st' h
    rw [List.range'_concat, List.foldlM_append] at h
    simp only [bind, Option.bind_eq_some_iff, List.foldlM_cons, List.foldlM_nil, pure, Nat.zero_add, Nat.one_mul] at h
    obtain ⟨st1, hs1, st2, hs2, hst⟩ := h
    simp only [Option.some.injEq] at hst
    subst hst
    obtain ⟨i1, i2⟩ := ih st1 hs1
    obtain ⟨j1, j2⟩ := newStep_ltable (li := li) hs2
    constructor
    · intro hle
      rw [j1 (by omega), i1 (by omega)]
    · intro hlt
      by_cases hn : n = li + 19
      · obtain ⟨idx1, idx2, t, t', a1, a2, a3, a4, a5⟩ := j2 hn
        rw [hn] at a1 a2
        rw [i1 (by omega)] at a3
        exact ⟨idx1, idx2, t, t', a1, a2, a3, a4, a5⟩
      · obtain ⟨idx1, idx2, t, t', a1, a2, a3, a4, a5⟩ := i2 (by omega)
        exact ⟨idx1, idx2, t, t', a1, a2, a3, a4, by rw [j1 hn]; exact a5⟩

end

/-- every bucket of every size-class table: a sublist of the registered entries, all of them when no overflow is
counted. -/
def TShape (fb : FB) (O : Nat → List Nat) (nblocks : Nat) (tables : Array Table) : Prop :=
  ∀ (tidx : Nat) (t : Table), tables[tidx]? = some t → ∃ idx1 idx2, fb.ibl[tidx + 16]? = some idx1 ∧
    fb.ibl[tidx + 17]? = some idx2 ∧ ∀ b, b < 128 * nblocks → ∃ bk, t.bucket b = some bk ∧
      bk.Sublist ((List.range' idx1 (idx2 - idx1)).flatMap (partT O b)) ∧
      (t.nOverflows = 0 → bk = (List.range' idx1 (idx2 - idx1)).flatMap (partT O b))

/-- same for the large tables (overflow vector empty = nothing lost). -/
def LShape (fb : FB) (O : Nat → List Nat) (nblocks : Nat) (ltables : Array LTable) : Prop :=
  ∀ (tidx : Nat) (t : LTable), ltables[tidx]? = some t → ∃ idx1 idx2, fb.ibl[tidx + 19]? = some idx1 ∧
    fb.ibl[tidx + 20]? = some idx2 ∧ ∀ b, b < 2 * nblocks → ∃ bk, t.bucket b = some bk ∧
      bk.Sublist ((List.range' idx1 (idx2 - idx1)).flatMap (partV O b)) ∧
      (t.overflows.size = 0 → bk = (List.range' idx1 (idx2 - idx1)).flatMap (partV O b))

/-- recycled tables of the same `nblocks` (what `Sieve::recycle` returns). -/
def RecycledLens (n : Nat) (recycled : Option (Array Table × Array LTable)) : Prop :=
  RecycledBlens n recycled ∧ ∀ ts lts, recycled = some (ts, lts) → ∀ (i : Nat) (t : LTable), lts[i]? = some t →
    2 * n ≤ t.lengths.size

theorem lbucket_of_zero_len {t : LTable} {b : Nat} (h : t.lengths[b]? = some 0) : t.bucket b = some [] := by
  unfold LTable.bucket; simp [h]

theorem newTables_lbucket_nil {n maxlog : Nat} {recycled : Option (Array Table × Array LTable)}
    {T0 : Array Table} {L0 : Array LTable} (hrec : RecycledLens n recycled)
    (h : newTables n maxlog recycled = some (T0, L0)) :
    ∀ (li : Nat) (t0 : LTable), L0[li]? = some t0 → t0.overflows.size = 0 ∧
      ∀ b, b < 2 * n → t0.bucket b = some [] := by
  unfold newTables at h
  cases recycled with
  | none =>
    simp only [Option.some.injEq, Prod.mk.injEq] at h
    obtain ⟨rfl, rfl⟩ := h
    intro li t0 ht
    rw [getElem?_replicate_eq ht]
    refine ⟨by simp [LTable.new], ?_⟩
    intro b hb
    apply lbucket_of_zero_len
    simp [LTable.new, BLOCK, LBW, Array.getElem?_replicate]; omega
  | some r =>
    obtain ⟨ts, lts⟩ := r
    simp only at h
    split_ifs at h
    simp only [Option.some.injEq, Prod.mk.injEq] at h
    obtain ⟨rfl, rfl⟩ := h
    intro li t0 ht
    rw [Array.getElem?_map] at ht
    simp only [Option.map_eq_some_iff] at ht
    obtain ⟨t', ht', rfl⟩ := ht
    refine ⟨by simp [LTable.reset], ?_⟩
    intro b hb
    apply lbucket_of_zero_len
    have := hrec.2 ts lts rfl li t' ht'
    simp [LTable.reset, Array.getElem?_replicate]; omega

/-- `Sieve::new` establishes the two shapes. -/
theorem new_shape {fb : FB} {r1 r2 : Array Nat} {offset : Int} {nblocks : Nat}
    {recycled : Option (Array Table × Array LTable)} {s : State} (hrec : RecycledLens nblocks recycled)
    (h : new offset nblocks fb r1 r2 recycled = some s) :
    TShape fb (offsL fb r1 r2 (nblocks * BLOCK)) nblocks s.tables ∧
      LShape fb (offsV fb r1 r2 (nblocks * BLOCK)) nblocks s.ltables := by
  unfold new at h
  simp only [Option.bind_eq_bind, Option.bind_eq_some_iff] at h
  obtain ⟨_, _, maxprime, hmax, ⟨T0, L0⟩, hnt, h⟩ := h
  by_cases hbig : nblocks * BLOCK ≥ 2 ^ 62
  · simp at h; omega
  simp only [hbig, if_false, Option.pure_def, Option.bind_some, Option.bind_eq_some_iff, Option.some.injEq] at h
  obtain ⟨⟨offs, tables, ltables⟩, hf, rfl⟩ := h
  simp only
  obtain ⟨hT, hL, hTs, hLs⟩ := newTables_spec hrec.1.ok hnt
  have hT3 : T0.size ≤ 3 := by omega
  have hrel := newFold_tab (fb := fb) (r1 := r1) (r2 := r2) (interval := nblocks * BLOCK) hT3
    (fun ti t ht => (hT ti t ht).1) (fun li t ht => (hL li t ht).1) hf
  simp only at hrel
  constructor
  · intro tidx t ht
    have hti : tidx < T0.size := by
      have := (Array.getElem?_eq_some_iff.1 ht).1
      rw [hrel.1] at this; exact this
    obtain ⟨_, hafter⟩ := newFold_table (fb := fb) (r1 := r1) (r2 := r2) (interval := nblocks * BLOCK) (T0 := T0)
      (L0 := L0) (offs0 := #[]) (ti := tidx) (by omega) (bitlen maxprime + 1) _ hf
    obtain ⟨idx1, idx2, t0, t', a1, a2, a3, a4, a5⟩ := hafter (by omega)
    simp only at a5
    rw [ht] at a5
    have := Option.some.inj a5; subst this
    obtain ⟨hw0, hz0, _⟩ := hT tidx t0 a3
    obtain ⟨_, hmono, hbk⟩ := table_class_shape (offsL fb r1 r2 (nblocks * BLOCK)) _
      (fun t pidx t' hst => newLargeStep_offs hst) _ t0 t hw0 a4
    refine ⟨idx1, idx2, a1, a2, ?_⟩
    intro b hb
    obtain ⟨ext, e1, e2, e3⟩ := hbk b [] (newTables_bucket_nil hrec.1 hnt tidx t0 a3 b hb)
    rw [List.nil_append] at e1
    exact ⟨ext, e1, e2, fun hz => e3 (by rw [hz, hz0])⟩
  · intro tidx t ht
    have hti : tidx < L0.size := by
      have := (Array.getElem?_eq_some_iff.1 ht).1
      rw [hrel.2.1] at this; exact this
    obtain ⟨_, hafter⟩ := newFold_ltable (fb := fb) (r1 := r1) (r2 := r2) (interval := nblocks * BLOCK) (T0 := T0)
      (L0 := L0) (offs0 := #[]) (li := tidx) (bitlen maxprime + 1) _ hf
    obtain ⟨idx1, idx2, t0, t', a1, a2, a3, a4, a5⟩ := hafter (by omega)
    simp only at a5
    rw [ht] at a5
    have := Option.some.inj a5; subst this
    obtain ⟨hw0, _⟩ := hL tidx t0 a3
    obtain ⟨hz0, hnil⟩ := newTables_lbucket_nil hrec hnt tidx t0 a3
    obtain ⟨_, hmono, hbk⟩ := ltable_class_shape (offsV fb r1 r2 (nblocks * BLOCK)) _
      (fun t pidx t' hst => newVLargeStep_offs hst) _ t0 t hw0 a4
    refine ⟨idx1, idx2, a1, a2, ?_⟩
    intro b hb
    obtain ⟨ext, e1, e2, e3⟩ := hbk b [] (hnil b hb)
    rw [List.nil_append] at e1
    exact ⟨ext, e1, e2, fun hz => e3 (by rw [hz, hz0])⟩

end Ymq.SieveLog
