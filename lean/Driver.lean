import Ymq.Drv.All

open Ymq.Drv

partial def loop (h : IO.FS.Stream) (out : IO.FS.Stream) : IO Unit := do
  let line ← h.getLine
  if line.isEmpty then return ()
  let toks := (line.trimAscii.toString.splitOn " ").filter (· ≠ "")
  let r := match handlers.findSome? (fun f => f toks) with
    | some s => s
    | none => "?"
  out.putStrLn r
  loop h out

def main : IO Unit := do
  let out ← IO.getStdout
  loop (← IO.getStdin) out
  out.flush
