/-
C14, part "small" — the 64x64 bit-matrix core (`SmallMat`) that drives block Lanczos.
Only property theorems live here (helper lemmas: Ymq/Lemmas/Gf2Small*.lean).

Reading guide. A `SmallMat` is the list `M` of its `n` rows, each a word (`Nat`) whose bit `j` is the
entry `(i, j)`; the Rust code has `n = LSIZE = 64` and every theorem below is proved for ALL sizes `n`
(instantiate `n := 64`; small sizes are used for the non-vacuity examples). `WF n M`: `n` rows, each
below `2^n` (what 64 `u64` words are). `dbg = true` is the checked profile (`debug_assert!` active),
`dbg = false` the release profile. `f n dbg M = some r` means "the Rust routine returns `r` without
reaching any panic site of that profile"; `none` = panic. `toMat n M` is the matrix over `ZMod 2`
(Mathlib), `vec n w` a word as a vector; ranks are Mathlib's `Matrix.rank`.
All theorems are about the model Ymq/Model/Gf2Small.lean (tied to the code by the K stream `sm_*`/`smr_*`).
-/
import Ymq.Lemmas.Gf2SmallCallsite
import Ymq.Lemmas.Gf2SmallInverse
import Ymq.Lemmas.Gf2SmallVRun
import Ymq.Model.Gf2Genblock
import Ymq.Props.C14

namespace Ymq.C14Small
open Ymq.Gf2Small
open scoped Matrix

/-- what 64 `u64` words are, for a general size -/
def WF (n : Nat) (M : Mat) : Prop := M.length = n ∧ ∀ k, k < n → row M k < 2 ^ n

/-- (a) `SmallMat::rank` never panics (the `debug_assert!(rank == mask.count_ones())` holds, the shift
`1 << idx` is in range) and returns `(rk, mask)` where `mask` has exactly `rk` bits, all below `n`;
`rk` is the rank of the matrix (Mathlib `Matrix.rank` over `ZMod 2`); the ORIGINAL rows selected by
`mask` are linearly independent and span the row space (a basis of the row space).
Which basis: `mask` collects `orig_idx` of the pivot rows of the elimination by increasing column
(pivot = first row, in the CURRENT order after the swaps, whose lowest set bit is the column); it is
NOT always the lexicographically first independent set of rows (`rank_not_greedy`). -/
theorem rank_spec (n : Nat) (dbg : Bool) (M : Mat) (hM : WF n M) :
    ∃ rk mask, rank n dbg M = some (rk, mask) ∧ rk ≤ n ∧ mask < 2 ^ n ∧ popcount n mask = rk ∧
      (toMat n M).rank = rk ∧
      LinearIndependent (ZMod 2) (fun t : {t : Fin n // mask.testBit t = true} => toMat n M t.1) ∧
      Submodule.span (ZMod 2) (Set.range fun t : {t : Fin n // mask.testBit t = true} => toMat n M t.1) =
        Submodule.span (ZMod 2) (Set.range (toMat n M).row) := by
  obtain ⟨rk, mask, hr, hF⟩ := rank_spec_aux dbg hM.2
  refine ⟨rk, mask, hr, hF.rk_le, hF.maskLt, hF.pc, hF.matrix_rank, hF.independent, ?_⟩
  rw [← selSpan_eq_range, hF.sel, spanOf_row_eq]

/-- the answer of `rank` does not depend on the profile -/
theorem rank_profile_independent (n : Nat) (M : Mat) (hM : WF n M) : rank n true M = rank n false M := by
  obtain ⟨rk, mask, hr, hF⟩ := rank_spec_aux true hM.2
  rw [hr]
  unfold rank at hr ⊢
  cases hf : (List.range n).foldlM (rankCol n) (rankInit n M) with
  | none => rw [hf] at hr; cases hr
  | some st =>
    rw [hf] at hr
    simp only [Bool.false_and, Bool.false_eq_true, if_false]
    simp only [] at hr
    by_cases hc : (true && st.rk != popcount n st.mask) = true
    · rw [if_pos hc] at hr; cases hr
    · rw [if_neg hc] at hr; exact hr.symm

/-- (b), soundness for every size `n` (no bound from the 256-entry index array): every value returned
by `pseudoinverse` on its documented domain is the inverse on `S`; see `pseudoinverse_spec` for the
total statement. -/
theorem pseudoinverse_sound (n : Nat) (dbg : Bool) (T : Mat) (hT : WF n T) (rk S : Nat)
    (hr : rank n dbg T = some (rk, S)) (hD : Supported n T S) (W : Mat)
    (h : pseudoinverse n dbg T = some W) :
    W.length = n ∧ (∀ k, k < n → row W k < 2 ^ n) ∧ Supported n W S ∧
    toMat n W * toMat n T = toMat n (maskedId n S) := by
  obtain ⟨rk', mask', hr', hF⟩ := rank_spec_aux dbg hT.2
  rw [hr] at hr'
  injection hr' with hr'
  injection hr' with h1 h2
  subst h1; subst h2
  have hcore := pinv_core dbg hT.2 hD
  simp only [] at hcore
  unfold pseudoinverse at h
  rw [hr] at h
  simp only [] at h
  rw [hF.pc] at hcore
  unfold maskedId at hcore
  split at h
  · cases h
  · split at h
    · cases h
    · generalize pinvForward n dbg _ _ = fw at hcore h
      cases fw with
      | none => cases h
      | some rows1 =>
        obtain ⟨rows2, h2, hB⟩ := hcore
        simp only [] at h
        rw [h2] at h
        simp only [] at h
        split at h
        · cases h
        · injection h with h
          subst h
          have hrow : ∀ k, row (rows2.map (·.2)) k = sndF rows2 k := fun k => row_map_snd rows2 k
          refine ⟨by rw [List.length_map]; exact hB.len, fun k hk => by rw [hrow]; exact (hB.ok k hk).ltd,
            ⟨fun k hk hS => ?_, fun k hk t ht => ?_⟩, ?_⟩
          · rw [hrow]; exact (hB.zero k hk (by simp [hS])).2
          · rw [hrow] at ht; exact (hB.ok k hk).subd t ht
          · funext i
            rw [Matrix.mul_apply_eq_vecMul]
            show vec n (row (rows2.map (·.2)) i) ᵥ* toMat n T = vec n (row (List.map (fun r => r &&& S) (identity n)) i)
            rw [hrow, (hB.ok i i.2).coef]
            have := row_maskedId (n := n) (mk := S) i.2
            unfold maskedId at this
            rw [this]
            cases hS : S.testBit i with
            | true => rw [hB.red i i.2 hS ⟨hS, i.2⟩]; rfl
            | false => rw [(hB.zero i i.2 (by simp [hS])).1]; rfl

/-- (c) `SmallMat::inverse` never panics; it returns `Some(W)` with `W·M = M·W = 1` when `M` is
invertible and `None` exactly when it is not (`IsUnit` of the matrix over `ZMod 2`). -/
theorem inverse_spec (n : Nat) (dbg : Bool) (M : Mat) (hM : WF n M) :
    (∃ W, inverse n dbg M = some (some W) ∧ toMat n W * toMat n M = 1 ∧ toMat n M * toMat n W = 1) ∨
    (inverse n dbg M = some none ∧ ¬ IsUnit (toMat n M)) :=
  Gf2Small.inverse_spec hM.2

/-- `inverse` returns `Some` iff the matrix is invertible -/
theorem inverse_some_iff (n : Nat) (dbg : Bool) (M : Mat) (hM : WF n M) :
    (∃ W, inverse n dbg M = some (some W)) ↔ IsUnit (toMat n M) := by
  rcases inverse_spec n dbg M hM with ⟨W, hW, h1, h2⟩ | ⟨hN, hU⟩
  · exact ⟨fun _ => ⟨⟨toMat n M, toMat n W, h2, h1⟩, rfl⟩, fun _ => ⟨W, hW⟩⟩
  · constructor
    · rintro ⟨W, hW⟩; rw [hN] at hW; cases hW
    · intro h; exact absurd h hU

/-- the answer of `inverse` does not depend on the profile (no `debug_assert!` can fail) -/
theorem inverse_profile_independent (n : Nat) (M : Mat) (hM : WF n M) :
    inverse n true M = inverse n false M :=
  inverse_dbg_irrelevant hM.2

/-- (d) `transpose`, entrywise, and the result consists of `n` words of `n` bits -/
theorem transpose_spec (n : Nat) (M : Mat) :
    (transpose n M).length = n ∧ ∀ i, i < n → row (transpose n M) i < 2 ^ n ∧
      ∀ j, j < n → (row (transpose n M) i).testBit j = (row M j).testBit i := by
  refine ⟨length_transpose n M, fun i hi => ⟨row_transpose_lt M i, fun j hj => ?_⟩⟩
  rw [testBit_transpose M hi j]; simp [hj]

/-- (d) `mask` never fails its `debug_assert!(!self.symmetric() || m.symmetric())` (masking keeps
symmetry) and keeps exactly the entries `(i, j)` with `i` and `j` in the mask -/
theorem mask_spec (n : Nat) (dbg : Bool) (M : Mat) (mk : Nat) :
    ∃ R, mask n dbg M mk = some R ∧ R.length = n ∧
      (∀ i, i < n → ∀ j, (row R i).testBit j = (mk.testBit i && (mk.testBit j && (row M i).testBit j))) ∧
      (symmetric n M = true → symmetric n R = true) :=
  ⟨maskRows n M mk, mask_eq n dbg M mk, length_maskRows n M mk,
    fun _ hi j => testBit_maskRows M mk hi j, fun h => symmetric_maskRows mk h⟩

/-- (d) `reverse` (rows and columns taken from the other end), `reverse_lane`, both involutive -/
theorem reverse_spec (n : Nat) (M : Mat) (hM : WF n M) :
    WF n (reverse n M) ∧ reverse n (reverse n M) = M ∧
    (∀ i, i < n → ∀ j, j < n → (row (reverse n M) i).testBit j = (row M (n - 1 - i)).testBit (n - 1 - j)) ∧
    (∀ l j, (reverseLane n l).testBit j = (decide (j < n) && l.testBit (n - 1 - j))) := by
  refine ⟨⟨length_reverse n M, fun i hi => by rw [row_reverse M hi]; exact reverseLane_lt n _⟩,
    reverse_reverse hM.1 hM.2, fun i hi j hj => ?_, fun l j => testBit_reverseLane n l j⟩
  rw [testBit_reverse M hi j]; simp [hj]

/-- (d) `symmetric` decides symmetry; `identity` is the identity matrix -/
theorem symmetric_spec (n : Nat) (M : Mat) :
    symmetric n M = true ↔ ∀ i j, i < n → j < n → (row M i).testBit j = (row M j).testBit i :=
  symmetric_iff n M

theorem identity_spec (n : Nat) : (identity n).length = n ∧ toMat n (identity n) = 1 := by
  refine ⟨length_identity n, ?_⟩
  funext i
  show vec n (row (identity n) i) = _
  rw [row_identity i.2, vec_shiftLeft_one i.2]
  funext j
  simp [Matrix.one_apply, Pi.single_apply, eq_comm]

/-- (b) `SmallMat::pseudoinverse` on its documented domain ("null coefficients outside of a set of
indices I"): if `T` is null outside `S × S` where `S` is the mask that `rank` selects for `T` (hence
`|S| = rank T` and the `S × S` block is invertible; symmetry is NOT needed), NO panic site is reached in
either profile — the `.unwrap()` on `position`, the `lz` assertions, `r == 1 << i`, `i < j`, both
`minv.rank() == self.rank()`, the slice `idx[..rk]` — and the value returned is the matrix `W`
supported on `S × S` (rows outside `S` null, rows inside `S`) with `W · T = identity on S`
(`maskedId n S`: row `s` is `1 << s` for `s ∈ S`, null otherwise): Montgomery's `W = S (Sᵗ T S)⁻¹ Sᵗ`.
`n ≤ 256`: `idx` is a 256-entry array (the code has `n = 64`). -/
theorem pseudoinverse_spec (n : Nat) (dbg : Bool) (T : Mat) (hT : WF n T) (hn : n ≤ 256) (rk S : Nat)
    (hr : rank n dbg T = some (rk, S)) (hD : Supported n T S) :
    ∃ W, pseudoinverse n dbg T = some W ∧ W.length = n ∧ (∀ k, k < n → row W k < 2 ^ n) ∧
      Supported n W S ∧ toMat n W * toMat n T = toMat n (maskedId n S) := by
  obtain ⟨rows2, hB, hp⟩ := pseudoinverse_total dbg hn hT.2 hr hD
  obtain ⟨h1, h2, h3, h4⟩ := hB.result
  exact ⟨_, hp, h1, h2, h3, h4⟩

theorem pseudoinverse_no_panic (n : Nat) (dbg : Bool) (T : Mat) (hT : WF n T) (hn : n ≤ 256) (rk S : Nat)
    (hr : rank n dbg T = some (rk, S)) (hD : Supported n T S) : ∃ W, pseudoinverse n dbg T = some W := by
  obtain ⟨W, hW, _⟩ := pseudoinverse_spec n dbg T hT hn rk S hr hD
  exact ⟨W, hW⟩

/-- (d) `rank_reverse` = `rank` of the reversed matrix with the mask read from the other end: it never
panics and returns `(rk, S)` with `popcount S = rk = Matrix.rank M` (of `M` itself), the rows of `M`
selected by `S` linearly independent; `S` reversed is the selection `rank` makes in `reverse n M`
("the same selection taken from the other end"). -/
theorem rank_reverse_spec (n : Nat) (dbg : Bool) (M : Mat) (hM : WF n M) :
    ∃ rk S, rankReverse n dbg M = some (rk, S) ∧ S < 2 ^ n ∧ popcount n S = rk ∧
      (toMat n M).rank = rk ∧
      LinearIndependent (ZMod 2) (fun t : {t : Fin n // S.testBit t = true} => toMat n M t.1) ∧
      rank n dbg (reverse n M) = some (rk, reverseLane n S) := by
  obtain ⟨rk, S, hr, hS⟩ := rankReverse_selected dbg hM.2
  refine ⟨rk, S, hr, hS.lt, hS.pc, hS.rank, hS.indep, ?_⟩
  unfold rankReverse at hr
  obtain ⟨rk', mk', hr', hF⟩ := rank_spec_aux dbg (M := reverse n M) (fun k hk => reverse_lt M hk)
  rw [hr'] at hr
  injection hr with hr
  injection hr with h1 h2
  subst h1; subst h2
  rw [hr', reverseLane_reverseLane hF.maskLt]

/-- Montgomery's lemma at the place where the code asserts it (`submatrix()`:
`debug_assert!(m.rank() == (r, mask))`): for a SYMMETRIC matrix `G`, masking by the selection of `rank`
gives a matrix whose own selection is the same — the principal submatrix on a maximal independent set
of rows of a symmetric matrix is invertible (`montgomery_masked_independent`, proved for symmetric
matrices over any field; the code's non-greedy choice does not matter, any `rank G` independent rows
do). `submatrix` therefore never panics on symmetric input. -/
theorem submatrix_spec (n : Nat) (dbg : Bool) (G : Mat) (hG : WF n G) (hsym : symmetric n G = true) :
    ∃ rk S, rank n dbg G = some (rk, S) ∧ rank n dbg (maskRows n G S) = some (rk, S) ∧
      submatrix n dbg G = some (maskRows n G S) := by
  obtain ⟨rk, S, hr, hS⟩ := rank_selected dbg hG.2
  have hm := rank_masked_of_symmetric dbg hG.2 hsym hS
  refine ⟨rk, S, hr, hm, ?_⟩
  unfold submatrix
  rw [hsym, hr]
  simp only [Bool.not_true, Bool.and_false, Bool.false_eq_true, if_false, mask_eq,
    symmetric_maskRows S hsym, hm, bne_self_eq_false]

/-- (b) the call site of `kernel_lanczos` (`pipeline`: `gram.rank()` or `gram.rank_reverse()`,
`gram.mask(mask).pseudoinverse()`, `debug_assert!(ginv.rank() == (rk, mask))`) on a SYMMETRIC matrix
(what the code passes: the Gram matrix `bv · bv`): no panic site is reached, in either profile and either
direction; `rk = rank G`, `S` has `rk` bits and selects independent rows; the masked matrix
`T = G.mask(S)` is in the domain of `pseudoinverse` (its own selection is `(rk, S)`); `W` is supported on
`S × S`, `W·T` = identity on `S`, `W·T·W = W`. -/
theorem pipeline_spec (n : Nat) (dbg rev : Bool) (G : Mat) (hG : WF n G) (hn : n ≤ 256)
    (hsym : symmetric n G = true) :
    ∃ rk S W, Ymq.Gf2Genblock.pipeline n dbg rev G = some (rk, S, W) ∧
      (toMat n G).rank = rk ∧ popcount n S = rk ∧
      LinearIndependent (ZMod 2) (fun t : {t : Fin n // S.testBit t = true} => toMat n G t.1) ∧
      rank n dbg (maskRows n G S) = some (rk, S) ∧ Supported n W S ∧
      toMat n W * toMat n (maskRows n G S) = toMat n (maskedId n S) ∧
      toMat n W * toMat n (maskRows n G S) * toMat n W = toMat n W := by
  obtain ⟨rk, S, W, hp, hS, hm, hl, hlt, hSup, hmul⟩ := pipeline_total dbg rev hn hG.2 hsym
  refine ⟨rk, S, W, hp, hS.rank, hS.pc, hS.indep, hm, hSup, hmul, ?_⟩
  rw [hmul]
  funext i
  rw [Matrix.mul_apply_eq_vecMul]
  show vec n (row (maskedId n S) i) ᵥ* toMat n W = vec n (row W i)
  rw [row_maskedId i.2]
  cases hb : S.testBit i with
  | true => simp only [if_true]; exact vecMul_unit W i.2
  | false =>
    simp only [Bool.false_eq_true, if_false]
    rw [hSup.rowsZero i i.2 hb, vec_zero, Matrix.zero_vecMul]

/-! ### genblock -/

open Ymq.Gf2Genblock in
/-- L3, exact exit condition of the model of `genblock` on ANY stream of drawn blocks: when every
drawn block has a Gram matrix `(B·A·y)ᵗ(B·A·y)` of rank below 64 the loop refuses them all (the real
loop has no other exit: it draws again, forever if no admissible block exists). -/
theorem genblock_never_ends (dbg : Bool) (b : Ymq.Gf2.SparseOpt) (ys : List (List Nat))
    (h : ∀ y, y ∈ ys → ∃ g rk mk, gramOf b y = some g ∧ rank 64 dbg g = some (rk, mk) ∧ rk ≠ 64) :
    genblock dbg b ys = .exhausted ys.length := by
  have key : ∀ (ys : List (List Nat)) (k : Nat),
      (∀ y, y ∈ ys → ∃ g rk mk, gramOf b y = some g ∧ rank 64 dbg g = some (rk, mk) ∧ rk ≠ 64) →
      genblockFrom dbg b k ys = .exhausted (k + ys.length) := by
    intro ys
    induction ys with
    | nil => intro k _; rfl
    | cons y ys ih =>
      intro k h
      obtain ⟨g, rk, mk, hg, hr, hne⟩ := h y (by simp)
      unfold genblockFrom
      simp only [hg, hr, hne, if_false]
      rw [ih (k + 1) (fun y' hy' => h y' (by simp [hy'])), List.length_cons]
      congr 1; omega
  have := key ys 0 h
  rwa [Nat.zero_add] at this

open Ymq.Gf2Genblock in
/-- conversely the first block of the stream whose Gram matrix has rank 64 is returned -/
theorem genblock_accepts (dbg : Bool) (b : Ymq.Gf2.SparseOpt) (y : List Nat) (ys : List (List Nat))
    (g : Mat) (mk : Nat) (hg : gramOf b y = some g) (hr : rank 64 dbg g = some (64, mk)) :
    genblock dbg b (y :: ys) = .accepted 0 y := by
  unfold genblock genblockFrom
  simp only [hg, hr, if_true]

open Ymq.Gf2Genblock Ymq.Gf2 in
/-- L3, Lean link for the hang rule. The Gram matrix tested by `genblock` is `Pᵗ·P` with
`P = B·mul_aab_opt(B, y)`, so its rank is at most `rank B` (`gram_rank_le`, Mathlib `Matrix.rank` of
the dense matrix `sparseMat k cols`, repeated indices cancelling in pairs): when `rank B < 64` the model
of `genblock` refuses EVERY stream of blocks (one 64-bit word per column), without panic — the real loop
never ends. Corollary-level statement; the exact rule is `genblock_never_ends_hang_rule`. -/
theorem genblock_never_ends_low_rank (dbg : Bool) (k : Nat) (cols : List (List Nat)) (ys : List (List Nat))
    (hk64 : 64 ≤ k) (hk : k ≤ 2 ^ 32) (hn : cols.length ≤ 2 ^ 32) (hwf : ∀ col ∈ cols, ∀ a ∈ col, a < k)
    (hrank : (sparseMat k cols).rank < 64)
    (hys : ∀ y ∈ ys, y.length = cols.length ∧ ∀ w ∈ y, w < 2 ^ 64) :
    genblock dbg (qsOptimize k cols) ys = .exhausted ys.length := by
  apply genblock_never_ends
  exact genblock_refuses_all dbg k cols ys hk hn hwf hrank (fun y hy =>
    ⟨(hys y hy).2, gramOf_total k cols y hk64 hk hn hwf (hys y hy).1⟩)

open Ymq.Gf2Genblock Ymq.Gf2 in
/-- `mul_aab_opt(B, y)` of the model (dense 64-row part `a.block * tmp[..64]` through `comb`, the other
rows through the transposed coordinate list) is the matrix product `Bᵗ·(B·y)`; `sparseMat k cols` is the
dense matrix of the sparse columns (repeated row indices cancel in pairs), `cellMat` a block as a
matrix with 64 columns. -/
theorem mul_aab_opt_spec (k : Nat) (cols : List (List Nat)) (y ay : List Nat)
    (hk : k ≤ 2 ^ 32) (hn : cols.length ≤ 2 ^ 32) (hwf : ∀ col ∈ cols, ∀ a ∈ col, a < k)
    (h : mulAabOpt (qsOptimize k cols) y = some ay) :
    ay.length = cols.length ∧
    cellMat ay.toArray cols.length =
      (sparseMat k cols)ᵀ * (sparseMat k cols * cellMat y.toArray cols.length) :=
  cellMat_mulAabOpt k cols y ay hk hn hwf h

open Ymq.Gf2Genblock Ymq.Gf2 in
/-- the Gram matrix tested by `genblock` is `yᵗ (BᵗB)³ y` (`gramA = BᵗB`), hence of rank at most
`rank (BᵗB)³` -/
theorem gram_rank_le_cube (k : Nat) (cols : List (List Nat)) (y g : List Nat)
    (hk : k ≤ 2 ^ 32) (hn : cols.length ≤ 2 ^ 32) (hwf : ∀ col ∈ cols, ∀ a ∈ col, a < k)
    (h : gramOf (qsOptimize k cols) y = some g) :
    toMat 64 g = (cellMat y.toArray cols.length)ᵀ *
      ((gramA k cols * gramA k cols * gramA k cols) * cellMat y.toArray cols.length) ∧
    (toMat 64 g).rank ≤ (gramA k cols * gramA k cols * gramA k cols).rank :=
  ⟨gram_eq_cube k cols y g hk hn hwf h, Gf2Small.gram_rank_le_cube k cols y g hk hn hwf h⟩

open Ymq.Gf2Genblock Ymq.Gf2 in
/-- L3, the oracle's EXACT hang rule inside the model: when `rank (BᵗB)³ < 64` the model of `genblock`
refuses every block of EVERY stream (one 64-bit word per column), without panic: no admissible block
exists and the real loop, which has no other exit, never ends. (The converse — an admissible block
exists when `rank (BᵗB)³ ≥ 64` — is the classification of symmetric bilinear forms over GF(2); it is
not proved, the oracle never saw an accepted block with `rank (BᵗB)³ < 64` nor a matrix of rank ≥ 64
refused more than a few draws.) -/
theorem genblock_never_ends_hang_rule (dbg : Bool) (k : Nat) (cols : List (List Nat)) (ys : List (List Nat))
    (hk64 : 64 ≤ k) (hk : k ≤ 2 ^ 32) (hn : cols.length ≤ 2 ^ 32) (hwf : ∀ col ∈ cols, ∀ a ∈ col, a < k)
    (hrank : (gramA k cols * gramA k cols * gramA k cols).rank < 64)
    (hys : ∀ y ∈ ys, y.length = cols.length ∧ ∀ w ∈ y, w < 2 ^ 64) :
    genblock dbg (qsOptimize k cols) ys = .exhausted ys.length := by
  apply genblock_never_ends
  exact genblock_refuses_all_cube dbg k cols ys hk64 hk hn hwf hrank hys

open Ymq.Gf2Genblock Ymq.Gf2 in
/-- concrete witness: the 64 x 2 matrix with two columns `e₀` (any matrix with fewer than 64 columns
has rank below 64): no admissible block exists, the loop can never end, for EVERY random stream -/
theorem genblock_never_ends_witness (dbg : Bool) (ys : List (List Nat))
    (hys : ∀ y ∈ ys, y.length = 2 ∧ ∀ w ∈ y, w < 2 ^ 64) :
    genblock dbg (qsOptimize 64 [[0], [0]]) ys = .exhausted ys.length := by
  apply genblock_never_ends_low_rank dbg 64 [[0], [0]] ys (by decide) (by decide) (by decide)
    (by decide) ?_ hys
  have := Matrix.rank_le_width (sparseMat 64 [[0], [0]])
  simp only [List.length_cons, List.length_nil] at this
  omega

/-! ### one iteration of the main loop of `kernel_lanczos` -/

open Ymq.Gf2Lanczos Ymq.Gf2 in
/-- One iteration of the main loop of `kernel_lanczos` (`lanczosStep`: `next = A·W_last ^ V_last`, the
projections on the earlier blocks and their purge, the Gram matrix, `rank`/`rank_reverse`, the exit on
`rk == 0`, mask, pseudo-inverse, update of `Y`) reaches NO panic site of the release profile on a
well-formed state, and the state it leaves is well formed again (so this holds for every iteration of a
run). Well formed (`WFL`): the four vectors `vs, ws, invgs, masks` have the same length, every block of
`ws` is purged or has one 64-bit word per column, the last blocks of `vs`, `ws` and `Y`, `A·Y₀` have one
64-bit word per column; the matrix has row indices `< k`, `64 ≤ k ≤ 2^32` rows, at most `2^32` columns.
The proof uses `pipeline`'s ingredients: the Gram matrix `(B·next)·(B·next)` is symmetric
(`symmetric_blockDot_self`), so Montgomery's lemma puts its masked form into the domain of `pseudoinverse`.
In the CHECKED profile the additional `debug_assert!`s of the loop are Montgomery's A-orthogonality
invariants themselves (`lanczos_step_checked_orthogonal`); that they never fail is not proved: it is
sampled by the K stream (checked model = checked build on every recorded iteration of real runs) and
checked by the oracle (pairwise `W_iᵗ A W_j = 0` on the recorded blocks). -/
theorem lanczos_step_no_panic_release (k : Nat) (cols : List (List Nat)) (ay : List Nat) (st : LState)
    (hM : MatOK k cols) (hay : BlockOK cols.length ay) (h : WFL cols.length st) :
    (∃ st', lanczosStep false (qsOptimize k cols) ay st = .finished st' ∧ st'.y = st.y) ∨
    (∃ st' mk, lanczosStep false (qsOptimize k cols) ay st = .continue st' mk ∧ WFL cols.length st') :=
  lanczosStep_release_ok hM hay h

open Ymq.Gf2Lanczos Ymq.Gf2 in
/-- the state built from the block returned by `genblock` (lines 141-158: `ay = A·Y`, inverse of its Gram
matrix, first reduction of `Y`) is well formed whenever the initial computation returns, in either
profile: with `lanczos_step_no_panic_release` every iteration of a release run is free of panics. (That
the initial `g.inverse().unwrap()` succeeds is `genblock`'s acceptance test, rank 64, with `inverse_some_iff`.) -/
theorem lanczos_init_well_formed (k : Nat) (cols : List (List Nat)) (dbg : Bool) (y0 ay : List Nat) (st : LState)
    (hM : MatOK k cols) (hy0 : BlockOK cols.length y0)
    (h : lanczosInit dbg (qsOptimize k cols) y0 = some (st, ay)) :
    WFL cols.length st ∧ BlockOK cols.length ay :=
  lanczosInit_wf hM dbg hy0 h

open Ymq.Gf2Lanczos Ymq.Gf2 in
/-- Montgomery's invariant as the code tests it, `AOrth b w x`: `&w * &mul_aab(b, &x) == SmallMat::default()`,
i.e. `wᵗ·A·x = 0` with `A = BᵗB`. When an iteration of the CHECKED profile returns (`.continue`), the new
block `W` (last of `ws`: the direction masked by the selection) is A-orthogonal to the updated `Y`, the
new pseudo-inverse (last of `invgs`) has the rank selection `(rk, mask)` of the Gram matrix with `rk ≠ 0`,
and the pushed mask is `!mask`. (Extraction of the modelled `debug_assert!`s; the projections' assertions
`(A·W_j)ᵗ·next = 0` are modelled in `projStep` likewise. That they hold on every reachable state — the
classical induction of block Lanczos — is not proved; the oracle checks `W_iᵗ A W_j = 0` pairwise on the
blocks recorded from real runs.) -/
theorem lanczos_step_checked_orthogonal (b : SparseOpt) (ay : List Nat) (st st' : LState) (mk : Nat)
    (h : lanczosStep true b ay st = .continue st' mk) :
    AOrth b (st'.ws.getLast?.getD []) st'.y ∧
    (∃ rk, rk ≠ 0 ∧ rank 64 true (st'.invgs.getLast?.getD []) = some (rk, mk)) ∧
    st'.masks.getLast? = some (M64 ^^^ mk) :=
  lanczosStep_checked h

open Ymq.Gf2Lanczos Ymq.Gf2 in
/-- The INDUCTIVE STEP of block Lanczos on the CHECKED model (Montgomery 1995), both the no-panic
statement and the classical invariant. `LInv k cols Y0 st hist Ss` (`Q x y = xᵗ·A·y`, `A = BᵗB`, `hist` =
every block `W_j` ever selected, purged or not, `Ss` their masks, `Y0` the block of `genblock`):
the state is well formed; every kept `ws[j]` is `hist[j]`, is masked by `S_j`, and `invgs[j]` is supported
on `S_j × S_j` with `invgs[j]·(W_jᵗ A W_j) = 1` on `S_j` (`KeptOK`: `W_jᵗ A W_j` invertible on its mask);
`W_jᵗ A W_l = 0` for all `j ≠ l` of the history (`orth`); `Y` is A-orthogonal to every selected block
(`yAll`), and every block A-orthogonal to the whole history is A-orthogonal to `Y + Y0` (`yOrth`).
From such a state, and given the three-term property of this iteration (`h3`: the blocks that are no
longer projected — purged earlier, or consumed now, `mask == 0` — are A-orthogonal to the direction
`A·W_last ^ V_last`), one iteration of the checked profile reaches NO panic site: every
`debug_assert!` of the loop holds — `ws[j]·av == 0` at a purge, `(A·W_j)ᵗ·next == 0` after each
projection, `ginv.rank() == (rk, mask)`, `W·A·Y == 0` — and the invariant holds again for the new state
with the new block appended to the history.
The three-term property `h3` is a consequence of the extended invariant
(`lanczos_three_term_of_extended_invariant`); the unconditional loop-level statement is
`lanczos_loop_no_panic`. -/
theorem lanczos_step_no_panic_checked (k : Nat) (cols : List (List Nat)) (Y0 ay : List Nat) (st : LState)
    (hist : List (List Nat)) (Ss : List Nat) (hM : MatOK k cols)
    (hay : Ymq.Gf2Genblock.mulAabOpt (qsOptimize k cols) Y0 = some ay) (hayOK : BlockOK cols.length ay)
    (hInv : LInv k cols Y0 st hist Ss)
    (h3 : ∀ next0, Direction k cols st next0 → ∀ j, j < st.ws.length →
      ¬ Projected st.ws st.masks st.ws.length j → Q k cols (hist.getD j []) next0 = 0) :
    (∃ st', lanczosStep true (qsOptimize k cols) ay st = .finished st' ∧ st'.y = st.y ∧
      ∀ w ∈ st'.ws, w.isEmpty = false → ∃ j : Nat, st.ws[j]? = some w) ∨
    (∃ st' mk w, lanczosStep true (qsOptimize k cols) ay st = .continue st' mk ∧
      LInv k cols Y0 st' (hist ++ [w]) (Ss ++ [mk])) := by
  rcases lanczosStep_checked_ok hM hay hayOK hInv h3 with h | ⟨st', mk, w, h1, h2, _⟩
  · exact Or.inl h
  · exact Or.inr ⟨st', mk, w, h1, h2⟩

open Ymq.Gf2Lanczos Ymq.Gf2 in
/-- BASE CASE of the invariant: the state built by `lanczosInit` from the block `Y0` of `genblock`
(either profile) satisfies `LInv` with history `[A·Y0]` and mask `!0`, and `ay = A·Y0` -/
theorem lanczos_init_invariant (k : Nat) (cols : List (List Nat)) (dbg : Bool) (Y0 ay : List Nat) (st : LState)
    (hM : MatOK k cols) (hY0 : BlockOK cols.length Y0)
    (h : lanczosInit dbg (qsOptimize k cols) Y0 = some (st, ay)) :
    Ymq.Gf2Genblock.mulAabOpt (qsOptimize k cols) Y0 = some ay ∧ LInv k cols Y0 st [ay] [M64] :=
  lanczosInit_inv hM dbg hY0 h

open Ymq.Gf2Lanczos Ymq.Gf2 in
/-- the classical invariant read off `LInv`: pairwise A-orthogonality of the selected blocks, the Gram
matrix of a kept block inverted on its mask by `invgs[j]` (two-sided: `right_inverse_on_support`), `Y`
A-orthogonal to every selected block -/
theorem lanczos_invariant (k : Nat) (cols : List (List Nat)) (Y0 : List Nat) (st : LState)
    (hist : List (List Nat)) (Ss : List Nat) (hInv : LInv k cols Y0 st hist Ss) :
    (∀ j l, j < st.ws.length → l < st.ws.length → j ≠ l → Q k cols (hist.getD j []) (hist.getD l []) = 0) ∧
    (∀ (j : Nat) (w : List Nat), st.ws[j]? = some w → w.isEmpty = false → w = hist.getD j [] ∧
      ∃ ig, st.invgs[j]? = some ig ∧ toMat 64 ig * Q k cols w w = projS (Ss.getD j 0) ∧
        Q k cols w w * toMat 64 ig = projS (Ss.getD j 0)) ∧
    (∀ j, j < st.ws.length → Q k cols (hist.getD j []) st.y = 0) := by
  refine ⟨hInv.orth, ?_, hInv.yAll⟩
  intro j w hw hne
  obtain ⟨e, ig, hig, hK⟩ := hInv.kept j w hw hne
  exact ⟨e, ig, hig, hK.inv, hK.right_inv⟩

open Ymq.Gf2Lanczos Ymq.Gf2 in
/-- LOOP LEVEL, release profile: from the block `Y0` of `genblock` (one 64-bit word per column) on a
well-formed matrix, when the initial computation returns, the main loop with fuel reaches no panic site:
if `lanczosLoop false` answers `none` it ran out of fuel after `fuel` iterations that all continued
(`IterN`), so every iteration of a release run is panic free. -/
theorem lanczos_loop_no_panic_release (k : Nat) (cols : List (List Nat)) (Y0 ay : List Nat) (st : LState)
    (fuel : Nat) (acc : List (Nat × List Nat × List Nat)) (hM : MatOK k cols) (hY0 : BlockOK cols.length Y0)
    (h : lanczosInit false (qsOptimize k cols) Y0 = some (st, ay))
    (hnone : lanczosLoop false (qsOptimize k cols) ay fuel st acc = none) :
    ∃ st', IterN false (qsOptimize k cols) ay fuel st st' := by
  obtain ⟨hwf, hay⟩ := lanczosInit_wf hM false hY0 h
  exact lanczosLoop_release hM hay fuel st acc hwf hnone

open Ymq.Gf2Lanczos Ymq.Gf2 in
/-- LOOP LEVEL, checked profile, up to the first purge: from the block `Y0` of `genblock`, the checked
loop — every `debug_assert!` of every iteration on A-orthogonality and on the rank, and the assertions
after the loop — reaches no panic site as long as every block of the history is still projected
(`AllProjected`: no block purged or consumed): if `lanczosLoop true` answers `none`, it either ran out of
fuel after `fuel` continuing iterations, or it reached, WITHOUT panic and with the invariant `LInv` still
holding, a state where some block is no longer projected. Beyond that point the three-term property of
the purged blocks is needed (`lanczos_step_no_panic_checked`, hypothesis `h3`). -/
theorem lanczos_loop_no_panic_unpurged (k : Nat) (cols : List (List Nat)) (Y0 ay : List Nat) (st : LState)
    (fuel : Nat) (acc : List (Nat × List Nat × List Nat)) (hM : MatOK k cols) (hY0 : BlockOK cols.length Y0)
    (h : lanczosInit true (qsOptimize k cols) Y0 = some (st, ay))
    (hnone : lanczosLoop true (qsOptimize k cols) ay fuel st acc = none) :
    (∃ st', IterN true (qsOptimize k cols) ay fuel st st') ∨
    (∃ n st' hist' Ss', n ≤ fuel ∧ IterN true (qsOptimize k cols) ay n st st' ∧ LInv k cols Y0 st' hist' Ss' ∧
      ¬ AllProjected st') := by
  obtain ⟨hay, hInv⟩ := lanczosInit_inv hM true hY0 h
  exact lanczosLoop_checked_unpurged hM hay (lanczosInit_wf hM true hY0 h).2 fuel st _ _ acc hInv hnone

open Ymq.Gf2Lanczos Ymq.Gf2 in
/-- Montgomery's THREE-TERM PROPERTY from the extended invariant. `VInv` adds the directions `V_m` to the
ghost history: the recurrence `V_{j+1} = A·W_j + V_j + Σ_{l ≤ j} W_l c_l` read against blocks A-orthogonal to
`W_0…W_j` (`recur`), "the vectors of `V_m` selected in one of the blocks `m…i-1` vanish against every block
A-orthogonal to `W_0…W_{i-1}`" (`dd`, with `pc Ss m t = !S_m & … & !S_{t-1}`), `W_lᵗ A V_i = 0` for `l < i`
(`vOrth`), and "a block no longer projected has `!S_{j+1} & … & !S_{i-1} = 0`" (`notProj`: the purge
condition `mask == 0`). Under `LInv` and `VInv` the hypothesis `h3` of `lanczos_step_no_panic_checked`
holds: every block no longer projected is A-orthogonal to the direction `A·W_i ^ V_i`; hence the checked
step reaches no panic site (`lanczosStep_checked_of_VInv`).
A step preserves `VInv` (`VInv_step`, base case `lanczosInit_vinv`): see `lanczos_loop_no_panic`. -/
theorem lanczos_three_term_of_extended_invariant (k : Nat) (cols : List (List Nat)) (Y0 : List Nat) (st : LState)
    (hist vhist : List (List Nat)) (Ss : List Nat) (hM : MatOK k cols) (hInv : LInv k cols Y0 st hist Ss)
    (hV : VInv k cols st hist vhist Ss) :
    ∀ next0, Direction k cols st next0 → ∀ j, j < st.ws.length →
      ¬ Projected st.ws st.masks st.ws.length j → Q k cols (hist.getD j []) next0 = 0 :=
  three_term_of_VInv hM hInv hV

open Ymq.Gf2Lanczos Ymq.Gf2 in
/-- LOOP LEVEL, CHECKED profile, unconditional: from the block `Y0` of `genblock` (one 64-bit word per
column) on a well-formed matrix with at least one column, when the initial computation returns, the
main loop with fuel reaches NO panic site: if `lanczosLoop true` answers `none` it ran out of fuel after
`fuel` iterations that all continued. In particular every `debug_assert!` of every iteration — the
purge assertion `ws[j]·av == 0`, `(A·W_j)ᵗ·next == 0` after each projection, `ginv.rank() == (rk, mask)`,
`W·A·Y == 0` — and the assertions after the loop hold. (Induction over the loop with the invariants
`LInv` and `VInv`: base `lanczos_init_invariant` / `lanczosInit_vinv`, step
`lanczos_step_no_panic_checked` with Montgomery's three-term property
`lanczos_three_term_of_extended_invariant`, preservation `VInv_step`.) -/
theorem lanczos_loop_no_panic (k : Nat) (cols : List (List Nat)) (Y0 ay : List Nat) (st : LState)
    (fuel : Nat) (acc : List (Nat × List Nat × List Nat)) (hM : MatOK k cols) (hn0 : 0 < cols.length)
    (hY0 : BlockOK cols.length Y0) (h : lanczosInit true (qsOptimize k cols) Y0 = some (st, ay))
    (hnone : lanczosLoop true (qsOptimize k cols) ay fuel st acc = none) :
    ∃ st', IterN true (qsOptimize k cols) ay fuel st st' := by
  obtain ⟨hay, hInv⟩ := lanczosInit_inv hM true hY0 h
  exact lanczosLoop_checked hM hn0 hay (lanczosInit_wf hM true hY0 h).2 fuel st _ _ _ acc hInv
    (lanczosInit_vinv hM hn0 true hY0 h) hnone

open Ymq.Gf2Lanczos Ymq.Gf2 in
/-- every state reached by a checked run satisfies the classical invariant (`lanczos_invariant`:
pairwise A-orthogonality of all selected blocks, two-sided inverses of the Gram blocks on their masks, `Y`
A-orthogonal to every selected block) and its next iteration does not panic: all assertions hold -/
theorem lanczos_checked_assertions_hold (k : Nat) (cols : List (List Nat)) (Y0 ay : List Nat) (st st' : LState)
    (n : Nat) (hM : MatOK k cols) (hn0 : 0 < cols.length) (hY0 : BlockOK cols.length Y0)
    (h : lanczosInit true (qsOptimize k cols) Y0 = some (st, ay))
    (hit : IterN true (qsOptimize k cols) ay n st st') :
    (∃ hist Ss, LInv k cols Y0 st' hist Ss) ∧ lanczosStep true (qsOptimize k cols) ay st' ≠ .panic := by
  obtain ⟨hay, hInv⟩ := lanczosInit_inv hM true hY0 h
  have hayOK := (lanczosInit_wf hM true hY0 h).2
  obtain ⟨hist', vhist', Ss', hI, hV⟩ := IterN_inv hM hn0 hay hayOK hit _ _ _ hInv
    (lanczosInit_vinv hM hn0 true hY0 h)
  refine ⟨⟨hist', Ss', hI⟩, ?_⟩
  rcases lanczosStep_checked_of_VInv hM hay hayOK hI hV with ⟨s1, hs, _, _⟩ | ⟨s1, mk, w, hs, _, _⟩
  · rw [hs]; exact fun hh => by cases hh
  · rw [hs]; exact fun hh => by cases hh

/-! ### `kernel_lanczos` as one statement: initial block + main loop + final stage -/

open Ymq.Gf2Lanczos Ymq.Gf2 in
/-- "kernel_lanczos returns only genuine, non-zero dependencies" for the composed model
`kernelLanczos` (initial block, main loop with fuel, final stage; the block of `genblock` is the input):
every returned vector has one entry per column, is non-zero and is annihilated by `B`; both profiles.
(C14's `lanczos_final`, which holds for every `Y`, applied to the `Y` the loop really produces.) -/
theorem kernel_lanczos_sound (dbg : Bool) (k : Nat) (cols : List (List Nat)) (y0 : List Nat) (fuel : Nat)
    (basis : List BVec) (hk : k ≤ 2 ^ 32) (hn : cols.length ≤ 2 ^ 32) (hwf : ∀ col ∈ cols, ∀ a ∈ col, a < k)
    (h : kernelLanczos dbg k cols y0 fuel = some basis) :
    ∀ v ∈ basis, v.length = cols.length ∧ isZero v = false ∧
      mulVec k (denseOfSparse k cols) v = List.replicate k false := by
  unfold kernelLanczos at h
  split at h
  · cases h
  · split at h
    · cases h
    · exact Ymq.C14.lanczos_final k cols _ basis hk hn hwf h

open Ymq.Gf2Lanczos Ymq.Gf2 in
/-- release profile, totality of the composed model: on a well-formed matrix with at least 64 rows, from
a block `Y0` (one 64-bit word per column) on which the initial computation returns (i.e. accepted by
`genblock`: its Gram matrix is invertible), `kernelLanczos false` reaches no panic site in any of the
three stages: an answer `none` means that the fuel ran out after `fuel` continuing iterations. -/
theorem kernel_lanczos_release_no_panic (k : Nat) (cols : List (List Nat)) (y0 : List Nat) (fuel : Nat)
    (hM : MatOK k cols) (hY0 : BlockOK cols.length y0)
    (hinit : ∃ st ay, lanczosInit false (qsOptimize k cols) y0 = some (st, ay))
    (hnone : kernelLanczos false k cols y0 fuel = none) :
    ∃ st ay st', lanczosInit false (qsOptimize k cols) y0 = some (st, ay) ∧
      IterN false (qsOptimize k cols) ay fuel st st' := by
  obtain ⟨st, ay, hi⟩ := hinit
  obtain ⟨hwf, hay⟩ := lanczosInit_wf hM false hY0 hi
  unfold kernelLanczos at hnone
  rw [hi] at hnone
  simp only [] at hnone
  cases hl : lanczosLoop false (qsOptimize k cols) ay fuel st [] with
  | none =>
    obtain ⟨st', hit⟩ := lanczosLoop_release hM hay fuel st [] hwf hl
    exact ⟨st, ay, st', hi, hit⟩
  | some r =>
    obtain ⟨st', its⟩ := r
    rw [hl] at hnone
    simp only [] at hnone
    have hy := lanczosLoop_release_y hM hay fuel st st' [] its hwf hl
    obtain ⟨basis, hb⟩ := Ymq.C14.lanczos_final_total k cols st'.y hM.hk64 hM.hk hM.hn hy.1 hM.hwf
    rw [hb] at hnone; cases hnone

/-! ### non-vacuity and counter-witnesses (small sizes: the theorems hold for every `n`; the same
matrices padded with null rows to 64x64 are corpus requests of the K/O streams) -/

example : WF 3 [4, 4, 3] := ⟨rfl, by decide⟩
/-- rank 0, rank 1, identity -/
example : rank 3 true [0, 0, 0] = some (0, 0) ∧ rank 3 true [0, 2, 0] = some (1, 2) ∧
    rank 3 true (identity 3) = some (3, 7) := by decide
/-- a symmetric matrix of rank `n - 1` and its pseudo-inverse through the call-site sequence -/
example : Ymq.Gf2Genblock.pipeline 4 true false [1, 2, 4, 0] = some (3, 7, [1, 2, 4, 0]) ∧
    Ymq.Gf2Genblock.pipeline 4 true true [6, 5, 3, 0] = some (2, 6, [0, 4, 2, 0]) := by decide
example : rank 4 true (maskRows 4 [6, 5, 3, 0] 6) = some (2, 6) := by decide
/-- hypotheses of `pipeline_spec`, `submatrix_spec` (symmetric, well formed) and of `pseudoinverse_spec`
(masked by its own selection) are satisfiable -/
example : WF 4 [6, 5, 3, 0] ∧ symmetric 4 [6, 5, 3, 0] = true ∧ (4 : Nat) ≤ 256 := ⟨⟨rfl, by decide⟩, by decide, by decide⟩
example : Supported 4 (maskRows 4 [6, 5, 3, 0] 6) 6 := supported_maskRows 4 [6, 5, 3, 0] 6
example : inverse 3 true [3, 2, 7] = some (some [3, 2, 5]) ∧ inverse 3 true [3, 3, 7] = some none := by decide

/-- the mask of `rank` is not always the first independent rows: for the symmetric matrix with rows
`001, 001, 110` (bit 0 first: rows 4, 4, 3) rows 0 and 2 come first, `rank` selects rows 1 and 2 -/
theorem rank_not_greedy : symmetric 3 [4, 4, 3] = true ∧ rank 3 true [4, 4, 3] = some (2, 6) := by decide

/-- `pseudoinverse` OUTSIDE its documented domain, symmetric but not masked input: the `unwrap` of
`position` panics in BOTH profiles (rows 4, 4, 3), and on rows 3, 3 the checked profile fails
`debug_assert!(r == 1 << i)` while the release profile returns a matrix that is not supported on the
mask (row 1 is non-null although the mask is {0}). Not reachable from `kernel_lanczos`, which masks first. -/
theorem pseudoinverse_unmasked_counterwitness :
    pseudoinverse 3 true [4, 4, 3] = none ∧ pseudoinverse 3 false [4, 4, 3] = none ∧
    symmetric 2 [3, 3] = true ∧ rank 2 true [3, 3] = some (1, 1) ∧
    pseudoinverse 2 true [3, 3] = none ∧ pseudoinverse 2 false [3, 3] = some [1, 1] := by decide

/-- the call-site sequence on a NON-symmetric matrix (single entry (1,0)): the selected block is
singular; the release profile returns rank 1 with a null "inverse", the checked profile panics on
`debug_assert!(ginv.rank() == (rk, mask))`. Symmetry of the Gram matrix `(B·v)ᵗ(B·v)` is what
`kernel_lanczos` relies on. -/
theorem pipeline_nonsymmetric_counterwitness :
    Ymq.Gf2Genblock.pipeline 2 false false [0, 1] = some (1, 2, [0, 0]) ∧
    Ymq.Gf2Genblock.pipeline 2 true false [0, 1] = none := by decide

end Ymq.C14Small
