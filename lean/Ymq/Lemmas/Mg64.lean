/- Helper lemmas for the 64-bit Montgomery model. -/
import Ymq.Model.Mg64
import Mathlib.Tactic.Ring
import Mathlib.Tactic.Linarith
import Mathlib.Data.Nat.ModEq

namespace Ymq.Mg64

theorem redc_low_word_cancels (n ninv xlo : Nat) (hW0 : 0 < W) (hninv : (n * ninv + 1) % W = 0) (hlo0 : xlo ≠ 0) (hlo : xlo < W) :
    xlo + (xlo * ninv % W * n) % W = W := by
  have h1 : (xlo + xlo * ninv % W * n) % W = 0 := by
    have : (xlo + xlo * ninv % W * n) % W = (xlo * (n * ninv + 1)) % W := by
      have e : xlo * (n * ninv + 1) = xlo + xlo * ninv * n := by ring
      rw [e, Nat.add_mod, Nat.mul_mod (xlo * ninv % W) n W, Nat.mod_mod, ← Nat.mul_mod, ← Nat.add_mod]
    rw [this, Nat.mul_mod, hninv, Nat.mul_zero, Nat.zero_mod]
  have h2 : (xlo + (xlo * ninv % W * n) % W) % W = 0 := by
    rw [Nat.add_mod, Nat.mod_mod, ← Nat.add_mod]; exact h1
  have h3 : (xlo * ninv % W * n) % W < W := Nat.mod_lt _ hW0
  have h4 : 0 < xlo := Nat.pos_of_ne_zero hlo0
  obtain ⟨k, hk⟩ := Nat.dvd_of_mod_eq_zero h2
  have : k = 1 := by
    rcases k with _ | _ | k
    · omega
    · rfl
    · exfalso
      have : W * (k + 1 + 1) ≥ 2 * W := by nlinarith
      omega
  subst this; omega

end Ymq.Mg64
