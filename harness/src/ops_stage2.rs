//! Group-order methods (C16): P-1, P+1, single-curve ECM (both implementations), their
//! exponentiation helpers, gcd_factors, rho64, PM1Base::factor and the stage-2 tables.
//!
//! Requests carrying constructed inputs end with annotations (`p`, `l`) that only the model
//! and the oracle read; the harness runs the real routine on `n` and the bounds.
//! A split is printed as `some f1,f2,.. rest` (factor list sorted) or `none`.
use crate::util::*;
use bnum::types::U1024;
use std::str::FromStr;
use yamaquasi::arith_montgomery::{gcd_factors, MInt, ZmodN};
use yamaquasi::ecm;
use yamaquasi::ecm128;
use yamaquasi::pollard_pm1 as pm1;
use yamaquasi::pollard_rho;
use yamaquasi::pp1;
use yamaquasi::{Uint, Verbosity};

fn show_split(r: Option<(Vec<Uint>, Uint)>) -> String {
    match r {
        None => "none".to_string(),
        Some((mut fs, rest)) => {
            fs.sort();
            format!("some {} {}", show_list(&fs), rest)
        }
    }
}

fn show_pair<T: ToString + Ord>(r: Option<(T, T)>) -> String {
    match r {
        None => "none".to_string(),
        Some((a, b)) => format!("some {} {}", a.to_string(), b.to_string()),
    }
}

fn label(x: f64) -> String {
    // table labels are integral and below 2^53
    format!("{}", x as u64)
}

fn row(t: (f64, u64, u64)) -> String {
    format!("{} {} {}", label(t.0), t.1, t.2)
}

fn table(consumer: &str) -> Option<&'static [(f64, u64, u64)]> {
    match consumer {
        "ecm" | "ecm128" | "pp1" => Some(yamaquasi::params::verif_hooks::vh_stage2_table()),
        "pm1" => Some(pm1::verif_hooks::vh_stage2_table()),
        _ => None,
    }
}

fn res(zn: &ZmodN, s: &str) -> Option<MInt> {
    Some(zn.from_int(uint_of(s)? % zn.n))
}

pub fn handle(op: &str, a: &[&str]) -> Option<String> {
    match (op, a) {
        // row idx of the table the consumer reads
        ("s2_row", [consumer, idx]) => {
            let t = table(consumer)?;
            let i: usize = idx.parse().ok()?;
            Some(if i < t.len() { row(t[i]) } else { "none".to_string() })
        }
        ("s2_rows", [consumer]) => Some(table(consumer)?.len().to_string()),
        // the row selected for a requested B2 (integral)
        ("s2_sel", [consumer, b2]) => {
            let b2 = u64_of(b2)? as f64;
            Some(row(match *consumer {
                "pm1" => pm1::verif_hooks::vh_stage2_params(b2),
                "ecm" | "ecm128" | "pp1" => yamaquasi::params::stage2_params(b2),
                _ => return None,
            }))
        }
        // the label pm1_impl reports for a requested B2 (prime-walk arm: the row's d1, d2 are unused)
        ("s2_walk", [b2]) => Some(row(pm1::verif_hooks::vh_stage2_params(u64_of(b2)? as f64))),
        ("s2_threshold", []) => Some(label(pm1::verif_hooks_stage2::vh_multieval_threshold())),
        // full P-1 run; trailing annotations are ignored here
        ("s2_pm1", [n, b1, b2, ..]) => {
            let n = uint_of(n)?;
            Some(show_split(pm1::pm1_impl(&n, u64_of(b1)?, u64_of(b2)? as f64, Verbosity::Silent)))
        }
        // same run; annotations `p1 p2 l`: p1 is caught in stage 1 (the ring shrinks), p2 in stage 2
        ("s2_pm1x", [n, b1, b2, ..]) => {
            let n = uint_of(n)?;
            Some(show_split(pm1::pm1_impl(&n, u64_of(b1)?, u64_of(b2)? as f64, Verbosity::Silent)))
        }
        // same run; every prime factor of n is caught at the same stage-2 step (annotation `l`)
        ("s2_pm1same", [n, b1, b2, ..]) => {
            let n = uint_of(n)?;
            Some(show_split(pm1::pm1_impl(&n, u64_of(b1)?, u64_of(b2)? as f64, Verbosity::Silent)))
        }
        // the strategy functions with their hard-wired (B1, B2) per size of n
        ("s2_pm1_only", [n, ..]) => Some(show_split(pm1::pm1_only(&uint_of(n)?, Verbosity::Silent))),
        ("s2_pm1_quick", [n, ..]) => Some(show_split(pm1::pm1_quick(&uint_of(n)?, Verbosity::Silent))),
        // full P+1 run
        ("s2_pp1", [n, seed, b1, b2, ..]) => {
            let n = uint_of(n)?;
            Some(show_split(pp1::pp1(n, u64_of(seed)?, u64_of(b1)?, u64_of(b2)? as f64, Verbosity::Silent)))
        }
        // one curve of ecm::ecm_curve: Edwards curve (a = 1) through the point (x, y)
        ("s2_ecm", [n, x, y, b1, b2, ..]) => {
            let n = uint_of(n)?;
            let zn = ZmodN::new(n);
            let c = match ecm::Curve::from_point(zn.clone(), u64_of(x)?, u64_of(y)?) {
                Ok(c) => c,
                Err(_) => return Some("curve-error".to_string()),
            };
            let sb = ecm::SmoothBase::new(b1.parse().ok()?, true);
            Some(show_pair(ecm::verif_hooks_stage2::vh_ecm_curve(&sb, &zn, &c, u64_of(b2)? as f64)))
        }
        // one curve of ecm128::ecm_curve: twisted Edwards curve (a = -1) through the point (x, y)
        ("s2_ecm128", [n, x, y, b1, b2, ..]) => {
            let n: u128 = n.parse().ok()?;
            let c = ecm128::Curve::from_fractional_point(n, x.parse().ok()?, 1, y.parse().ok()?, 1);
            let sb = ecm::SmoothBase::new(b1.parse().ok()?, false);
            Some(show_pair(ecm128::verif_hooks_stage2::vh_ecm_curve(&c, &sb, u64_of(b2)? as f64)))
        }
        ("s2_expmodn", [n, g, e]) => {
            let zn = ZmodN::new(uint_of(n)?);
            let r = pm1::verif_hooks_stage2::vh_exp_modn(&zn, &res(&zn, g)?, u64_of(e)?);
            Some(zn.to_int(r).to_string())
        }
        ("s2_expmodn_large", [n, g, e]) => {
            let zn = ZmodN::new(uint_of(n)?);
            let e = U1024::from_str(e).ok()?;
            let r = pm1::verif_hooks_stage2::vh_exp_modn_large(&zn, &res(&zn, g)?, &e);
            Some(zn.to_int(r).to_string())
        }
        ("s2_cheb", [n, v, k]) => {
            let zn = ZmodN::new(uint_of(n)?);
            let r = pp1::verif_hooks_stage2::vh_chebyshev_modn(&zn, &res(&zn, v)?, u64_of(k)?);
            Some(zn.to_int(r).to_string())
        }
        // gcd_factors on raw words: value v stands for an element with gcd(n, element) = gcd(n, v)
        ("s2_gcdf", [n, vals]) => {
            let n = uint_of(n)?;
            let vals: Vec<Uint> = list_of(vals)?;
            let ms: Vec<MInt> = vals
                .iter()
                .map(|v| {
                    let mut m = [0u64; 8];
                    m.copy_from_slice(&v.digits()[..8]);
                    MInt(m)
                })
                .collect();
            let (fs, rest) = gcd_factors(&n, &ms);
            Some(format!("{} {}", show_list(&fs), rest))
        }
        // check_gcd_factors of pollard_pm1.rs on raw words: `done factors nred values`
        ("s2_cgf", [n, factors, nred, vals]) => {
            let n = uint_of(n)?;
            let mut factors: Vec<Uint> = list_of(factors)?;
            let mut nred = uint_of(nred)?;
            let vals: Vec<Uint> = list_of(vals)?;
            let mut ms: Vec<MInt> = vals
                .iter()
                .map(|v| {
                    let mut m = [0u64; 8];
                    m.copy_from_slice(&v.digits()[..8]);
                    MInt(m)
                })
                .collect();
            let done = pm1::verif_hooks_stage2b::vh_check_gcd_factors(&n, &mut factors, &mut nred, &mut ms);
            let back: Vec<Uint> = ms.iter().map(|m| Uint::from(*m)).collect();
            Some(format!("{} {} {} {}", done, show_list(&factors), nred, show_list(&back)))
        }
        // ecm::check_gcd_factor on raw words
        ("s2_cgf1", [n, vals]) => {
            let n = uint_of(n)?;
            let vals: Vec<Uint> = list_of(vals)?;
            let ms: Vec<MInt> = vals
                .iter()
                .map(|v| {
                    let mut m = [0u64; 8];
                    m.copy_from_slice(&v.digits()[..8]);
                    MInt(m)
                })
                .collect();
            Some(show_opt(ecm::verif_hooks_stage2::vh_check_gcd_factor(&n, &ms)))
        }
        // PM1Base tables: `first len maxgap all_odd increasing nfactors`
        ("s2_pm1base_data", []) => {
            let pb = pm1::PM1Base::new();
            let (f, l) = pm1::verif_hooks::vh_pm1base_parts(&pb);
            let maxgap = l.windows(2).map(|w| w[1] - w[0]).max().unwrap_or(0);
            let odd = l.iter().all(|p| p % 2 == 1);
            let inc = l.windows(2).all(|w| w[0] < w[1]);
            Some(format!("{} {} {} {} {} {}", l[0], l.len(), maxgap, odd, inc, f.len()))
        }
        ("s2_rho64", [n, c, iters]) => Some(show_pair(pollard_rho::rho64(u64_of(n)?, u64_of(c)?, u64_of(iters)?))),
        ("s2_rho_impl", [n, seed, iters]) => {
            let n = uint_of(n)?;
            Some(show_split(pollard_rho::rho_impl(&n, u64_of(seed)?, u64_of(iters)?, Verbosity::Silent)))
        }
        ("s2_pm1base", [n, budget, ..]) => {
            thread_local! {
                static PB: pm1::PM1Base = pm1::PM1Base::new();
            }
            let n = u64_of(n)?;
            let budget: usize = budget.parse().ok()?;
            Some(show_pair(PB.with(|pb| pb.factor(n, budget))))
        }
        _ => None,
    }
}
