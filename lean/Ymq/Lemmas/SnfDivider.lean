/-
The precomputed reciprocal of `SmithNormalForm` (`divider`, model in Ymq/Model/Snf.lean) and the
accuracy of the quotient estimate of `modh256u` for operands below 2^128.
-/
import Ymq.Model.Snf
import Mathlib.Tactic.Ring
import Mathlib.Tactic.Linarith

namespace Ymq.Snf

/-- what `divider(h)` returns: `qe = sd - 255` and `qm·2^sd` is `2^255/h` rounded to 127 bits -/
theorem divider_spec {h qm : Nat} {qe : Int} (hd : divider h = some (qm, qe)) :
    0 < h ∧ h < 2 ^ 125 ∧ ∃ sd : Nat, 4 ≤ sd ∧ sd ≤ 129 ∧ qe = (sd : Int) - 255 ∧
      qm ≤ 2 ^ 127 ∧
      qm * 2 ^ sd ≤ 2 ^ 255 ∧
      qm * 2 ^ sd * h ≤ 2 ^ 255 + 2 ^ (sd - 1) * h ∧
      2 ^ 255 < qm * 2 ^ sd * h + h + 2 ^ (sd - 1) * h ∧
      h * 2 ^ (sd - 1) ≤ 2 ^ 128 := by
  unfold divider at hd
  split at hd
  · exact absurd hd (by simp)
  · rename_i hlt
    split at hd
    · exact absurd hd (by simp)
    · rename_i h0
      simp only [] at hd
      have hpos : 0 < h := Nat.pos_of_ne_zero h0
      have hlt' : h < 2 ^ 125 := by omega
      set q0 := 2 ^ 255 / h with hq0
      -- 2^255 = h * q0 + r
      have hdm := Nat.div_add_mod (2 ^ 255) h
      have hr : 2 ^ 255 % h < h := Nat.mod_lt _ hpos
      have hq0ge : 2 ^ 130 ≤ q0 := by
        rw [hq0, Nat.le_div_iff_mul_le hpos]
        calc 2 ^ 130 * h ≤ 2 ^ 130 * 2 ^ 125 := Nat.mul_le_mul_left _ (Nat.le_of_lt hlt')
          _ = 2 ^ 255 := by norm_num
      have hq0ne : q0 ≠ 0 := by
        have : 0 < 2 ^ 130 := Nat.two_pow_pos _
        omega
      have hq0le : q0 ≤ 2 ^ 255 := Nat.div_le_self _ _
      have hbits : bits q0 = Nat.log2 q0 + 1 := by unfold bits; rw [if_neg hq0ne]
      have hlog_ge : 130 ≤ Nat.log2 q0 := (Nat.le_log2 hq0ne).mpr hq0ge
      have hlog_le : Nat.log2 q0 ≤ 255 := by
        have : Nat.log2 q0 < 256 := (Nat.log2_lt hq0ne).mpr (by
          calc q0 ≤ 2 ^ 255 := hq0le
            _ < 2 ^ 256 := Nat.pow_lt_pow_right (by decide) (by decide))
        omega
      rw [hbits] at hd
      rw [if_neg (by omega)] at hd
      have hres := Option.some.inj hd
      simp only [Prod.mk.injEq] at hres
      obtain ⟨hqm, hqe⟩ := hres
      set sd := Nat.log2 q0 + 1 - 127 with hsd
      have hsd4 : 4 ≤ sd := by omega
      have hsd129 : sd ≤ 129 := by omega
      refine ⟨hpos, hlt', sd, hsd4, hsd129, hqe.symm, ?_⟩
      -- q0 = a * 2^sd + b
      set a := q0 / 2 ^ sd with ha
      set b := q0 % 2 ^ sd with hb
      have hab : 2 ^ sd * a + b = q0 := Nat.div_add_mod q0 (2 ^ sd)
      have hpsd : 0 < 2 ^ sd := Nat.two_pow_pos _
      have hblt : b < 2 ^ sd := Nat.mod_lt _ hpsd
      have hsplit : 2 ^ sd = 2 ^ (sd - 1) * 2 := by
        have e : sd = (sd - 1) + 1 := by omega
        conv_lhs => rw [e, Nat.pow_succ]
      -- the rounding bit
      set rnd := (q0 / 2 ^ (sd - 1)) % 2 with hrnd
      have hrnd_le : rnd ≤ 1 := by have := Nat.mod_lt (q0 / 2 ^ (sd - 1)) (by decide : 0 < 2); omega
      have hphalf : 0 < 2 ^ (sd - 1) := Nat.two_pow_pos _
      have hrnd_eq : rnd = b / 2 ^ (sd - 1) := by
        rw [hrnd, ← hab, hsplit]
        have : (2 ^ (sd - 1) * 2 * a + b) / 2 ^ (sd - 1) = 2 * a + b / 2 ^ (sd - 1) := by
          rw [show 2 ^ (sd - 1) * 2 * a = 2 ^ (sd - 1) * (2 * a) by ring, Nat.mul_add_div hphalf]
        rw [this, Nat.mul_add_mod]
        have : b / 2 ^ (sd - 1) < 2 := by
          rw [Nat.div_lt_iff_lt_mul hphalf, Nat.mul_comm, ← hsplit]; exact hblt
        exact Nat.mod_eq_of_lt this
      have hqm' : qm = a + rnd := hqm.symm
      -- |q0 - qm * 2^sd| ≤ 2^(sd-1)
      have hup : qm * 2 ^ sd ≤ q0 + 2 ^ (sd - 1) := by
        rw [hqm', Nat.add_mul, ← hab]
        rcases Nat.le_one_iff_eq_zero_or_eq_one.mp hrnd_le with h0' | h1'
        · rw [h0']; simp; nlinarith
        · rw [h1']
          have hbge : 2 ^ (sd - 1) ≤ b := by
            have : b / 2 ^ (sd - 1) = 1 := by rw [← hrnd_eq]; exact h1'
            have := Nat.div_mul_le_self b (2 ^ (sd - 1))
            rw [‹b / 2 ^ (sd - 1) = 1›] at this
            omega
          rw [hsplit] at *
          nlinarith
      have hlo : q0 ≤ qm * 2 ^ sd + 2 ^ (sd - 1) := by
        rw [hqm', Nat.add_mul, ← hab]
        rcases Nat.le_one_iff_eq_zero_or_eq_one.mp hrnd_le with h0' | h1'
        · rw [h0']
          have hblt' : b < 2 ^ (sd - 1) := by
            have : b / 2 ^ (sd - 1) = 0 := by rw [← hrnd_eq]; exact h0'
            exact (Nat.div_eq_zero_iff.mp this).resolve_left (by omega)
          nlinarith
        · rw [h1']; nlinarith
      -- h * q0 ≤ 2^255 < h * (q0 + 1)
      have hq0h : h * q0 ≤ 2 ^ 255 := Nat.mul_div_le (2 ^ 255) h
      have hq0h' : 2 ^ 255 < h * (q0 + 1) := Nat.lt_mul_div_succ (2 ^ 255) hpos
      -- h * 2^(sd-1) ≤ 2^128
      have hD : h * 2 ^ (sd - 1) ≤ 2 ^ 128 := by
        have h1 : 2 ^ (Nat.log2 q0) ≤ q0 := Nat.log2_self_le hq0ne
        have h2 : Nat.log2 q0 = (sd - 1) + 127 := by omega
        rw [h2, Nat.pow_add] at h1
        have h3 : h * (2 ^ (sd - 1) * 2 ^ 127) ≤ 2 ^ 255 := le_trans (Nat.mul_le_mul_left _ h1) hq0h
        have h4 : (2 : Nat) ^ 255 = 2 ^ 128 * 2 ^ 127 := by norm_num
        rw [h4, ← Nat.mul_assoc] at h3
        exact Nat.le_of_mul_le_mul_right h3 (Nat.two_pow_pos _)
      have hE : qm ≤ 2 ^ 127 := by
        have h1 : q0 < 2 ^ (Nat.log2 q0 + 1) := Nat.lt_log2_self
        have h2 : Nat.log2 q0 + 1 = 127 + sd := by omega
        rw [h2, Nat.pow_add] at h1
        have : a < 2 ^ 127 := by
          rw [ha, Nat.div_lt_iff_lt_mul hpsd]; exact h1
        omega
      refine ⟨hE, ?_, ?_, ?_, hD⟩
      · -- qm * 2^sd ≤ 2^255
        rcases Nat.le_one_iff_eq_zero_or_eq_one.mp hrnd_le with h0' | h1'
        · rw [hqm', h0', Nat.add_zero]
          calc a * 2 ^ sd ≤ q0 := by rw [Nat.mul_comm]; omega
            _ ≤ 2 ^ 255 := hq0le
        · -- round = 1 forces h ≥ 2
          have hh2 : 2 ≤ h := by
            by_contra hlt2
            have h1 : h = 1 := by omega
            have hq1 : q0 = 2 ^ 255 := by rw [hq0, h1, Nat.div_one]
            have hb0 : b = 0 := by
              rw [hb, hq1]
              have e255 : 255 = sd + (255 - sd) := by omega
              have : (2 : Nat) ^ 255 = 2 ^ sd * 2 ^ (255 - sd) := by
                conv_lhs => rw [e255, Nat.pow_add]
              rw [this, Nat.mul_mod_right]
            have : rnd = 0 := by rw [hrnd_eq, hb0, Nat.zero_div]
            omega
          have hq254 : q0 ≤ 2 ^ 254 := by
            have : 2 * q0 ≤ h * q0 := Nat.mul_le_mul_right _ hh2
            have h255 : (2 : Nat) ^ 255 = 2 * 2 ^ 254 := by norm_num
            omega
          have hhalf : 2 ^ (sd - 1) ≤ 2 ^ 128 := Nat.pow_le_pow_right (by decide) (by omega)
          have h255 : (2 : Nat) ^ 255 = 2 * 2 ^ 254 := by norm_num
          have h254 : (2 : Nat) ^ 128 ≤ 2 ^ 254 := Nat.pow_le_pow_right (by decide) (by decide)
          omega
      · -- qm * 2^sd * h ≤ 2^255 + 2^(sd-1) * h
        calc qm * 2 ^ sd * h ≤ (q0 + 2 ^ (sd - 1)) * h := Nat.mul_le_mul_right _ hup
          _ = h * q0 + 2 ^ (sd - 1) * h := by ring
          _ ≤ 2 ^ 255 + 2 ^ (sd - 1) * h := by omega
      · -- 2^255 < qm * 2^sd * h + h + 2^(sd-1) * h
        calc 2 ^ 255 < h * (q0 + 1) := hq0h'
          _ ≤ h * (qm * 2 ^ sd + 2 ^ (sd - 1) + 1) := Nat.mul_le_mul_left _ (by omega)
          _ = qm * 2 ^ sd * h + h + 2 ^ (sd - 1) * h := by ring


end Ymq.Snf

