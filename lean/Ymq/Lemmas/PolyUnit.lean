/-
SIQS (C12): the unit polynomial `A = 1` (`x² − n` resp. `x² + x + (1 − n)/4`) built by `Poly::first`
when `A` has no factor (used by the class group code).
-/
import Ymq.Lemmas.PolySiqsExact
namespace Ymq.PolySiqs
open Ymq.SiqsPoly Ymq.PolyInv Ymq.PolyBits Ymq.PolyRoots

/-- what `Poly::first` returns for `A = 1` (the unit form) -/
theorem first_unit {s : Sieve} {pa : APrep} {pol : Poly} (h : first s pa = some pol)
    (he : pa.factors.isEmpty = true) :
    bitlen s.n.natAbs < 128 ∧ pol.idx = 0 ∧ pol.a = 1 ∧ pol.type2 = isType2 s.n ∧ pol.n = s.n ∧
    pol.rs = unitFix (isType2 s.n) pa.pps (pa.pps.map firstRoots) ∧
    (isType2 s.n = false → pol.b = 0 ∧ pol.c = -(wrap256 s.n)) ∧
    (isType2 s.n = true → pol.b = 1 ∧ pol.c = (1 - wrap256 s.n) / 4) := by
  unfold first at h
  dsimp only at h
  rw [he] at h
  simp only [if_true] at h
  split at h
  · cases h
  · rename_i hbits
    split at h
    · rename_i ht
      injection h with h; subst h
      have ht' : isType2 s.n = false := by simpa using ht
      refine ⟨not_not.mp hbits, rfl, rfl, rfl, rfl, rfl, fun _ => ⟨rfl, rfl⟩, ?_⟩
      intro h2; rw [ht'] at h2; cases h2
    · rename_i ht
      injection h with h; subst h
      have ht' : isType2 s.n = true := by simpa using ht
      refine ⟨not_not.mp hbits, rfl, rfl, rfl, rfl, rfl, ?_, fun _ => ⟨rfl, rfl⟩⟩
      intro h2; rw [ht'] at h2; cases h2

/-- the unit polynomial is exact: `x² − n` resp. `x² + x + (1 − n)/4` -/
theorem unit_exact {s : Sieve} {pa : APrep} {pol : Poly} (h : first s pa = some pol)
    (he : pa.factors.isEmpty = true) : Exact pol 1 := by
  obtain ⟨hbits, _, ha, ht, hn, _, h1, h2⟩ := first_unit h he
  have hlt := bitlen_lt hbits
  have hw : wrap256 s.n = s.n := by
    apply wrap256_eq
    unfold P255
    have : (2 : Nat) ^ (128 - 1) = 170141183460469231731687303715884105728 := by norm_num
    rw [this] at hlt
    omega
  refine ⟨by rw [ha]; simp, ?_⟩
  rw [ht, hn, polyM]
  by_cases htyp : isType2 s.n = true
  · obtain ⟨hb, hc⟩ := h2 htyp
    rw [if_pos htyp, hb, hc, hw]
    have h4 : s.n % 4 = 1 := by simpa [isType2] using htyp
    have : (4 : Int) ∣ 1 - s.n := by omega
    push_cast
    rw [Int.mul_ediv_cancel' this]
  · have htyp' : isType2 s.n = false := by simpa using htyp
    obtain ⟨hb, hc⟩ := h1 htyp'
    rw [if_neg htyp, hb, hc, hw]; push_cast; ring

/-- `p = 2`, type 2, unit polynomial: the pair `(r, r + 1)` covers both residues -/
theorem unit_two {s : Sieve} {pa : APrep} {pol : Poly} (h : first s pa = some pol)
    (he : pa.factors.isEmpty = true) (ht : isType2 s.n = true)
    (h0 : 0 < pa.pps.length) (hp : pa.pps[0].p = 2) (h0' : 0 < pol.rs.length) (x : Int) :
    x ≡ (pol.rs[0].1 : Int) [ZMOD 2] ∨ x ≡ (pol.rs[0].2 : Int) [ZMOD 2] := by
  obtain ⟨_, _, _, _, _, hrs, _, _⟩ := first_unit h he
  have : pol.rs[0].2 = pol.rs[0].1 + 1 := by
    obtain ⟨pp, rest, hpps⟩ : ∃ pp rest, pa.pps = pp :: rest := by
      cases hh : pa.pps with
      | nil => rw [hh] at h0; simp at h0
      | cons pp rest => exact ⟨pp, rest, rfl⟩
    have hpp : pp.p = 2 := by simpa [hpps] using hp
    have e : pol.rs = ((firstRoots pp).1, (firstRoots pp).1 + 1) :: List.map firstRoots rest := by
      rw [hrs, hpps]
      simp [unitFix, hpp, ht]
    have e0 : pol.rs[0]? = some ((firstRoots pp).1, (firstRoots pp).1 + 1) := by rw [e]; rfl
    rw [List.getElem?_eq_getElem h0'] at e0
    rw [Option.some.inj e0]
  rw [this]
  push_cast
  have : x % 2 = 0 ∨ x % 2 = 1 := by omega
  have h1 : (pol.rs[0].1 : Int) % 2 = 0 ∨ (pol.rs[0].1 : Int) % 2 = 1 := by omega
  unfold Int.ModEq
  rcases this with a | a <;> rcases h1 with b | b <;> omega

end Ymq.PolySiqs
