/-
Shared notions for the curve identities of C15 (formulas: Ymq/Gen/Curves.lean, translated from
src/ecm.rs and src/ecm128.rs).
-/
import Ymq.Gen.Curves
import Mathlib.Tactic.Ring
import Mathlib.Tactic.LinearCombination

namespace Ymq.Curve
open Ymq.Gen.Curves

variable {R : Type} [CommRing R]

/-- extended coordinates lie on the quadric `T Z = X Y` (Segre embedding) -/
def OnQuadric (p : Ext R) : Prop := p.t * p.z = p.x * p.y

/-- projective equality as the code's `projective_equal` tests it: all cross products agree.
On a composite modulus (no inverses) this is all that "the same point" can mean.
CAUTION: the relation is vacuous when one side is the zero triple `(0, 0, 0)` (which is not a
projective point): every statement `ProjEq a b` below is informative only where both triples are
non-zero modulo every prime factor of the modulus. The dedicated formulas `addext`/`addextproj`/
`subextproj`/`dbladd` do return the zero triple on valid inputs (`addext_self`: whenever the two
arguments are equal), so agreement with the unified `add` is exactly "equal, or degenerate". -/
def ProjEq (p q : Pt R) : Prop :=
  p.x * q.y = p.y * q.x ∧ p.y * q.z = p.z * q.y ∧ p.z * q.x = p.x * q.z

/-- `-(x, y, z, t) = (-x, y, z, -t)` -/
def negExt (p : Ext R) : Ext R := ⟨-p.x, p.y, p.z, -p.t⟩

end Ymq.Curve
