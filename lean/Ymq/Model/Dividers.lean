/-
Model of `Dividers` (src/arith.rs:146-355): division by a fixed 30-bit number through a
precomputed reciprocal.

Conventions (see Ymq/Model/Mg64.lean): machine words are `Nat`; every wrap of the Rust code is
an explicit `% 2^w`; every panic site of the *checked* profile (assert, debug_assert,
overflow/underflow, shift amount ≥ width, division by zero) returns `none`.
A multiword operand (`BUint<N>`) is its little-endian digit list (`Ymq.Limbs`).
No Mathlib import: this file is linked into the native driver.
-/
import Ymq.Model.Limbs

namespace Ymq.Dividers
open Ymq.Limbs (W val ofNat)

/-- the struct `Dividers` (field types: p,r64,m16 : u32; m64 : u64; s64,s16 : u16) -/
structure Div where
  p : Nat
  r64 : Nat
  m64 : Nat
  s64 : Nat
  s16 : Nat
  m16 : Nat
deriving Repr, DecidableEq

/-- `u128::BITS - u128::leading_zeros(x)`: the bit length of `x` (0 for 0). -/
def bitlen (x : Nat) : Nat := if x = 0 then 0 else Nat.log2 x + 1

/-- `Dividers::new(p)`, `p : u32`. -/
def new (p : Nat) : Option Div :=
  if p / 2 ^ 30 ≠ 0 then none                       -- assert!(p >> 30 == 0)
  else if p = 2 then
    some { p := 2, m64 := 2 ^ 63, r64 := 0, s64 := 0, m16 := 1, s16 := 1 }
  else if p = 0 then none                           -- (1 << 127) / 0
  else
    let m127 := 2 ^ 127 / p
    let sz := bitlen m127
    if sz < 64 then none                            -- sz - 64 underflows
    else
      let top := m127 / 2 ^ (sz - 64) % W           -- (m127 >> (sz - 64)) as u64
      if top + 1 ≥ W then none                      -- + 1 overflows
      else
        let m64 := top + 1
        let r64 := (W - 1) % p + 1                  -- (u64::MAX % p) + 1
        if sz > 127 then none                       -- 127 - sz underflows (p = 1)
        else
          let s64 := 127 - sz
          if s64 ≥ 64 then none                     -- debug_assert!(s64 < 64)
          else
            let m := (m64 - 1) / 2 ^ s64
            let mp := (W - m * p % W) % W           -- (!m.wrapping_mul(p)).wrapping_add(1)
            if mp ≠ r64 then none                   -- panic!("incorrect divider")
            else
              let top16 := m127 / 2 ^ (sz - 17) % 2 ^ 32   -- (m127 >> (sz - 17)) as u32
              if top16 + 1 ≥ 2 ^ 32 then none
              else
                some { p := p, m64 := m64, r64 := r64 % 2 ^ 32, s64 := s64 % 2 ^ 16,
                       m16 := top16 + 1, s16 := (127 + 17 - sz) % 2 ^ 16 }

/-- `modu16(n)`, `n : u16`. -/
def modu16 (d : Div) (n : Nat) : Option Nat :=
  if d.p = 2 then some (n % 2)
  else
    let nm := n * d.m16                             -- u64 product
    if nm ≥ W then none
    else if d.s16 ≥ 64 then none                    -- shift amount
    else
      let q := nm / 2 ^ d.s16 % 2 ^ 16              -- as u16
      let qp := q * (d.p % 2 ^ 16)                  -- q * self.p as u16
      if qp ≥ 2 ^ 16 then none
      else if n < qp then none
      else some (n - qp)

/-- `divmod64(n)`, `n : u64`. -/
def divmod64 (d : Div) (n : Nat) : Option (Nat × Nat) :=
  let p := d.p
  let nm := n * d.m64                               -- u128 product of two u64: no overflow
  let himul := nm / W % W
  if d.s64 ≥ 64 then none
  else
    let q := himul / 2 ^ d.s64
    let qp := q * p
    if qp ≥ W then none
    else if qp > n then
      if q = 0 then none
      else if p < qp - n then none
      else some (q - 1, p - (qp - n))
    else some (q, n - qp)

/-- `modu63(n)`, `n : u64` with the top bit clear. -/
def modu63 (d : Div) (n : Nat) : Option Nat :=
  if n / 2 ^ 63 ≠ 0 then none                       -- debug_assert!(n >> 63 == 0)
  else
    let p := d.p
    let himul := n * d.m64 / W % W
    if d.s64 ≥ 64 then none
    else
      let q := himul / 2 ^ d.s64
      let qp := q * p
      if qp ≥ W then none
      else if n < qp then none
      else some (n - qp)

/-- `modi64(n)`, `n : i64`. -/
def modi64 (d : Div) (n : Int) : Option Nat :=
  if n < 0 then
    match divmod64 d (-n).toNat with                -- n.unsigned_abs()
    | none => none
    | some (_, m) =>
      if m = 0 then some 0
      else if d.p < m then none
      else some (d.p - m)
  else modu63 d n.toNat

/-- the shared tail of `mod_u128` and of one Horner step of `mod_uint`:
`pr = hiw * r64 + low; hi = (pr >> 64) * r64; (res, c) = lo.overflowing_add(hi);
 if c { res += r64 }`. -/
def fold64 (d : Div) (hiw low : Nat) : Option Nat :=
  let pr := hiw * d.r64 + low                       -- u128
  if pr ≥ W * W then none
  else
    let hi := (pr / W % W) * d.r64                  -- u64 product
    if hi ≥ W then none
    else
      let lo := pr % W
      let sum := lo + hi
      if sum ≥ W then
        let res := sum % W
        if res + d.r64 ≥ W then none else some (res + d.r64)
      else some sum

/-- `mod_u128(n)`, `n : u128`. -/
def modU128 (d : Div) (n : Nat) : Option Nat :=
  let n0 := n % W
  let n1 := n / W % W
  if n1 = 0 then (divmod64 d n0).map (·.2)
  else
    match fold64 d n1 n0 with
    | none => none
    | some nred => (divmod64 d nred).map (·.2)

/-- the `for i in 2..=N` loop of `mod_uint`; the list holds `nd[N-2], nd[N-3], …, nd[0]`. -/
def modUintLoop (d : Div) : Nat → List Nat → Option Nat
  | pol, [] => some pol
  | pol, w :: ws =>
    if pol = 0 then modUintLoop d w ws
    else
      match fold64 d pol w with
      | none => none
      | some res => modUintLoop d res ws

/-- `mod_uint(n)`; `ds` = `n.digits()` (little endian, `N` words). -/
def modUint (d : Div) (ds : List Nat) : Option Nat :=
  match ds.reverse with
  | [] => none                                      -- nd[N - 1] with N = 0
  | top :: rest =>
    if d.p = 2 then some (ds.headD 0 % 2)
    else
      match modUintLoop d top rest with
      | none => none
      | some pol => (divmod64 d pol).map (·.2)

/-- the loop of `divmod_uint_inplace`, most significant digit first.
Returns the quotient digits (most significant first) and the final carry. -/
def divmodLoop (d : Div) (m64' : Nat) : Nat → List Nat → Option (List Nat × Nat)
  | carry, [] => some ([], carry)
  | carry, dg :: rest =>
    if dg = 0 ∧ carry = 0 then
      match divmodLoop d m64' carry rest with
      | none => none
      | some (qs, c) => some (0 :: qs, c)
    else
      match divmod64 d dg with
      | none => none
      | some (q, r) =>
        if q ≠ dg / d.p then none                   -- debug_assert!(q == d / self.p)
        else if carry ≠ 0 then
          let cm := carry * m64'
          if cm ≥ W then none
          else if q + cm ≥ W then none
          else
            let cr := carry * d.r64
            if cr ≥ W then none
            else if cr + r ≥ W then none
            else
              match divmod64 d (cr + r) with
              | none => none
              | some (cq, cr') =>
                if q + cm + cq ≥ W then none
                else
                  match divmodLoop d m64' cr' rest with
                  | none => none
                  | some (qs, c) => some ((q + cm + cq) :: qs, c)
        else
          match divmodLoop d m64' r rest with
          | none => none
          | some (qs, c) => some (q :: qs, c)

/-- `divmod_uint_inplace(digits)`: new digits (little endian) and the remainder. -/
def divmodUintInplace (d : Div) (ds : List Nat) : Option (List Nat × Nat) :=
  if d.m64 = 0 then none                            -- self.m64 - 1
  else if d.s64 ≥ 64 then none
  else
    match divmodLoop d ((d.m64 - 1) / 2 ^ d.s64) 0 ds.reverse with
    | none => none
    | some (qs, c) => some (qs.reverse, c)

/-- `divmod_uint(n)`; `ds` = `n.digits()`. The `BUint` operators `>>`, `%` of the p = 2 branch
and of the final debug assertion are taken as arithmetic on the value. -/
def divmodUint (d : Div) (ds : List Nat) : Option (List Nat × Nat) :=
  if d.p = 2 then some (ofNat ds.length (val ds / 2), ds.headD 0 % 2)
  else
    match divmodUintInplace d ds with
    | none => none
    | some (qs, rem) =>
      if d.p = 0 then none
      else if val ds % d.p % W ≠ rem then none      -- debug_assert!((n % p).low_u64() == rem)
      else some (qs, rem)

end Ymq.Dividers
