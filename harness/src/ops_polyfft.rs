//! Polynomial products, convolutions, multipoint evaluation, Fermat-number arithmetic and the
//! residue number system of the NTT (C10).
//! Request lines: see lean/Ymq/Drv/PolyFft.lean (same ops, same answers).
//!
//! Polynomials are lists of plain integers `< n` (NOT Montgomery form); the handler converts
//! with `ZmodN::from_int` / `to_int`. An operand is either an explicit list `c0,c1,...` (`-` =
//! empty) or a generated one `g:<len>:<seed>:<kind>` (see `gen_coef`): the same generator is
//! implemented in the Lean driver and in the Python oracle.
//! An `FInt<N>` is the list of its `N` words followed by the extra top word.
use crate::util::*;
use yamaquasi::arith_fft::verif_hooks_fint as hk;
use yamaquasi::arith_fft::{convolve_modn, convolve_modn_ntt, mulfft, FInt, MultiZmodP};
use yamaquasi::arith_montgomery::{MInt, ZmodN};
use yamaquasi::arith_poly::verif_hooks as hp;
use yamaquasi::arith_poly::{Poly, PolyRing};
use yamaquasi::Uint;

fn gen_coef(n: &Uint, seed: u64, i: u64, kind: &str) -> Option<Uint> {
    let h = seed
        .wrapping_add(i)
        .wrapping_add(1)
        .wrapping_mul(6364136223846793005)
        .wrapping_add(1442695040888963407);
    let big = || {
        let hh = Uint::from(h);
        let mut r = Uint::ONE;
        for _ in 0..9 {
            r = r * hh;
        }
        r % *n
    };
    Some(match kind {
        "r" => big(),
        "m" => *n - Uint::ONE,
        "o" => Uint::ONE % *n,
        "s" => {
            if h % 8 == 0 {
                big()
            } else {
                Uint::ZERO
            }
        }
        "b" => {
            if h % 2 == 0 {
                *n - Uint::ONE
            } else {
                Uint::ZERO
            }
        }
        "t" => {
            if h % 2048 == 0 {
                big()
            } else {
                Uint::ZERO
            }
        }
        _ => return None,
    })
}

/// operand -> plain integers
fn ints_of(s: &str, n: &Uint) -> Option<Vec<Uint>> {
    if s == "-" {
        return Some(vec![]);
    }
    if let Some(rest) = s.strip_prefix("g:") {
        let f: Vec<&str> = rest.split(':').collect();
        if f.len() != 3 {
            return None;
        }
        let len: u64 = f[0].parse().ok()?;
        let seed: u64 = f[1].parse().ok()?;
        return (0..len).map(|i| gen_coef(n, seed, i, f[2])).collect();
    }
    s.split(',').map(uint_of).collect()
}

thread_local! {
    /// `pfm_*` twins: operands and results are the raw integers held by the `MInt`s (Montgomery forms),
    /// no `from_int` / `to_int` conversion
    static RAW: std::cell::Cell<bool> = std::cell::Cell::new(false);
}

fn raw_mint(x: &Uint) -> MInt {
    let mut m = MInt::default();
    m.0.copy_from_slice(&x.digits()[..8]);
    m
}

fn poly_of(s: &str, zn: &ZmodN) -> Option<Vec<MInt>> {
    if RAW.with(|r| r.get()) {
        return Some(ints_of(s, &zn.n)?.iter().map(raw_mint).collect());
    }
    Some(ints_of(s, &zn.n)?.into_iter().map(|x| zn.from_int(x)).collect())
}

fn show_poly(zn: &ZmodN, v: &[MInt]) -> String {
    if v.is_empty() {
        return "-".to_string();
    }
    if RAW.with(|r| r.get()) {
        return v.iter().map(|&m| Uint::from(m).to_string()).collect::<Vec<_>>().join(",");
    }
    v.iter().map(|&m| zn.to_int(m).to_string()).collect::<Vec<_>>().join(",")
}

/// optional trailing arguments: an index list (print only these entries) and an evaluation point `x`
/// (append ` chk=<Σ v[i]·x^i mod n>`, a checksum over EVERY entry, computed with ZmodN)
fn show_sel(zn: &ZmodN, v: &[MInt], rest: &[&str]) -> Option<String> {
    let mut out = match rest.first() {
        None => show_poly(zn, v),
        Some(s) => {
            let ix: Vec<usize> = list_of(s)?;
            let sel: Vec<MInt> = ix.iter().map(|&i| v[i]).collect();
            show_poly(zn, &sel)
        }
    };
    if let Some(x) = rest.get(1) {
        let x = zn.from_int(uint_of(x)?);
        let mut acc = zn.zero();
        for c in v.iter().rev() {
            acc = zn.add(zn.mul(acc, x), *c);
        }
        out.push_str(&format!(" chk={}", zn.to_int(acc)));
    }
    Some(out)
}

fn usize_of(s: &str) -> Option<usize> {
    s.parse().ok()
}

// ---------------------------------------------------------------- FInt

fn fint_of<const N: usize>(s: &str) -> Option<FInt<N>> {
    let w: Vec<u64> = list_of(s)?;
    if w.len() != N + 1 {
        return None;
    }
    Some(hk::vh_fint_make::<N>(&w[..N], w[N]))
}

fn show_fint<const N: usize>(x: &FInt<N>) -> String {
    let mut w: Vec<u64> = x.0.to_vec();
    w.push(hk::vh_fint_top(x));
    show_list(&w)
}

fn fints_of<const N: usize>(s: &str) -> Option<Vec<FInt<N>>> {
    if s == "-" {
        return Some(vec![]);
    }
    s.split('/').map(fint_of::<N>).collect()
}

fn show_fints<const N: usize>(v: &[FInt<N>]) -> String {
    if v.is_empty() {
        return "-".to_string();
    }
    v.iter().map(show_fint).collect::<Vec<_>>().join("/")
}

fn fint_op<const N: usize>(op: &str, a: &[&str]) -> Option<String> {
    match (op, a) {
        ("fint_reduce", [x]) => {
            let mut x = fint_of::<N>(x)?;
            hk::vh_fint_reduce(&mut x);
            Some(show_fint(&x))
        }
        ("fint_add", [x, y]) => Some(show_fint(&hk::vh_fint_add(&fint_of::<N>(x)?, &fint_of::<N>(y)?))),
        ("fint_sub", [x, y]) => Some(show_fint(&hk::vh_fint_sub(&fint_of::<N>(x)?, &fint_of::<N>(y)?))),
        ("fint_mul", [x, y]) => Some(show_fint(&hk::vh_fint_mul(&fint_of::<N>(x)?, &fint_of::<N>(y)?))),
        ("fint_add_assign", [x, y]) => {
            let mut x = fint_of::<N>(x)?;
            hk::vh_fint_add_assign(&mut x, &fint_of::<N>(y)?);
            Some(show_fint(&x))
        }
        ("fint_sub_assign", [x, y]) => {
            let mut x = fint_of::<N>(x)?;
            hk::vh_fint_sub_assign(&mut x, &fint_of::<N>(y)?);
            Some(show_fint(&x))
        }
        ("fint_add_small", [x, y]) => {
            let mut x = fint_of::<N>(x)?;
            hk::vh_fint_add_small(&mut x, u64_of(y)?);
            Some(show_fint(&x))
        }
        ("fint_shl", [x, s]) => {
            let mut x = fint_of::<N>(x)?;
            hk::vh_fint_shl(&mut x, u32_of(s)?);
            Some(show_fint(&x))
        }
        ("fint_shr", [x, s]) => {
            let mut x = fint_of::<N>(x)?;
            hk::vh_fint_shr(&mut x, u32_of(s)?);
            Some(show_fint(&x))
        }
        ("fint_twiddle", [x, i, k]) => {
            let mut x = fint_of::<N>(x)?;
            hk::vh_fint_twiddle(&mut x, u32_of(i)?, u32_of(k)?);
            Some(show_fint(&x))
        }
        ("fint_butterfly", [x, y]) => {
            let mut x = fint_of::<N>(x)?;
            let mut y = fint_of::<N>(y)?;
            hk::vh_butterfly(&mut x, &mut y);
            Some(format!("{} {}", show_fint(&x), show_fint(&y)))
        }
        // fint_fft N k fwd src  (depth 0, src has 2^k entries)
        ("fint_fft", [k, fwd, src]) => {
            let k = u32_of(k)?;
            let src = fints_of::<N>(src)?;
            let mut dst = vec![FInt::<N>::default(); 1usize << k];
            hk::vh_fft(&src, &mut dst, 0, k, bool_of(fwd)?);
            Some(show_fints(&dst))
        }
        ("fint_mulfft", [x, y]) => {
            let x = fints_of::<N>(x)?;
            let y = fints_of::<N>(y)?;
            Some(show_fints(&mulfft(&x, &y)))
        }
        // pf_kron_raw N logpack stride n size offset reslen p q : _convolve_modn::<N> with explicit packing
        ("pf_kron_raw", [logpack, stride, n, size, offset, reslen, p, q]) => {
            let zn = ZmodN::new(uint_of(n)?);
            let (p, q) = (poly_of(p, &zn)?, poly_of(q, &zn)?);
            let mut res = vec![MInt::default(); usize_of(reslen)?];
            hk::vh_convolve_raw::<N>(
                &zn,
                usize_of(size)?,
                u32_of(logpack)?,
                usize_of(stride)?,
                &p,
                &q,
                &mut res,
                usize_of(offset)?,
            );
            Some(show_poly(&zn, &res))
        }
        _ => None,
    }
}

// ---------------------------------------------------------------- MultiZmodP

fn show_words(d: &[u64], len: usize) -> String {
    show_list(&d[..len])
}

fn mzp_op(op: &str, a: &[&str]) -> Option<String> {
    match (op, a) {
        // tables built by MultiZmodP::new
        ("mzp_new", [n, logk]) => {
            let zn = ZmodN::new(uint_of(n)?);
            let mzp = MultiZmodP::new(&zn, u32_of(logk)?);
            let w = hk::vh_mzp_primes(&mzp).len();
            let plen = hk::vh_mzp_plen(&mzp);
            let crt_p: Vec<String> = hk::vh_mzp_crt_p(&mzp).iter().map(|x| x.to_string()).collect();
            let crt_pn: Vec<String> = hk::vh_mzp_crt_p_modn(&mzp).iter().map(|x| x.to_string()).collect();
            let pps: Vec<String> = hk::vh_mzp_pprods_modn(&mzp).iter().map(|x| x.to_string()).collect();
            let rp: Vec<String> = hk::vh_mzp_rpowers(&mzp).iter().map(|v| show_list(v).replace(',', ":")).collect();
            Some(format!(
                "{} {} {} {} {} {} {} {} {}",
                w,
                hk::vh_mzp_k(&mzp),
                plen,
                show_list(hk::vh_mzp_primes(&mzp)),
                show_list(hk::vh_mzp_crt_pinv(&mzp)),
                hk::vh_mzp_pprod(&mzp),
                crt_p.join(","),
                crt_pn.join(","),
                format!("{} {}", pps.join(","), rp.join(","))
            ))
        }
        // residues of a (Montgomery-form) word vector x given as an integer < 2^512
        ("mzp_from_mint", [n, logk, x]) => {
            let zn = ZmodN::new(uint_of(n)?);
            let mzp = MultiZmodP::new(&zn, u32_of(logk)?);
            let xu = uint_of(x)?;
            let mut m = MInt::default();
            m.0.copy_from_slice(&xu.digits()[..8]);
            let w = hk::vh_mzp_primes(&mzp).len();
            let mut z = vec![0u64; w];
            mzp.from_mint(&mut z, &m);
            Some(show_list(&z))
        }
        // _crt on a residue vector: the k+1 output words as an integer
        ("mzp_crt", [n, logk, xs]) => {
            let zn = ZmodN::new(uint_of(n)?);
            let mzp = MultiZmodP::new(&zn, u32_of(logk)?);
            let xs: Vec<u64> = list_of(xs)?;
            let mut res = [0u64; 16];
            mzp._crt(&mut res, &xs);
            Some(show_words(&res, zn.words() + 1))
        }
        ("mzp_redc", [n, logk, xs]) => {
            let zn = ZmodN::new(uint_of(n)?);
            let mzp = MultiZmodP::new(&zn, u32_of(logk)?);
            let xs: Vec<u64> = list_of(xs)?;
            Some(Uint::from(mzp.redc(&xs)).to_string())
        }
        // mzp_ntt n logk k fwd v : ntt_inplace(v, 0, k, fwd) on w << k words
        ("mzp_ntt", [n, logk, k, fwd, v]) => {
            let zn = ZmodN::new(uint_of(n)?);
            let mzp = MultiZmodP::new(&zn, u32_of(logk)?);
            let mut v: Vec<u64> = list_of(v)?;
            hk::vh_mzp_ntt_inplace(&mzp, &mut v, 0, u32_of(k)?, bool_of(fwd)?);
            Some(show_list(&v))
        }
        ("mzp_roots", [n, logk, log]) => {
            let zn = ZmodN::new(uint_of(n)?);
            let mzp = MultiZmodP::new(&zn, u32_of(logk)?);
            Some(show_list(hk::vh_mzp_roots(&mzp, usize_of(log)?)))
        }
        _ => None,
    }
}

// ---------------------------------------------------------------- public entry points

fn poly_op(op: &str, a: &[&str]) -> Option<String> {
    match (op, a) {
        // pf_convolve n size offset reslen p q [idx]   (pf_kron: same call, the driver answers with
        // the mechanism model instead of the schoolbook specification)
        ("pf_convolve" | "pf_kron", [n, size, offset, reslen, p, q, rest @ ..]) if rest.len() <= 2 => {
            let zn = ZmodN::new(uint_of(n)?);
            let (p, q) = (poly_of(p, &zn)?, poly_of(q, &zn)?);
            let mut res = vec![MInt::default(); usize_of(reslen)?];
            convolve_modn(&zn, usize_of(size)?, &p, &q, &mut res, usize_of(offset)?);
            show_sel(&zn, &res, rest)
        }
        // pf_convolve_ntt n logk size offset reslen p q [idx]
        ("pf_convolve_ntt", [n, logk, size, offset, reslen, p, q, rest @ ..]) if rest.len() <= 2 => {
            let zn = ZmodN::new(uint_of(n)?);
            let mzp = MultiZmodP::new(&zn, u32_of(logk)?);
            let (p, q) = (poly_of(p, &zn)?, poly_of(q, &zn)?);
            let mut res = vec![MInt::default(); usize_of(reslen)?];
            convolve_modn_ntt(&mzp, usize_of(size)?, &p, &q, &mut res, usize_of(offset)?);
            show_sel(&zn, &res, rest)
        }
        ("pf_from_roots", [n, ringsize, roots]) => {
            let zn = ZmodN::new(uint_of(n)?);
            let zr = PolyRing::new(&zn, usize_of(ringsize)?);
            let roots = poly_of(roots, &zn)?;
            let p = Poly::from_roots(&zr, &roots);
            Some(show_poly(&zn, &p.c))
        }
        ("pf_roots_eval", [n, ra, rb]) => {
            let zn = ZmodN::new(uint_of(n)?);
            let (ra, rb) = (poly_of(ra, &zn)?, poly_of(rb, &zn)?);
            Some(show_poly(&zn, &Poly::roots_eval(&zn, &ra, &rb)))
        }
        ("pf_multi_eval", [n, ringsize, p, pts]) => {
            let zn = ZmodN::new(uint_of(n)?);
            let zr = PolyRing::new(&zn, usize_of(ringsize)?);
            let p = Poly::new(&zr, poly_of(p, &zn)?);
            let pts = poly_of(pts, &zn)?;
            Some(show_poly(&zn, &p.multi_eval(&pts)))
        }
        ("pf_eval", [n, p, x]) => {
            let zn = ZmodN::new(uint_of(n)?);
            let zr = PolyRing::new(&zn, 1);
            let p = Poly::new(&zr, poly_of(p, &zn)?);
            Some(zn.to_int(p.eval(zn.from_int(uint_of(x)?))).to_string())
        }
        ("pf_mul_karatsuba", [n, p, q]) => {
            let zn = ZmodN::new(uint_of(n)?);
            let zr = PolyRing::new(&zn, 1);
            let p = Poly::new(&zr, poly_of(p, &zn)?);
            let q = Poly::new(&zr, poly_of(q, &zn)?);
            Some(show_poly(&zn, &Poly::mul_karatsuba(&p, &q).c))
        }
        ("pf_mul_basic", [n, p, q]) => {
            let zn = ZmodN::new(uint_of(n)?);
            let zr = PolyRing::new(&zn, 1);
            let p = Poly::new(&zr, poly_of(p, &zn)?);
            let q = Poly::new(&zr, poly_of(q, &zn)?);
            Some(show_poly(&zn, &Poly::mul_basic(&p, &q).c))
        }
        ("pf_mul_fft", [n, ringsize, p, q]) => {
            let zn = ZmodN::new(uint_of(n)?);
            let zr = PolyRing::new(&zn, usize_of(ringsize)?);
            let p = Poly::new(&zr, poly_of(p, &zn)?);
            let q = Poly::new(&zr, poly_of(q, &zn)?);
            Some(show_poly(&zn, &Poly::mul_fft(&p, &q).c))
        }
        ("pf_middlemul", [n, ringsize, p, q]) => {
            let zn = ZmodN::new(uint_of(n)?);
            let zr = PolyRing::new(&zn, usize_of(ringsize)?);
            let p = Poly::new(&zr, poly_of(p, &zn)?);
            let q = Poly::new(&zr, poly_of(q, &zn)?);
            Some(show_poly(&zn, &Poly::middlemul(&p, &q).c))
        }
        ("pf_div_mod_xn", [n, ringsize, p, q]) => {
            let zn = ZmodN::new(uint_of(n)?);
            let zr = PolyRing::new(&zn, usize_of(ringsize)?);
            let p = Poly::new(&zr, poly_of(p, &zn)?);
            let q = Poly::new(&zr, poly_of(q, &zn)?);
            Some(show_poly(&zn, &Poly::div_mod_xn(&p, &q).c))
        }
        // the private `_inv_mod_xn` with the buffer sizes used by its callers
        ("pf_inv_mod_xn", [n, ringsize, p]) => {
            let zn = ZmodN::new(uint_of(n)?);
            let zr = PolyRing::new(&zn, usize_of(ringsize)?);
            let p = poly_of(p, &zn)?;
            let mut z = vec![MInt::default(); p.len()];
            let mut tmp = vec![MInt::default(); 6 * p.len()];
            hp::vh_inv_mod_xn(&zr, &mut z, &p, &mut tmp);
            Some(show_poly(&zn, &z))
        }
        // private recursive routines, called like their in-tree callers do
        ("pf_karatsuba_raw", [n, zlen, tmplen, p, q]) => {
            let zn = ZmodN::new(uint_of(n)?);
            let (p, q) = (poly_of(p, &zn)?, poly_of(q, &zn)?);
            let mut z = vec![MInt::default(); usize_of(zlen)?];
            let mut tmp = vec![MInt::default(); usize_of(tmplen)?];
            hp::vh_karatsuba(&zn, &mut z, &p, &q, &mut tmp);
            Some(show_poly(&zn, &z))
        }
        ("pf_longmul", [n, ringsize, p, q]) => {
            let zn = ZmodN::new(uint_of(n)?);
            let zr = PolyRing::new(&zn, usize_of(ringsize)?);
            let (p, q) = (poly_of(p, &zn)?, poly_of(q, &zn)?);
            let l = std::cmp::max(p.len(), q.len());
            let mut z = vec![MInt::default(); p.len() + q.len()];
            let mut tmp = vec![MInt::default(); 6 * l + 6];
            hp::vh_longmul(&zr, &mut z, &p, &q, &mut tmp);
            Some(show_poly(&zn, &z))
        }
        _ => None,
    }
}

pub fn handle(op: &str, a: &[&str]) -> Option<String> {
    // set on every call (a panic inside a previous call must not leave the flag behind)
    RAW.with(|r| r.set(op.starts_with("pfm_")));
    if let Some(rest) = op.strip_prefix("pfm_") {
        // the same call of the real code, exchanging raw Montgomery-form residues
        return poly_op(&format!("pf_{rest}"), a);
    }
    if op.starts_with("pf_") && op != "pf_kron_raw" {
        return poly_op(op, a);
    }
    if op.starts_with("mzp_") {
        return mzp_op(op, a);
    }
    if op.starts_with("fint_") || op == "pf_kron_raw" {
        let (nn, rest) = a.split_first()?;
        return match *nn {
            "1" => fint_op::<1>(op, rest),
            "2" => fint_op::<2>(op, rest),
            "3" => fint_op::<3>(op, rest),
            "4" => fint_op::<4>(op, rest),
            "8" => fint_op::<8>(op, rest),
            "16" => fint_op::<16>(op, rest),
            "32" => fint_op::<32>(op, rest),
            "64" => fint_op::<64>(op, rest),
            "128" => fint_op::<128>(op, rest),
            "256" => fint_op::<256>(op, rest),
            _ => None,
        };
    }
    None
}
