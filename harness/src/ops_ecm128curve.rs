//! One run of the 128-bit ECM end to end (C15/C16): src/ecm128.rs `ecm_curve` and `ecm` through their hooks, on the
//! twisted Edwards curve (a = -1) through an explicit generator `(x : y : z)`.
//!
//! `e128_curve` / `e128_curve_raw` / `e128_ecm` call the real routines; `e128_stage1` / `e128_tables` recompose the real
//! primitives (`scalar64_mul`, `ext`, `dblext`, `add`, `M128::mul`) in the order of the routine so that the intermediate
//! points of the model can be compared. Residues travel as ordinary integers in [0, n).
use crate::util::*;
use yamaquasi::ecm::verif_hooks as eh;
use yamaquasi::ecm::verif_hooks_curve_run as er;
use yamaquasi::ecm::SmoothBase;
use yamaquasi::ecm128::verif_hooks as hm;
use yamaquasi::ecm128::verif_hooks_curve as eh128;
use yamaquasi::ecm128::verif_hooks_stage2 as es128;
use yamaquasi::ecm128::{Curve, ExtPoint, Point};

fn show_pair(r: Option<(u128, u128)>) -> String {
    match r {
        None => "none".to_string(),
        Some((p, q)) => format!("{p} {q}"),
    }
}

/// the curve `Curve::from_point(n, g)` with `g` given by residues (as `ecm128::ecm` builds it: Montgomery words)
fn curve_of(a: &[&str]) -> Option<Curve> {
    let n = u128_of(a[0])?;
    let c0 = Curve::from_point(n, eh128::point(0, 0, 0));
    let w = |s: &str| -> Option<u128> { Some(eh128::from_int(&c0, u128_of(s)? % n)) };
    Some(Curve::from_point(n, eh128::point(w(a[1])?, w(a[2])?, w(a[3])?)))
}

fn pt(c: &Curve, p: &Point) -> String {
    eh128::xyz(p).map(|x| eh128::to_int(c, x).to_string()).join(" ")
}

fn pts(c: &Curve, l: &[Point]) -> String {
    l.iter().map(|p| pt(c, p)).collect::<Vec<_>>().join(" | ")
}

fn proj(e: &ExtPoint) -> Point {
    let w = eh128::xyzt(e);
    eh128::point(w[0], w[1], w[2])
}

pub fn handle(op: &str, a: &[&str]) -> Option<String> {
    match (op, a) {
        ("e128_curve", [_, _, _, _, b1, b2]) => {
            let c = curve_of(a)?;
            let sb = SmoothBase::new(b1.parse().ok()?, false);
            Some(show_pair(es128::vh_ecm_curve(&c, &sb, u64_of(b2)? as f64)))
        }
        ("e128_curve_raw", [_, _, _, _, fs, b2]) => {
            let c = curve_of(a)?;
            let sb = er::smoothbase_from(list_of(fs)?, vec![]);
            Some(show_pair(es128::vh_ecm_curve(&c, &sb, u64_of(b2)? as f64)))
        }
        ("e128_ecm", [n, curves, b1, b2]) => {
            Some(show_pair(es128::vh_ecm(u128_of(n)?, curves.parse().ok()?, u64_of(b1)?, u64_of(b2)? as f64)))
        }
        ("e128_stage1", [_, _, _, _, b1]) => {
            let c = curve_of(a)?;
            let sb = SmoothBase::new(b1.parse().ok()?, false);
            let (fs, _) = eh::smoothbase_parts(&sb);
            let mut g = c.gen().clone();
            for &f in fs {
                g = c.scalar64_mul(f, &g);
            }
            Some(pt(&c, &g))
        }
        ("e128_tables", [n, _, _, _, d1, d2]) => {
            let c = curve_of(a)?;
            let n = u128_of(n)?;
            let (d1, d2) = (u64_of(d1)?, u64_of(d2)?);
            let g = c.gen().clone();
            // baby steps
            let bs: Vec<u64> = (1..d1 / 2).filter(|&b| num_integer::Integer::gcd(&b, &d1) == 1).collect();
            let g2 = eh128::dblext(&c, &g);
            let g4 = eh128::dblext(&c, &proj(&g2));
            let mut gaps: Vec<ExtPoint> = vec![g2, g4];
            let mut bg = c.ext(&g);
            let mut bexp = 1;
            assert_eq!(bs[0], 1);
            let mut bsteps = vec![g.clone()];
            for &b in &bs[1..] {
                let gap = b - bexp;
                while gaps.len() < gap as usize / 2 {
                    let gap2 = eh128::add(&c, &gaps[0], &gaps[gaps.len() - 1]);
                    gaps.push(gap2);
                }
                bg = eh128::add(&c, &bg, &gaps[gap as usize / 2 - 1]);
                bsteps.push(proj(&bg));
                bexp = b;
            }
            // giant steps
            let dg = c.scalar64_mul(d1, &g);
            let dg2 = eh128::dblext(&c, &dg);
            let dgext = c.ext(&dg);
            let mut gg = dg2.clone();
            let mut gsteps = vec![dg, proj(&dg2)];
            for _ in 2..d2 {
                gg = eh128::add(&c, &gg, &dgext);
                gsteps.push(proj(&gg));
            }
            // normalisation
            let ninv = hm::m128_inv_2adic(n);
            let mul = |x: u128, y: u128| hm::m128_mul(n, ninv, x, y);
            let mut steps: Vec<[u128; 3]> = bsteps.iter().chain(gsteps.iter()).map(eh128::xyz).collect();
            let l = steps.len();
            let mut u = steps[0][2];
            for i in 1..l {
                steps[i][1] = mul(steps[i][1], u);
                u = mul(u, steps[i][2]);
            }
            u = steps[l - 1][2];
            for i in 2..=l {
                steps[l - i][1] = mul(steps[l - i][1], u);
                u = mul(u, steps[l - i][2]);
            }
            let ys: Vec<String> = steps.iter().map(|s| eh128::to_int(&c, s[1]).to_string()).collect();
            Some(format!("{} ; {} ; {}", pts(&c, &bsteps), pts(&c, &gsteps), ys.join(",")))
        }
        _ => None,
    }
}
