import Ymq.Props.C13Log
#print axioms Ymq.C13.accumulator_spec_partial
#print axioms Ymq.C13.accumulator_overflow_iff
#print axioms Ymq.C13.accumulator_overflow_witness
#print axioms Ymq.C13.accumulator_no_overflow_partial
#print axioms Ymq.C13.smooths_threshold_spec
