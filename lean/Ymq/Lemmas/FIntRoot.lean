/-
Lemmas for the word-exact `FInt` model, part 3: `√2 = 2^(48N) - 2^(16N)` squares to 2 modulo
`2^(64N)+1`, and `twiddle(i, k)` multiplies by the `i`-th power of `√2^(256N/2^k)`.
-/
import Ymq.Lemmas.FIntShift

namespace Ymq.FInt
open Ymq.Limbs

/-- the code's `√2`: `2^(48N) - 2^(16N)` (a Nat; `2^(16N) ≤ 2^(48N)`) -/
def sqrt2 (N : Nat) : Nat := 2 ^ (48 * N) - 2 ^ (16 * N)

theorem Fmod_eq (N : Nat) : Fmod N = (2 ^ (16 * N)) ^ 4 + 1 := by
  rw [Fmod, W_eq, ← pow_mul, ← pow_mul]; congr 2; omega

theorem sqrt2_add (N : Nat) : sqrt2 N + 2 ^ (16 * N) = (2 ^ (16 * N)) ^ 3 := by
  unfold sqrt2
  have : (2 ^ (16 * N)) ^ 3 = 2 ^ (48 * N) := by rw [← pow_mul]; congr 1; omega
  rw [this]
  have : 2 ^ (16 * N) ≤ 2 ^ (48 * N) := Nat.pow_le_pow_right (by decide) (by omega)
  omega

/-- `(2^(48N) - 2^(16N))² ≡ 2 (mod 2^(64N) + 1)` -/
theorem sqrt2_sq' (N : Nat) : sqrt2 N * sqrt2 N ≡ 2 [MOD Fmod N] := by
  have h := sqrt2_add N
  rw [Fmod_eq]
  generalize sqrt2 N = d at *
  generalize 2 ^ (16 * N) = a at *
  apply modEq_of_eq (k1 := 2) (k2 := a * a)
  -- d + a = a^3
  have h2 : (d + a) * (d + a) = a ^ 3 * a ^ 3 := by rw [h]
  have h3 : (d + a) * a = a ^ 3 * a := by rw [h]
  nlinarith


theorem sqrt2_pow_even (N m : Nat) : sqrt2 N ^ (2 * m) ≡ 2 ^ m [MOD Fmod N] := by
  rw [pow_mul, sq]
  exact (sqrt2_sq' N).pow m

/-- the primitive `2^k`-th root of unity used by `twiddle(·, k)`: `√2 ^ (256 N / 2^k)` -/
def root (N k : Nat) : Nat := sqrt2 N ^ (256 * N / 2 ^ k)

/-- `FInt::twiddle(i, k)`: multiplication by `ω^i`, `ω = √2^(256N/2^k)`, whenever `2^k` divides
`128 N` (pure shifts) or `2^k = 256 N` (the transform length at which `√2` itself is needed). -/
theorem twiddle_spec' {N : Nat} (x : FI) (i k : Nat) (hN : 0 < N) (hx : WfN N x) (hn : Norm x)
    (hk : k < 32) (hi : 128 * i * N < 2 ^ 32) (hdiv : 2 ^ k ∣ 128 * N ∨ 2 ^ k = 256 * N) :
    ∃ r, twiddle x i k = some r ∧ WfN N r ∧ Norm r ∧
      r.value ≡ x.value * root N k ^ i [MOD Fmod N] := by
  unfold twiddle
  simp only [hx.1]
  have hp : 0 < 2 ^ k := Nat.pow_pos (by decide)
  by_cases hk0 : k = 0
  · rw [if_pos hk0]
    subst hk0
    refine ⟨x, rfl, hx, hn, ?_⟩
    have h1 : root N 0 = sqrt2 N ^ (2 * (128 * N)) := by
      unfold root; congr 1; simp; omega
    have h2 : root N 0 ≡ 1 [MOD Fmod N] := by
      rw [h1]; exact (sqrt2_pow_even N (128 * N)).trans (pow_period N)
    have h3 := (h2.pow i).mul_left x.value
    rw [one_pow, Nat.mul_one] at h3
    exact h3.symm
  · rw [if_neg hk0]
    have hi' : ¬ (128 * i * N ≥ 2 ^ 32) := by omega
    have hk' : ¬ (k ≥ 32) := by omega
    rw [if_neg hi', if_neg hk']
    rcases hdiv with ⟨m, hm⟩ | hfull
    · -- pure shift
      have hne : ¬ (i % 2 = 1 ∧ 2 ^ k = 256 * N) := by
        rintro ⟨_, h⟩
        have : 2 ^ k ≤ 128 * N := Nat.le_of_dvd (by omega) ⟨m, hm⟩
        omega
      simp only [hne, if_false]
      have hshift : 128 * i * N / 2 ^ k = i * m := by
        have : 128 * i * N = 2 ^ k * (i * m) := by
          calc 128 * i * N = i * (128 * N) := by ring
            _ = i * (2 ^ k * m) := by rw [hm]
            _ = 2 ^ k * (i * m) := by ring
        rw [this, Nat.mul_div_cancel_left _ hp]
      rw [hshift]
      obtain ⟨r, hr, hw, hnr, hv⟩ := shl_spec' x (i * m) hN hx hn
      refine ⟨r, hr, hw, hnr, hv.trans ?_⟩
      have hroot : root N k = sqrt2 N ^ (2 * m) := by
        unfold root; congr 1
        have : 256 * N = 2 ^ k * (2 * m) := by rw [show 256 * N = 2 * (128 * N) by ring, hm]; ring
        rw [this, Nat.mul_div_cancel_left _ hp]
      rw [hroot, Nat.mul_comm i m, pow_mul]
      exact (((sqrt2_pow_even N m).pow i).mul_left x.value).symm
    · -- full length: ω = √2
      have hroot : root N k = sqrt2 N := by
        unfold root; rw [hfull, Nat.div_self (by omega), pow_one]
      have hshift : 128 * i * N / 2 ^ k = i / 2 := by
        rw [hfull]
        have h1 : 128 * i * N = 256 * N * (i / 2) + i % 2 * (128 * N) := by
          have := Nat.div_add_mod i 2
          calc 128 * i * N = 128 * (2 * (i / 2) + i % 2) * N := by rw [this]
            _ = _ := by ring
        rw [h1]
        have hlt : i % 2 * (128 * N) < 256 * N := by
          have : i % 2 < 2 := Nat.mod_lt _ (by decide)
          have : i % 2 ≤ 1 := by omega
          have := Nat.mul_le_mul_right (128 * N) this
          omega
        rw [Nat.mul_add_div (by omega), Nat.div_eq_of_lt hlt]
        omega
      rw [hshift, hroot]
      have hpow : sqrt2 N ^ i ≡ sqrt2 N ^ (i % 2) * 2 ^ (i / 2) [MOD Fmod N] := by
        conv_lhs => rw [← Nat.div_add_mod i 2, pow_add]
        rw [Nat.mul_comm]
        exact (sqrt2_pow_even N (i / 2)).mul_left _
      by_cases hodd : i % 2 = 1
      · have hhs : (i % 2 = 1 ∧ 2 ^ k = 256 * N) := ⟨hodd, hfull⟩
        simp only [hhs, and_self, if_true]
        obtain ⟨y, hy, hwy, hny, hvy⟩ := shl_spec' x (16 * N) hN hx hn
        obtain ⟨s, hs, hws, hns, hvs⟩ := shl_spec' x (48 * N) hN hx hn
        rw [hy, hs]
        simp only
        obtain ⟨x1, hx1, hw1, hn1, hv1⟩ := sub_spec' s y hN hws hwy hns hny
        rw [hx1]
        simp only
        obtain ⟨r, hr, hw, hnr, hv⟩ := shl_spec' x1 (i / 2) hN hw1 hn1
        refine ⟨r, hr, hw, hnr, hv.trans ?_⟩
        -- x1 ≡ x * √2
        have hx1v : x1.value ≡ x.value * sqrt2 N [MOD Fmod N] := by
          have h1 : x1.value + x.value * 2 ^ (16 * N) ≡ x.value * 2 ^ (48 * N) [MOD Fmod N] :=
            ((Nat.ModEq.add_left _ hvy.symm).trans hv1).trans hvs
          have h2 : x.value * sqrt2 N + x.value * 2 ^ (16 * N) = x.value * 2 ^ (48 * N) := by
            rw [← Nat.mul_add, sqrt2_add, ← pow_mul]; congr 2; omega
          rw [← h2] at h1
          exact Nat.ModEq.add_right_cancel' _ h1
        have h3 := hx1v.mul_right (2 ^ (i / 2))
        refine h3.trans ?_
        rw [Nat.mul_assoc]
        have := (hpow.mul_left x.value).symm
        rwa [hodd, pow_one] at this
      · have hev : i % 2 = 0 := by omega
        have hhs : ¬ (i % 2 = 1 ∧ 2 ^ k = 256 * N) := by omega
        simp only [hhs, if_false]
        obtain ⟨r, hr, hw, hnr, hv⟩ := shl_spec' x (i / 2) hN hx hn
        refine ⟨r, hr, hw, hnr, hv.trans ?_⟩
        have := (hpow.mul_left x.value).symm
        rwa [hev, pow_zero, Nat.one_mul] at this

end Ymq.FInt
