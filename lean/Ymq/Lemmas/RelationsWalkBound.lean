/-
Iteration bound of the explicit-stack walk (C11): with `L = doubles.len() + doubles_rev.len()`,
a walk started in a store satisfying `Inv` takes at most `1 + K(L)·(L − L')` iterations of the
`while` loop, `K(L) = 2L(L+1)`, `L'` the value of `L` afterwards; hence `Store.iterFuel`
(= L·K(L) + 1) iterations always suffice. Accounting: one iteration per action of a frame (2k
actions, k ≤ L keys) plus one (pop); every nested walk starts after a removal (the first action of
a non-empty frame removes a stored double: for a frame with reverse keys only this is the mirror
invariant), so it runs with a smaller `L` and is charged `K(L − 1)` per removed entry; the
difference `K(L) − K(L − 1) = 4L ≥ 4k` pays the frame's own 4k.
-/
import Ymq.Lemmas.RelationsWalkCor

namespace Ymq.Relations

/-- the measure: stored doubles + reverse index entries -/
def Lm (s : Store) : Nat := s.doubles.length + s.doublesRev.length

def Kf (l : Nat) : Nat := 2 * l * (l + 1)

/-- the measure after a result (0 after an error) -/
def finalL : M Store → Nat
  | .ok s => Lm s
  | .error _ => 0

def Good (s : Store) : Prop := Inv s ∧ s.n ≤ X512

theorem Kf_mono {a b : Nat} (h : a ≤ b) : Kf a ≤ Kf b := by
  unfold Kf
  exact Nat.mul_le_mul (Nat.mul_le_mul_left _ h) (by omega)

theorem Kf_succ (j : Nat) : Kf (j + 1) = Kf j + 4 * (j + 1) := by
  unfold Kf; ring

theorem iterFuel_eq (s : Store) : s.iterFuel = Lm s * Kf (Lm s) + 1 := by
  unfold Store.iterFuel Lm Kf
  simp only
  ring

/-- `combine_double_step` touches neither `doubles` nor `doubles_rev` -/
theorem combineDoubleStep_lists {r : Relation} {p q : Nat} {s : Store} {res : Bool × Option Nat × Store}
    (h : combineDoubleStep r p q s = .ok res) :
    res.2.2.doubles = s.doubles ∧ res.2.2.doublesRev = s.doublesRev := by
  unfold combineDoubleStep at h
  split at h
  · simp only [bind_eq_ok, pure_eq_ok] at h
    obtain ⟨s1, hs1, h⟩ := h
    obtain ⟨_, _, hd, hr⟩ := addCycle_mono hs1
    rw [← h]; exact ⟨hd, hr⟩
  · split at h
    · simp only [bind_eq_ok] at h
      obtain ⟨rp, _, rq, _, r1, _, r2, _, s1, hs1, h⟩ := h
      obtain ⟨_, _, hd, hr⟩ := addCycle_mono hs1
      split at h
      · simp only [bind_eq_ok] at h
        obtain ⟨rpq, _, h⟩ := h
        split at h
        · simp [throw_ne_ok] at h
        · simp only [bind_eq_ok, pure_eq_ok] at h
          obtain ⟨_, _, h⟩ := h
          rw [← h]; exact ⟨hd, hr⟩
      · split at h
        · simp only [bind_eq_ok] at h
          obtain ⟨rqp, _, h⟩ := h
          split at h
          · simp [throw_ne_ok] at h
          · simp only [bind_eq_ok, pure_eq_ok] at h
            obtain ⟨_, _, h⟩ := h
            rw [← h]; exact ⟨hd, hr⟩
        · simp only [pure_eq_ok] at h
          rw [← h]; exact ⟨hd, hr⟩
    · simp only [bind_eq_ok] at h
      obtain ⟨rp, _, rq, _, h⟩ := h
      split at h
      · simp [throw_ne_ok] at h
      · simp only [bind_eq_ok, pure_eq_ok] at h
        obtain ⟨_, _, h⟩ := h
        rw [← h]; exact ⟨rfl, rfl⟩
    · simp only [bind_eq_ok] at h
      obtain ⟨rq, _, rp, _, h⟩ := h
      split at h
      · simp [throw_ne_ok] at h
      · simp only [bind_eq_ok, pure_eq_ok] at h
        obtain ⟨_, _, h⟩ := h
        rw [← h]; exact ⟨rfl, rfl⟩
    · simp only [pure_eq_ok] at h
      rw [← h]; exact ⟨rfl, rfl⟩

/-- what a removal step does to the measure -/
theorem removeStep_measure {p q : Nat} {s : Store} {res : StepRes × Store}
    (h : removeStep p q s = .ok res) :
    (¬ dkey s (p, q) ∧ res = (.next none, s)) ∨ (dkey s (p, q) ∧ Lm res.2 + 1 ≤ Lm s) := by
  unfold removeStep at h
  split at h
  · rename_i hlook
    simp only [pure_eq_ok] at h
    left
    exact ⟨fun ⟨b, hb⟩ => alookup_none hlook b hb, h.symm⟩
  · rename_i blob hlook
    right
    refine ⟨⟨blob, alookup_mem hlook⟩, ?_⟩
    simp only [bind_eq_ok] at h
    obtain ⟨r, _, res', hstep, h⟩ := h
    obtain ⟨hd, hr⟩ := combineDoubleStep_lists hstep
    split at h
    · simp only [pure_eq_ok] at h
      rw [← h]
      unfold Lm
      simp only
      rw [hd, hr]
      have h1 := aerase_length_lt (alookup_mem hlook)
      have h2 : (serase (q, p) s.doublesRev).length ≤ s.doublesRev.length := List.length_filter_le _ _
      simp only at h1 ⊢
      omega
    · simp [throw_ne_ok] at h

/-- the identity walker -/
def idWalk : Nat → Store → M Store := fun _ s => pure s

theorem removeStep_good {p q : Nat} {s : Store} {res : StepRes × Store}
    (h : removeStep p q s = .ok res) (hg : Good s) : Good res.2 := by
  have hw : walkStep idWalk p q s = .ok res.2 := by
    rw [walkStep_eq_remove, h]
    obtain ⟨r, s1⟩ := res
    cases r with
    | pop => rfl
    | next nx => cases nx <;> rfl
  have hk : ∀ root s s', Inv s → s.n ≤ X512 → idWalk root s = .ok s' → Keeps s s' := by
    intro root s s' hi _ h
    simp only [idWalk, pure_eq_ok] at h
    rw [← h]; exact Keeps.refl hi
  have := walkStep_keeps hk hw hg.1 hg.2
  exact ⟨this.2.2, by rw [this.1]; exact hg.2⟩

theorem dkey_pos {s : Store} {k : Nat × Nat} (h : dkey s k) : 1 ≤ Lm s := by
  obtain ⟨b, hb⟩ := h
  unfold Lm
  have := List.length_pos_of_mem hb
  omega

/-! ### the simulation with costs -/

/-- the stack loop started on the frame of `x` computes `w x` within `1 + K(L)·d` iterations,
`d` = decrease of the measure -/
def BPush (w : Nat → Store → M Store) : Prop :=
  ∀ (x : Nat) (s : Store), Good s → w x s ≠ .error .fuel →
    ∃ c d, finalL (w x s) + d = Lm s ∧ c ≤ 1 + Kf (Lm s) * d ∧
      ∀ (m : Nat) (below : List WalkFrame),
        (walkFrame x s >>= fun fr => walkIter (c + m) (fr :: below) s) = w x s >>= walkIter m below

def GoodKeep (w : Nat → Store → M Store) : Prop :=
  ∀ x s s', Good s → w x s = .ok s' → Good s'

/-- the action at `pos` removes a stored double -/
def Present (fr : WalkFrame) (pos : Nat) (s : Store) : Prop :=
  ∃ p q, (actsOf fr)[pos]? = some (.rem p q) ∧ dkey s (p, q)

theorem frame_simB {w : Nat → Store → M Store} (hw : BPush w) (hg : GoodKeep w) (fr : WalkFrame)
    (L0 K1 : Nat) (hK : ∀ l, l + 1 ≤ L0 → Kf l ≤ K1) :
    ∀ (n pos : Nat) (s : Store), (actsOf fr).length - pos = n → Good s →
      (n ≠ 0 → Lm s + 1 ≤ L0 ∨ (Lm s ≤ L0 ∧ Present fr pos s)) →
      runActs w fr.root ((actsOf fr).drop pos) s ≠ .error .fuel →
      ∃ c d, finalL (runActs w fr.root ((actsOf fr).drop pos) s) + d = Lm s ∧
        c ≤ 2 * n + 1 + K1 * d ∧ (Present fr pos s → 1 ≤ d) ∧
        ∀ (m : Nat) (rest : List WalkFrame),
          walkIter (c + m) ({ fr with pos := pos } :: rest) s =
            runActs w fr.root ((actsOf fr).drop pos) s >>= walkIter m rest := by
  intro n
  induction n with
  | zero =>
    intro pos s hn _ _ _
    have hnone : (actsOf fr)[pos]? = none := List.getElem?_eq_none (by omega)
    rw [List.drop_eq_nil_of_le (by omega)]
    refine ⟨1, 0, rfl, by omega, ?_, fun m rest => ?_⟩
    · rintro ⟨p, q, h, _⟩; rw [hnone] at h; cases h
    · rw [show 1 + m = m + 1 by omega, walkIter_succ, frameStep_acts]
      rw [show (actsOf { fr with pos := pos }) = actsOf fr from rfl]
      simp only
      rw [hnone]
      rfl
  | succ n ih =>
    intro pos s hn hgood hH hR
    have hH := hH (by omega)
    have hlt : pos < (actsOf fr).length := by omega
    obtain ⟨a, ha⟩ : ∃ a, (actsOf fr)[pos]? = some a := ⟨_, List.getElem?_eq_getElem hlt⟩
    rw [drop_of_getElem? ha] at hR ⊢
    have hstep : ∀ (k : Nat) (rest : List WalkFrame),
        walkIter (k + 1) ({ fr with pos := pos } :: rest) s =
          (match some a with
            | none => pure (.pop, s)
            | some (.rem p q) => removeStep p q s
            | some (.go a b) => if a ≠ fr.root then throw .panic else pure (.next (some b), s)) >>= fun r =>
          match r.1 with
          | .pop => walkIter k rest r.2
          | .next none => walkIter k ({ fr with pos := pos + 1 } :: rest) r.2
          | .next (some x) => walkFrame x r.2 >>= fun f =>
              walkIter k (f :: { fr with pos := pos + 1 } :: rest) r.2 := by
      intro k rest
      rw [walkIter_succ, frameStep_acts, show (actsOf { fr with pos := pos }) = actsOf fr from rfl]
      simp only
      rw [ha]
      rfl
    -- continuing with the frame at pos + 1 from a store s1 below the bound
    have hcont : ∀ s1, Good s1 → Lm s1 + 1 ≤ L0 →
        runActs w fr.root ((actsOf fr).drop (pos + 1)) s1 ≠ .error .fuel →
        ∃ c d, finalL (runActs w fr.root ((actsOf fr).drop (pos + 1)) s1) + d = Lm s1 ∧
          c ≤ 2 * n + 1 + K1 * d ∧
          ∀ (m : Nat) (rest : List WalkFrame),
            walkIter (c + m) ({ fr with pos := pos + 1 } :: rest) s1 =
              runActs w fr.root ((actsOf fr).drop (pos + 1)) s1 >>= walkIter m rest := by
      intro s1 hg1 hl1 h
      obtain ⟨c, d, e1, e2, _, e4⟩ := ih (pos + 1) s1 (by omega) hg1 (fun _ => Or.inl hl1) h
      exact ⟨c, d, e1, e2, e4⟩
    -- a requested walk from x in the store s1, then the rest of the frame
    have hwalk : ∀ (x : Nat) (s1 : Store), Good s1 → Lm s1 + 1 ≤ L0 →
        (w x s1 >>= runActs w fr.root ((actsOf fr).drop (pos + 1))) ≠ .error .fuel →
        ∃ c d, finalL (w x s1 >>= runActs w fr.root ((actsOf fr).drop (pos + 1))) + d = Lm s1 ∧
          c ≤ 2 * n + 2 + K1 * d ∧
          ∀ (m : Nat) (rest : List WalkFrame),
            (walkFrame x s1 >>= fun f => walkIter (c + m) (f :: { fr with pos := pos + 1 } :: rest) s1) =
              (w x s1 >>= runActs w fr.root ((actsOf fr).drop (pos + 1))) >>= walkIter m rest := by
      intro x s1 hg1 hl1 hne
      have hK1 : Kf (Lm s1) ≤ K1 := hK _ hl1
      cases hW : w x s1 with
      | error e =>
        have hWne : w x s1 ≠ .error .fuel := by
          intro hc; rw [hc] at hne; exact hne rfl
        obtain ⟨c2, d2, f1, f2, h2⟩ := hw x s1 hg1 hWne
        rw [hW] at f1
        simp only [finalL, Nat.zero_add] at f1
        refine ⟨c2, d2, by simp only [error_bind, finalL]; omega, ?_, fun m rest => ?_⟩
        · have := Nat.mul_le_mul_right d2 hK1
          omega
        · rw [h2 m _, hW]; rfl
      | ok s2 =>
        have hWne : w x s1 ≠ .error .fuel := by rw [hW]; intro hc; cases hc
        obtain ⟨c2, d2, f1, f2, h2⟩ := hw x s1 hg1 hWne
        rw [hW] at f1 hne
        simp only [finalL] at f1
        simp only [ok_bind] at hne
        obtain ⟨c1, d1, g1, g2, h1⟩ := hcont s2 (hg x s1 s2 hg1 hW) (by omega) hne
        refine ⟨c2 + c1, d1 + d2, by simp only [ok_bind]; omega, ?_, fun m rest => ?_⟩
        · have := Nat.mul_le_mul_right d2 hK1
          rw [Nat.mul_add]
          omega
        · rw [show c2 + c1 + m = c2 + (c1 + m) by omega, h2 (c1 + m) _, hW]
          simp only [ok_bind]
          exact h1 m rest
    cases a with
    | rem p q =>
      simp only [runActs, walkStep_eq_remove, bind_assoc'] at hR ⊢
      cases hrs : removeStep p q s with
      | error e =>
        refine ⟨1, Lm s, by simp only [error_bind, finalL]; omega, by omega, ?_, fun m rest => ?_⟩
        · rintro ⟨p', q', h1, h2⟩; exact dkey_pos h2
        · rw [show 1 + m = m + 1 by omega, hstep]
          simp only [hrs]; rfl
      | ok res =>
        rw [hrs] at hR
        simp only [ok_bind] at hR ⊢
        have hnp := removeStep_not_pop hrs
        have hg1 := removeStep_good hrs hgood
        have hmeas := removeStep_measure hrs
        -- the measure below the bound after this step, and what `Present` gives
        have hl1 : Lm res.2 + 1 ≤ L0 ∧ Lm res.2 ≤ Lm s ∧ (Present fr pos s → Lm res.2 + 1 ≤ Lm s) := by
          rcases hmeas with ⟨habs, hres⟩ | ⟨hpres, hdec⟩
          · have hsame : res.2 = s := by rw [hres]
            rw [hsame]
            refine ⟨?_, Nat.le_refl _, ?_⟩
            · rcases hH with h | ⟨_, p', q', h1, h2⟩
              · exact h
              · rw [ha] at h1; cases h1; exact absurd h2 habs
            · rintro ⟨p', q', h1, h2⟩
              rw [ha] at h1; cases h1; exact absurd h2 habs
          · refine ⟨?_, by omega, fun _ => hdec⟩
            rcases hH with h | ⟨h, _⟩ <;> omega
        obtain ⟨r, s1⟩ := res
        cases r with
        | pop => exact absurd rfl hnp
        | next nx =>
          simp only at hl1 hg1
          cases nx with
          | none =>
            simp only [afterRemove, pure_bind'] at hR ⊢
            obtain ⟨c1, d1, g1, g2, h1⟩ := hcont s1 hg1 hl1.1 hR
            refine ⟨c1 + 1, d1 + (Lm s - Lm s1), by omega, ?_, ?_, fun m rest => ?_⟩
            · have := Nat.mul_le_mul_left K1 (Nat.le_add_right d1 (Lm s - Lm s1))
              omega
            · intro hp; have := hl1.2.2 hp; omega
            · rw [show c1 + 1 + m = (c1 + m) + 1 by omega, hstep]
              simp only [hrs, ok_bind, afterRemove, pure_bind']
              exact h1 m rest
          | some x =>
            simp only [afterRemove] at hR ⊢
            obtain ⟨c, d1, g1, g2, hc⟩ := hwalk x s1 hg1 hl1.1 hR
            refine ⟨c + 1, d1 + (Lm s - Lm s1), by omega, ?_, ?_, fun m rest => ?_⟩
            · have := Nat.mul_le_mul_left K1 (Nat.le_add_right d1 (Lm s - Lm s1))
              omega
            · intro hp; have := hl1.2.2 hp; omega
            · rw [show c + 1 + m = (c + m) + 1 by omega, hstep]
              simp only [hrs, ok_bind, afterRemove]
              rw [hc m rest, bind_assoc']
    | go a' b' =>
      have hl : Lm s + 1 ≤ L0 := by
        rcases hH with h | ⟨_, p', q', h1, _⟩
        · exact h
        · rw [ha] at h1; cases h1
      have hnotp : ¬ Present fr pos s := by
        rintro ⟨p', q', h1, _⟩; rw [ha] at h1; cases h1
      simp only [runActs] at hR ⊢
      by_cases hne : a' ≠ fr.root
      · refine ⟨1, Lm s, by simp only [if_pos hne]; simp [finalL, throw, throwThe, MonadExceptOf.throw],
          by omega, fun hp => absurd hp hnotp, fun m rest => ?_⟩
        rw [show 1 + m = m + 1 by omega, hstep]
        simp only [if_pos hne]; rfl
      · rw [if_neg hne] at hR ⊢
        obtain ⟨c, d, g1, g2, hc⟩ := hwalk b' s hgood hl hR
        refine ⟨c + 1, d, g1, by omega, fun hp => absurd hp hnotp, fun m rest => ?_⟩
        rw [show c + 1 + m = (c + m) + 1 by omega, hstep]
        simp only [if_neg hne, pure_bind']
        rw [hc m rest, bind_assoc']

theorem goodKeep_walkDoubles (f : Nat) : GoodKeep (walkDoubles f) := by
  intro x s s' hg h
  have k := walkDoubles_keeps f x s s' hg.1 hg.2 h
  exact ⟨k.2.2, by rw [k.1]; exact hg.2⟩

theorem actsOf_frame0_length (x : Nat) (s : Store) :
    (actsOf (frame0 x s)).length = 2 * ((pqsOf s x).length + (qpsOf s x).length) ∧
    (pqsOf s x).length + (qpsOf s x).length ≤ Lm s := by
  constructor
  · simp only [actsOf, frame0, List.length_append, List.length_map]; omega
  · unfold pqsOf qpsOf Lm
    have h1 : (List.map (fun e => e.1) (List.filter (fun e => decide (e.1.1 = x)) s.doubles)).length ≤
        s.doubles.length := by
      rw [List.length_map]; exact List.length_filter_le _ _
    have h2 : (List.filter (fun e => decide (e.1 = x)) s.doublesRev).length ≤ s.doublesRev.length :=
      List.length_filter_le _ _
    omega

/-- the first action of a non-empty frame removes a stored double (for a frame with reverse keys
only: by the mirror invariant) -/
theorem present_frame0 (x : Nat) (s : Store) (hi : Inv s) (hne : (actsOf (frame0 x s)).length ≠ 0) :
    Present (frame0 x s) 0 s := by
  unfold Present
  cases hp : pqsOf s x with
  | cons k t =>
    refine ⟨k.1, k.2, by simp [actsOf, frame0, hp], ?_⟩
    have : k ∈ pqsOf s x := by rw [hp]; exact List.mem_cons_self
    exact (mem_pqsOf.mp this).1
  | nil =>
    cases hq : qpsOf s x with
    | cons k t =>
      refine ⟨k.2, k.1, by simp [actsOf, frame0, hp, hq], ?_⟩
      have : k ∈ qpsOf s x := by rw [hq]; exact List.mem_cons_self
      exact ((mem_qpsOf hi).mp this).1
    | nil =>
      exfalso
      apply hne
      simp [actsOf, frame0, hp, hq]

theorem bpush_walkDoubles : ∀ (f : Nat), BPush (walkDoubles f) := by
  intro f
  induction f with
  | zero => intro x s _ h; simp only [walkDoubles] at h; exact absurd rfl h
  | succ f ih =>
    intro x s hgood hne
    rw [walkDoubles_acts] at hne ⊢
    rw [walkFrame_eq]
    by_cases hc : x + 1 ≥ W32
    · rw [if_pos hc]
      refine ⟨0, Lm s, by simp [finalL, throw, throwThe, MonadExceptOf.throw], by omega, fun m below => ?_⟩
      rw [if_pos hc]; rfl
    · rw [if_neg hc] at hne ⊢
      have hdrop : (actsOf (frame0 x s)).drop 0 = actsOf (frame0 x s) := List.drop_zero
      obtain ⟨hlen, hk⟩ := actsOf_frame0_length x s
      obtain ⟨c, d, e1, e2, e3, e4⟩ := frame_simB ih (goodKeep_walkDoubles f) (frame0 x s) (Lm s)
        (Kf (Lm s - 1)) (fun l hl => Kf_mono (by omega)) _ 0 s rfl hgood
        (fun h0 => Or.inr ⟨Nat.le_refl _, present_frame0 x s hgood.1 (by simpa using h0)⟩)
        (by rw [hdrop]; exact hne)
      rw [hdrop] at e1 e4
      refine ⟨c, d, e1, ?_, fun m below => ?_⟩
      · simp only [Nat.sub_zero] at e2
        by_cases h0 : (actsOf (frame0 x s)).length = 0
        · rw [h0] at e2
          have := Nat.mul_le_mul_right d (Kf_mono (Nat.sub_le (Lm s) 1))
          omega
        · have hp := present_frame0 x s hgood.1 h0
          have hd : 1 ≤ d := e3 hp
          obtain ⟨p', q', _, hdk⟩ := hp
          have hL := dkey_pos hdk
          obtain ⟨j, hj⟩ : ∃ j, Lm s = j + 1 := ⟨Lm s - 1, by omega⟩
          rw [hj] at e2 hk ⊢
          simp only [Nat.add_sub_cancel] at e2
          rw [Kf_succ, Nat.add_mul]
          have h4 : 4 * (j + 1) ≤ 4 * (j + 1) * d := Nat.le_mul_of_pos_right _ hd
          omega
      · rw [if_neg hc]
        simp only [pure_bind']
        exact e4 m below

/-- Iteration bound: in a store satisfying `Inv` (with `n ≤ 2^512`), whenever the recursive walk
returns something other than "out of fuel", the explicit-stack loop returns the same within
`Store.iterFuel` iterations. -/
theorem walkStack_bound {f root : Nat} {s : Store} {R : M Store} {F : Nat} (hg : Good s)
    (h : walkDoubles f root s = R) (hR : R ≠ .error .fuel) (hF : s.iterFuel ≤ F) :
    walkStack F root s = R := by
  obtain ⟨c, d, e1, e2, e3⟩ := bpush_walkDoubles f root s hg (by rw [h]; exact hR)
  have hd : d ≤ Lm s := by omega
  have hc : c ≤ F := by
    rw [iterFuel_eq] at hF
    have := Nat.mul_le_mul_left (Kf (Lm s)) hd
    rw [Nat.mul_comm (Lm s)] at hF
    omega
  have := e3 (F - c) []
  rw [show c + (F - c) = F by omega] at this
  unfold walkStack
  rw [this, h]
  cases R with
  | error e => rfl
  | ok a => show walkIter (F - c) [] a = _; cases (F - c) <;> rfl

/-! ### `add`: the explicit-stack formulation returns what the recursive one returns -/

theorem idWalk_keeps : ∀ root s s', Inv s → s.n ≤ X512 → idWalk root s = .ok s' → Keeps s s' := by
  intro root s s' hi _ h
  simp only [idWalk, pure_eq_ok] at h
  rw [← h]; exact Keeps.refl hi

/-- Inside the validity contract, on a store satisfying `Inv`: whatever the recursive `add` returns
(other than "out of recursion fuel") the explicit-stack `add` returns, its `while` loops staying
within `Store.iterFuel` iterations. -/
theorem addStack_of_add {r : Relation} {pq : Option (Nat × Nat)} {s : Store} {R : M Store}
    (hi : Inv s) (hn : s.n ≤ X512) (hin : InputOK s.n r pq) (h : add r pq s = R)
    (hR : R ≠ .error .fuel) : addStack r pq s = R := by
  obtain ⟨hrt, hrv, hrn, hpair⟩ := hin
  rw [add_eq_addWith] at h
  rw [addStack_eq_addWith]
  unfold addWith at h ⊢
  split
  · rename_i hc; rw [if_pos hc] at h; exact h
  · rename_i hx
    rw [if_neg hx] at h
    simp only [not_not] at hx
    split
    · rename_i hc1; rw [if_pos hc1] at h; exact h
    · rename_i hc1
      rw [if_neg hc1] at h
      split
      · rename_i hlt
        rw [if_pos hlt] at h
        have hi0 : Inv { s with nPartials := s.nPartials + 1 } := ⟨hi.cyc, hi.par, hi.dbl, hi.rev⟩
        cases hcs : combineSingle r { s with nPartials := s.nPartials + 1 } with
        | error e => rw [hcs] at h; exact h
        | ok res =>
          rw [hcs] at h
          simp only [ok_bind] at h ⊢
          have hk0 : Keeps s { s with nPartials := s.nPartials + 1 } := ⟨rfl, rfl, hi0⟩
          have hk1 : Keeps s res.2 :=
            Keeps.trans hk0
              (combineSingle_keeps (done := res.1) (s' := res.2) hcs hi0 hn hrt hrn hrv hx)
          split
          · rename_i hd; rw [if_pos hd] at h; exact h
          · rename_i hd
            rw [if_neg hd] at h
            cases hpk : pack r with
            | error e => rw [hpk] at h; exact h
            | ok b =>
              rw [hpk] at h
              simp only [ok_bind] at h ⊢
              split
              · rename_i h32; rw [if_pos h32] at h; exact h
              · rename_i h32
                rw [if_neg h32] at h
                have hk2 : Keeps s (res.2.setPartial r.cofactor b) := by
                  refine hk1.trans (keeps_setPartial hk1.2.2 hc1 (by omega) ?_)
                  rw [hk1.1]
                  exact goodP_of_pack hpk hrt hrn (lt_of_lt_of_le hx hn) hrv
                exact walkStack_bound ⟨hk2.2.2, by rw [hk2.1]; exact hn⟩ h hR (Nat.le_refl _)
      · rename_i hlt
        rw [if_neg hlt] at h
        split
        · exact h
        · rename_i p q
          simp only at h
          obtain ⟨hc, hp1, hq1⟩ := hpair p q rfl
          split
          · rename_i h32; rw [if_pos h32] at h; exact h
          · rename_i h32
            rw [if_neg h32] at h
            have hp32 : p < W32 := by omega
            have hq32 : q < W32 := by omega
            have hi0 : Inv { s with nDoubles := s.nDoubles + 1 } := ⟨hi.cyc, hi.par, hi.dbl, hi.rev⟩
            simp only [combineDouble_eq_step, bind_assoc'] at h ⊢
            cases hst : combineDoubleStep r p q { s with nDoubles := s.nDoubles + 1 } with
            | error e => rw [hst] at h; exact h
            | ok res =>
              rw [hst] at h
              simp only [ok_bind] at h ⊢
              obtain ⟨hd, hr⟩ := combineDoubleStep_lists hst
              obtain ⟨ok, nx, s2⟩ := res
              cases nx with
              | none => exact h
              | some x =>
                simp only [afterStep] at h ⊢
                simp only at hd hr
                -- the store in which the walk is requested satisfies the invariant
                have hcd : combineDouble idWalk r p q { s with nDoubles := s.nDoubles + 1 } = .ok (ok, s2) := by
                  rw [combineDouble_eq_step, hst]; rfl
                have hk2 := combineDouble_keeps idWalk_keeps hcd hi0 hn hrt hrn hrv hc hp1 hq1 hp32 hq32
                have hg2 : Good s2 := ⟨hk2.2.2, by rw [hk2.1]; exact hn⟩
                have hfuel : s2.iterFuel ≤ ({ s with nDoubles := s.nDoubles + 1 } : Store).iterFuel := by
                  unfold Store.iterFuel
                  simp only
                  rw [hd, hr]
                cases hW : walkDoubles ({ s with nDoubles := s.nDoubles + 1 } : Store).fuel x s2 with
                | error e =>
                  rw [hW] at h
                  have hne : (Except.error e : M Store) ≠ .error .fuel := by
                    intro hcx; rw [hcx] at h; exact hR h.symm
                  rw [walkStack_bound hg2 hW hne hfuel]
                  exact h
                | ok s3 =>
                  rw [hW] at h
                  rw [walkStack_bound hg2 hW (by intro hcx; cases hcx) hfuel]
                  exact h

/-- `add_no_panic` for the explicit-stack formulation: only the `u64` counter overflow is left -/
theorem addStack_np_full {r : Relation} {pq : Option (Nat × Nat)} {s : Store} (hi : Inv s)
    (hi2 : Inv2 s) (hn : s.n ≤ X512) (hin : InputOK2 s r pq) : NP (addStack r pq s) := by
  have hnp := add_np hi hi2 hn hin
  have hR : add r pq s ≠ .error .fuel := by
    intro hc; have := hnp _ hc; cases this
  rw [addStack_of_add hi hn hin.base rfl hR]
  exact hnp

theorem runHistoryStack_np_full : ∀ (ops : List (Relation × Option (Nat × Nat))) (s : Store),
    Inv s → Inv2 s → s.n ≤ X512 → HistoryOK2 s.n s.maxlarge ops → NP (runHistoryStack ops s) := by
  intro ops
  induction ops with
  | nil => intro s _ _ _ _; exact NP_pure _
  | cons op t ih =>
    obtain ⟨r, pq⟩ := op
    intro s hi hi2 hn hok
    have hin := hok (r, pq) List.mem_cons_self s rfl rfl
    unfold runHistoryStack
    refine NP_bind (addStack_np_full hi hi2 hn hin) (fun s1 hs1 => ?_)
    have hk := addStack_keeps hs1 hi hn hin.base
    refine ih s1 hk.2.2 (addStack_inv2 hs1 hi hi2 hn hin) (by rw [hk.1]; exact hn) ?_
    intro op hop s' h1 h2
    exact hok op (List.mem_cons_of_mem _ hop) s' (by rw [h1, hk.1]) (by rw [h2, hk.2.1])

/-- the whole explicit-stack history equals the recursive one (inside the validity contract) -/
theorem runHistoryStack_of_run : ∀ (ops : List (Relation × Option (Nat × Nat))) (s : Store) (R : M Store),
    Inv s → s.n ≤ X512 → HistoryOK s.n ops → runHistory ops s = R → R ≠ .error .fuel →
    runHistoryStack ops s = R := by
  intro ops
  induction ops with
  | nil => intro s R _ _ _ h _; exact h
  | cons op t ih =>
    obtain ⟨r, pq⟩ := op
    intro s R hi hn hok h hR
    have hin := hok (r, pq) List.mem_cons_self
    unfold runHistory at h
    unfold runHistoryStack
    cases ha : add r pq s with
    | error e =>
      rw [ha] at h
      rw [addStack_of_add hi hn hin ha (by intro hc; rw [hc] at h; exact hR h.symm)]
      exact h
    | ok s1 =>
      rw [ha] at h
      rw [addStack_of_add hi hn hin ha (by intro hc; cases hc)]
      have hk := add_keeps ha hi hn hin
      exact ih s1 R hk.2.2 (by rw [hk.1]; exact hn)
        (fun op hop => by rw [hk.1]; exact hok op (List.mem_cons_of_mem _ hop)) h hR

end Ymq.Relations
