import Ymq.Drv.ClassGroup
import Ymq.Model.ClassGroupFilter

/-
Driver ops for the model of `RelFilterSparse` (property C18). Formats of harness/src/ops_classgroup.rs:
relations `p^e.p^e/L1/L2` separated by `;`; the state dump is
`rows=r;r | weight=p:w,.. | nonzero=p:i+i,.. | removed=p=r;.. | skip=.. | wmin=.. nextelims=.. nzrows=.. nzcoeffs=..`
-/
namespace Ymq.Drv
open Ymq.ClassGroup Ymq.ClassGroup.Filter

namespace RF

def showRow (r : Row) : String := if r.isEmpty then "-" else ".".intercalate (r.map CG.showFac)

def showDump (s : FSt) : String :=
  let rows := CG.joinOr ";" (s.rows.map showRow)
  let w := CG.joinOr "," (s.weight.map fun (p, c) => s!"{p}:{c}")
  let nz := CG.joinOr "," (s.nonzero.map fun (p, l) => s!"{p}:{CG.joinOr "+" (l.map toString)}")
  let rm := CG.joinOr ";" (s.removed.map fun (p, r) => s!"{p}={showRow r}")
  s!"rows={rows} | weight={w} | nonzero={nz} | removed={rm} | skip={showList s.skip} | wmin={s.wmin} nextelims={showList s.nextelims} nzrows={s.nonzeroRows} nzcoeffs={s.nonzeroCoeffs}"

def parseRels (s : String) : Option (List Rel) :=
  if s = "-" then some [] else (s.splitOn ";").mapM CG.parseRel

end RF

open RF in
def handleRelFilter : Handler
  | ["rf_pivots", steps, rels] => do
    let steps ← parseNat steps; let rels ← parseRels rels
    some (match pivots steps (FSt.new rels) 0 with
      | none => "panic"
      | some (s, n) => s!"{showDump s} | n={n}")
  | ["rf_dense", rels] => do
    let rels ← parseRels rels
    some (match filterDense rels with
      | none => "panic"
      | some (s, d) => s!"{showDump s} | dups={d}")
  | ["rf_rowsub", i, j, c, rels] => do
    let i ← parseNat i; let j ← parseNat j; let c ← parseInt c; let rels ← parseRels rels
    some (match (FSt.new rels).rowsub i j c with
      | .panic => "panic"
      | .ovf _ => "overflow"
      | .ok s => showDump s)
  | ["rf_trim", count, rels] => do
    let count ← parseNat count; let rels ← parseRels rels
    some (match (FSt.new rels).trim count with
      | none => "panic"
      | some (s, t) => s!"{showDump s} | trimmed={t}")
  | _ => none

end Ymq.Drv
