/-
Model of `ecm128::ecm_curve` (src/ecm128.rs), one run of the 128-bit ECM on one curve, end to end, and of the
curve loop of `ecm128::ecm` around it.

Line by line: stage 1 (`for &f in sb.factors { fg = scalar64_mul(f, g); if fg.x == 0 { gcd exit / None } g = fg }`,
only the 64-bit blocks are used), the gcd exit after it, `assert!(c.is_valid(&c.ext(&g)))`, the baby steps (`gaps`
starts as `[dblext(g), dblext(dblext(g).proj())]` and is grown on demand by `add(gaps[0], gaps.last)`; the walk is the
one of `ecm::ecm_curve`: `EcmCurve.babyLoop`), the giant steps (`dg = scalar64_mul(d1, g)`, `dblext(dg)`, then
`for _ in 2..d2 { gg = add(gg, ext(dg)) }`), the two-pass normalisation of `y` (`ExpModn.ynorm`), the row-wise product
of differences, the final gcd and the returned pair.

The point operations are parameters (`Ops128`; the driver instantiates them with the translated formulas
`e128*` of Gen/Curves.lean, the theorems with a group law); `scalar64_mul` is `Chain.scalar64Mul128`.
Residues are abstract: `xv` / `val` read a coordinate as a number whose gcd with `n` the routine takes (the routine
takes the gcd of the Montgomery word; `R` is a unit modulo the odd `n`, so the gcd is the one of the residue: C07).
`none` = a Rust panic. No Mathlib import: linked into the native driver.
-/
import Ymq.Model.EcmCurve

namespace Ymq.Ecm128Curve
open Ymq.Chain Ymq.EcmCurve

/-- the point operations of `ecm128::Curve` that `ecm_curve` / `scalar64_mul` call -/
structure Ops128 (P E : Type) where
  /-- `Point(0, one, one)` (returned by `scalar64_mul` for a zero scalar) -/
  zero : P
  ext : P → E
  /-- `ExtPoint::proj` -/
  proj : E → P
  double : P → P
  dblext : P → E
  add : E → E → E
  dbladd : P → E → P
  /-- `gap.0 = n - gap.0; gap.3 = n - gap.3` -/
  neg : E → E

/-- `Curve` (a = -1) as point operations: the formulas translated from src/ecm128.rs (Gen/Curves.lean); `negE` is the
coordinate negation of `scalar64_mul` -/
def curveOps128 {R : Type} [Add R] [Sub R] [Mul R] [Zero R] [One R] [NatCast R] (g : Ymq.Gen.Curves.Pt R)
    (negE : Ymq.Gen.Curves.Ext R → Ymq.Gen.Curves.Ext R) : Ops128 (Ymq.Gen.Curves.Pt R) (Ymq.Gen.Curves.Ext R) where
  zero := ⟨0, 1, 1⟩
  ext := Ymq.Gen.Curves.e128Ext g
  proj := Ymq.Gen.Curves.Ext.toProj
  double := Ymq.Gen.Curves.e128Double g
  dblext := Ymq.Gen.Curves.e128Dblext g
  add := Ymq.Gen.Curves.e128Add g
  dbladd := Ymq.Gen.Curves.e128Dbladd g
  neg := negE

section
variable {P E X : Type}

/-- `c.scalar64_mul(k, &p)` -/
def Ops128.mul (o : Ops128 P E) (k : Nat) (p : P) : Option P :=
  scalar64Mul128 o.zero o.ext o.proj o.double o.dblext o.add o.dbladd o.neg k p

/-- the same operations in the shape the loops of `ecm::ecm_curve` take them (`babyLoop`, `giantLoop` use `addext` and
`toProj` only; `addp`/`subp` are what the fused `dbladd` stands for) -/
def Ops128.asOps (o : Ops128 P E) : Ops P E where
  zero := o.zero
  toExt := o.ext
  toProj := o.proj
  double := o.double
  dblext := o.dblext
  addext := o.add
  addp := fun a b => o.proj (o.add a b)
  subp := fun a b => o.proj (o.add a (o.neg b))

/-- `let d = gcd(x, n); if d > 1 && d < n { return Some((d, n / d)) }` (the value returned, `none` = go on) -/
def gcdExit (n x : Nat) : Option (Nat × Nat) :=
  let d := Nat.gcd x n
  if 1 < d ∧ d < n then some (d, n / d) else none

/-! ### stage 1 -/

/-- `for &f in sb.factors.iter() { .. }` and the gcd after the loop -/
def stage1 (o : Ops128 P E) (n : Nat) (xv : P → Nat) : List Nat → P → Step P
  | [], g =>
    match gcdExit n (xv g) with
    | some r => .ret (some r)
    | none => .go g
  | f :: fs, g =>
    match o.mul f g with
    | none => .panic
    | some fg =>
      if xv fg = 0 then .ret (gcdExit n (xv g))          -- `return Some(..)` or `return None`
      else stage1 o n xv fs fg

/-- the point stage 1 reaches when no exit fires: all blocks applied in order -/
def stage1Point (o : Ops128 P E) : List Nat → P → Option P
  | [], g => some g
  | f :: fs, g =>
    match o.mul f g with
    | none => none
    | some fg => stage1Point o fs fg

/-! ### stage 2 -/

/-- the baby steps: `bs` as in `ecm.rs`, `gaps = [dblext(g), dblext(dblext(g).proj())]`, `bg = ext(g)`,
`assert_eq!(bs[0], 1)`, `steps.push(g)`, then the walk over `bs[1..]` -/
def babySteps (o : Ops128 P E) (d1 : Nat) (g : P) : Option (List P) :=
  match babyIdx d1 with
  | [] => none                                             -- bs[0]
  | b0 :: rest =>
    let g2 := o.dblext g
    let g4 := o.dblext (o.proj g2)
    if b0 ≠ 1 then none else
    (babyLoop o.asOps rest 1 (o.ext g) [g2, g4]).map (g :: ·)

/-- the giant steps: `dg = scalar64_mul(d1, g)`, `dg2 = dblext(dg)`, both pushed, then `for _ in 2..d2` from `dg2` -/
def giantSteps (o : Ops128 P E) (d1 d2 : Nat) (g : P) : Option (List P) :=
  match o.mul d1 g with
  | none => none
  | some dg =>
    let dg2 := o.dblext dg
    some (dg :: o.proj dg2 :: giantLoop o.asOps (o.ext dg) (d2 - 2) dg2)

/-- what `ecm_curve` needs besides the point operations -/
structure Env (P E X : Type) where
  ops : Ops128 P E
  /-- `c.n` -/
  n : Nat
  /-- `g.0 .0` -/
  xv : P → Nat
  /-- `(p.1, p.2)` -/
  yz : P → X × X
  /-- `c.one` -/
  one : X
  mul : X → X → X
  sub : X → X → X
  /-- `buffer.0` -/
  val : X → Nat
  /-- `c.is_valid(..)` -/
  valid : E → Bool

/-- the value of `buffer` after `for pg in gsteps { for pb in bsteps { buffer = buffer * (pg.y - pb.y) } }` -/
def accumulate (mul sub : X → X → X) (bys gys : List X) (one : X) : X :=
  (prodRows mul sub bys gys one).getLast?.getD one

/-- stage 2 of `ecm_curve` from the point `g` reached by stage 1 -/
def stage2 (env : Env P E X) (d1 d2 : Nat) (g : P) : Option (Option (Nat × Nat)) :=
  match babySteps env.ops d1 g with
  | none => none
  | some bsteps =>
    match giantSteps env.ops d1 d2 g with
    | none => none
    | some gsteps =>
      let ys := normY env.mul ((bsteps ++ gsteps).map env.yz)
      let bys := ys.take bsteps.length
      let gys := ys.drop bsteps.length
      some (gcdExit env.n (env.val (accumulate env.mul env.sub bys gys env.one)))

/-- `ecm_curve(c, sb, b2, _)` for `sb.factors = factors`, `stage2_params(b2) = (_, d1, d2)`, `c.gen() = g`:
`none` = panic, `some r` = the value returned -/
def ecmCurve (env : Env P E X) (factors : List Nat) (d1 d2 : Nat) (g : P) : Option (Option (Nat × Nat)) :=
  match stage1 env.ops env.n env.xv factors g with
  | .panic => none
  | .ret r => some r
  | .go g1 =>
    if !env.valid (env.ops.ext g1) then none else        -- assert!(c.is_valid(&c.ext(&g)))
    stage2 env d1 d2 g1

/-- the call as `ecm128::ecm` makes it: `SmoothBase::new(b1, false)` and `stage2_params(b2)` for an integral `b2` -/
def ecmCurveB (env : Env P E X) (b1 b2 : Nat) (g : P) : Option (Option (Nat × Nat)) :=
  match Ymq.SmoothBase.new b1 false, Ymq.Gen.Stage2.stage2Select b2 1 with
  | some (factors, _), some (_, d1, d2) => ecmCurve env factors d1 d2 g
  | _, _ => none

/-! ### the curve loop of `ecm128::ecm` -/

/-- what the selection of one seed gives (`Suyama.select128`, C15): a generator, a factor `p < n`, or nothing -/
inductive Pick (P : Type) where
  | gen (g : P)
  | factor (p : Nat)
  | skip
  | panic

/-- `for seed in 1..=curves { .. }`: the first seed whose selection yields a factor (`return Some((p, n / p))`) or
whose curve run returns `Some`; `None` when no seed does. `run g` = `ecm_curve(&Curve::from_point(n, g), ..)`. -/
def ecmLoop (n : Nat) (pick : Nat → Pick P) (run : P → Option (Option (Nat × Nat))) :
    List Nat → Option (Option (Nat × Nat))
  | [] => some none
  | seed :: rest =>
    match pick seed with
    | .panic => none
    | .factor p => if p = 0 then none else some (some (p, n / p))
    | .skip => ecmLoop n pick run rest
    | .gen g =>
      match run g with
      | none => none
      | some (some r) => some (some r)
      | some none => ecmLoop n pick run rest

/-- `ecm(n, curves, b1, b2, _)` given the selection and the per-curve environment -/
def ecm (n curves : Nat) (pick : Nat → Pick P) (run : P → Option (Option (Nat × Nat))) : Option (Option (Nat × Nat)) :=
  ecmLoop n pick run ((List.range curves).map (· + 1))

end

end Ymq.Ecm128Curve
