/-
Panic sites of `pp1::pp1` (Model/Pp1Impl.lean) that are never reached on the domain `factor()` passes: the power
loop `while pow * p < b1` (overflow of `pow * p` in the checked profile, fuel) for `2 ≤ p < 2^32`, `b1 ≤ 2^32`, hence the
whole body of the stage-1 loop over a sieve block; `assert!(d1 % 6 == 0)` and `debug_assert!(gsteps.len() == d2)` of
stage 2.
-/
import Ymq.Lemmas.Pp1Baby

namespace Ymq.Pp1Impl
open Ymq.ExpModn Ymq.Gen
open Ymq.Pm1Impl (mulm subm onem)

theorem powLoop_some {p b1 : Nat} (hp2 : 2 ≤ p) (hp : p < 2 ^ 32) (hb : b1 ≤ 2 ^ 32) :
    ∀ (f pow : Nat), pow < 2 ^ 32 → 2 ^ (65 - f) ≤ pow → f ≤ 65 → ∃ r, powLoop p b1 f pow = some r
  | 0, pow, hlt, hge, _ => by
    exfalso
    have : (2 : Nat) ^ 32 ≤ 2 ^ (65 - 0) := Nat.pow_le_pow_right (by decide) (by decide)
    omega
  | f + 1, pow, hlt, hge, hf => by
    rw [powLoop]
    have hmul : pow * p < 2 ^ 32 * 2 ^ 32 := Nat.mul_lt_mul'' hlt hp
    rw [if_neg (by rw [show (2 : Nat) ^ 64 = 2 ^ 32 * 2 ^ 32 by norm_num]; omega)]
    split
    · rename_i hlt2
      refine powLoop_some hp2 hp hb f (pow * p) (by omega) ?_ (by omega)
      have h2 : 2 ^ (65 - f) = 2 ^ (65 - (f + 1)) * 2 := by
        rw [← Nat.pow_succ]; congr 1; omega
      rw [h2]
      exact Nat.mul_le_mul hge hp2
    · exact ⟨pow, rfl⟩

/-- the body of the stage-1 loop never panics for `2 ≤ p < 2^32`, `b1 ≤ 2^32` -/
theorem step_some (m : Nat) {b1 p : Nat} (s : S1) (hp2 : 2 ≤ p) (hp : p < 2 ^ 32) (hb : b1 ≤ 2 ^ 32) :
    ∃ r, step m b1 s p = some r := by
  obtain ⟨pow, hpow⟩ := powLoop_some hp2 hp hb 65 p hp (by simpa using (by omega : 1 ≤ p)) le_rfl
  unfold step
  rw [hpow]
  simp only
  split
  · exact ⟨_, rfl⟩
  · exact ⟨_, rfl⟩

theorem block_some (m : Nat) {b1 : Nat} (hb : b1 ≤ 2 ^ 32) : ∀ (blk : List Nat) (s : S1),
    (∀ p ∈ blk, 2 ≤ p ∧ p < 2 ^ 32) → ∃ s', block m b1 blk s = some s'
  | [], s, _ => ⟨s, rfl⟩
  | p :: ps, s, h => by
    obtain ⟨⟨s1, fl⟩, hs⟩ := step_some m s (h p List.mem_cons_self).1 (h p List.mem_cons_self).2 hb
    rw [block, hs]
    cases fl
    · exact block_some m hb ps s1 (fun q hq => h q (List.mem_cons_of_mem _ hq))
    · exact ⟨s1, rfl⟩

theorem stage2Vals_some (m g : Nat) {d1 d2 : Nat} (h6 : 6 ∣ d1) (hd2 : 1 ≤ d2) : ∃ vals, stage2Vals m d1 d2 g = some vals := by
  unfold stage2Vals
  rw [if_neg (by omega)]
  simp only
  have hlen : (giantSteps (mulm m) (subm m) (twom m) (cheb m g d1) d2).length = d2 := by
    have := congrArg List.length (giantSteps_idx (mulm m) (subm m) (twom m) (cheb m g d1) d2 hd2)
    simpa using this
  rw [if_neg (by rw [hlen]; simp)]
  exact ⟨_, rfl⟩

end Ymq.Pp1Impl
