/-
Uniqueness of the reduced form in a proper equivalence class (positive definite forms), the second half of Gauss'
theorem, for property C18: a reduced form takes its minimum `a` on nonzero vectors, only at `(±1, 0)` when `a < c`.
-/
import Ymq.Lemmas.ClassGroupReduce
namespace Ymq.ClassGroup

theorem int_sq_ge_one {z : Int} (h : z ≠ 0) : 1 ≤ z * z := by
  have : z ≤ -1 ∨ 1 ≤ z := by omega
  rcases this with h | h <;> nlinarith

theorem xy_form_ge_one {x y : Int} (h : x ≠ 0 ∨ y ≠ 0) : 1 ≤ x * x + y * y - |x * y| := by
  rcases le_or_gt 0 (x * y) with hu | hu
  · rw [abs_of_nonneg hu]
    rcases eq_or_lt_of_le hu with h0 | hpos
    · have : x = 0 ∨ y = 0 := by
        rcases mul_eq_zero.1 h0.symm with h | h
        · exact Or.inl h
        · exact Or.inr h
      rcases this with rfl | rfl
      · have hy : y ≠ 0 := by rcases h with h | h; exact absurd rfl h; exact h
        have := int_sq_ge_one hy; nlinarith
      · have hx : x ≠ 0 := by rcases h with h | h; exact h; exact absurd rfl h
        have := int_sq_ge_one hx; nlinarith
    · nlinarith [mul_self_nonneg (x - y)]
  · rw [abs_of_neg hu]
    nlinarith [mul_self_nonneg (x + y)]

/-- lower bound for the values of a reduced form -/
theorem reduced_lower {f : Form} (h : IsReducedPD f) (x y : Int) :
    f.a * (x * x + y * y - |x * y|) + (f.c - f.a) * (y * y) ≤ f.eval x y := by
  obtain ⟨ha, h1, h2, h3, _⟩ := h
  have key : -(f.a * |x * y|) ≤ f.b * (x * y) := by
    rcases le_or_gt 0 (x * y) with hu | hu
    · rw [abs_of_nonneg hu]
      nlinarith [mul_nonneg (by omega : 0 ≤ f.b + f.a) hu]
    · rw [abs_of_neg hu]
      nlinarith [mul_nonneg (by omega : 0 ≤ f.a - f.b) (by omega : 0 ≤ -(x * y))]
  simp only [Form.eval]
  nlinarith

/-- the first coefficient of a reduced form is its minimum on nonzero vectors -/
theorem reduced_min {f : Form} (h : IsReducedPD f) {x y : Int} (hxy : x ≠ 0 ∨ y ≠ 0) : f.a ≤ f.eval x y := by
  have h1 := reduced_lower h x y
  have h2 := xy_form_ge_one hxy
  obtain ⟨ha, _, _, h3, _⟩ := h
  nlinarith [mul_nonneg (by omega : 0 ≤ f.c - f.a) (mul_self_nonneg y), mul_le_mul_of_nonneg_left h2 ha.le]

/-- when `a < c` the minimum is attained at `(±1, 0)` only -/
theorem reduced_min_vectors {f : Form} (h : IsReducedPD f) (hac : f.a < f.c) {x y : Int}
    (hv : f.eval x y = f.a) : y = 0 ∧ (x = 1 ∨ x = -1) := by
  have ha := h.1
  have hy : y = 0 := by
    by_contra hy
    have h1 := reduced_lower h x y
    have h2 := xy_form_ge_one (Or.inr hy : x ≠ 0 ∨ y ≠ 0)
    have h3 := int_sq_ge_one hy
    nlinarith [mul_le_mul_of_nonneg_left h2 ha.le, mul_le_mul_of_nonneg_left h3 (by omega : 0 ≤ f.c - f.a)]
  subst hy
  refine ⟨rfl, ?_⟩
  simp only [Form.eval] at hv
  have hx : x * x = 1 := by
    have : f.a * (x * x - 1) = 0 := by linear_combination hv
    rcases mul_eq_zero.1 this with h | h
    · omega
    · omega
  have : (x - 1) * (x + 1) = 0 := by linear_combination hx
  rcases mul_eq_zero.1 this with h | h
  · left; omega
  · right; omega

/-- the case `a < c` of uniqueness -/
theorem reduced_unique_lt {f g : Form} (hf : IsReducedPD f) (hg : IsReducedPD g) (hac : f.a < f.c)
    (he : PEquiv f g) : f = g := by
  obtain ⟨p, q, r, s, hdet, hfg⟩ := he
  -- g.a = f(p, r) ≥ f.a and f.a = g(s, -r) ≥ g.a
  have hga : g.a = f.eval p r := by rw [hfg]; simp only [Form.act, Form.eval]
  have hpr : p ≠ 0 ∨ r ≠ 0 := by
    by_contra hc
    have hc1 : p = 0 := by by_contra h; exact hc (Or.inl h)
    have hc2 : r = 0 := by by_contra h; exact hc (Or.inr h)
    rw [hc1, hc2] at hdet; omega
  have h1 : f.a ≤ g.a := by rw [hga]; exact reduced_min hf hpr
  have hfa : f.a = g.eval s (-r) := by
    rw [hfg, Form.act_eval]
    have e1 : p * s + q * -r = 1 := by linear_combination hdet
    have e2 : r * s + s * -r = 0 := by ring
    rw [e1, e2]; simp only [Form.eval]; ring
  have hsr : s ≠ 0 ∨ -r ≠ 0 := by
    by_contra hc
    have hc1 : s = 0 := by by_contra h; exact hc (Or.inl h)
    have hc2 : r = 0 := by by_contra h; exact hc (Or.inr (by omega))
    rw [hc1, hc2] at hdet; omega
  have h2 : g.a ≤ f.a := by rw [hfa]; exact reduced_min hg hsr
  have haa : g.a = f.a := by omega
  obtain ⟨hr0, hp1⟩ := reduced_min_vectors hf hac (by rw [← hga, haa] : f.eval p r = f.a)
  subst hr0
  have hps : p * s = 1 := by linear_combination hdet
  have hgb : g.b = f.b + 2 * f.a * (p * q) := by
    rw [hfg]; simp only [Form.act]; linear_combination f.b * hps
  obtain ⟨_, g1, g2, _, _⟩ := hg
  obtain ⟨fa, f1, f2, _, _⟩ := hf
  have hpq : p * q = 0 := by
    by_contra hne
    have : p * q ≤ -1 ∨ 1 ≤ p * q := by omega
    rcases this with h | h
    · nlinarith
    · nlinarith
  have hb : f.b = g.b := by rw [hgb, hpq]; ring
  exact form_ext_disc haa.symm hb (by omega) (PEquiv.disc_eq ⟨p, q, 0, s, hdet, hfg⟩).symm

/-- UNIQUENESS OF THE REDUCED FORM: two properly equivalent reduced positive definite forms are equal -/
theorem reduced_unique' {f g : Form} (hf : IsReducedPD f) (hg : IsReducedPD g) (he : PEquiv f g) : f = g := by
  by_cases h1 : f.a < f.c
  · exact reduced_unique_lt hf hg h1 he
  by_cases h2 : g.a < g.c
  · exact (reduced_unique_lt hg hf h2 he.symm).symm
  -- a = c for both
  have hd := he.disc_eq
  obtain ⟨fa, f1, f2, f3, f4⟩ := hf
  obtain ⟨ga, g1, g2, g3, g4⟩ := hg
  have e1 : f.a = f.c := by omega
  have e2 : g.a = g.c := by omega
  have fb := f4 e1
  have gb := g4 e2
  -- both first coefficients are the minimum of the same set of values
  obtain ⟨p, q, r, s, hdet, hfg⟩ := he
  have hga : g.a = f.eval p r := by rw [hfg]; simp only [Form.act, Form.eval]
  have hpr : p ≠ 0 ∨ r ≠ 0 := by
    by_contra hc
    have hc1 : p = 0 := by by_contra h; exact hc (Or.inl h)
    have hc2 : r = 0 := by by_contra h; exact hc (Or.inr h)
    rw [hc1, hc2] at hdet; omega
  have h1' : f.a ≤ g.a := by rw [hga]; exact reduced_min ⟨fa, f1, f2, f3, f4⟩ hpr
  have hfa : f.a = g.eval s (-r) := by
    rw [hfg, Form.act_eval]
    have e1 : p * s + q * -r = 1 := by linear_combination hdet
    have e2 : r * s + s * -r = 0 := by ring
    rw [e1, e2]; simp only [Form.eval]; ring
  have hsr : s ≠ 0 ∨ -r ≠ 0 := by
    by_contra hc
    have hc1 : s = 0 := by by_contra h; exact hc (Or.inl h)
    have hc2 : r = 0 := by by_contra h; exact hc (Or.inr (by omega))
    rw [hc1, hc2] at hdet; omega
  have h2' : g.a ≤ f.a := by rw [hfa]; exact reduced_min ⟨ga, g1, g2, g3, g4⟩ hsr
  have haa : f.a = g.a := by omega
  have hbb : f.b * f.b = g.b * g.b := by
    simp only [Form.disc] at hd
    rw [← e1, ← e2, ← haa] at hd
    linear_combination -hd
  have hb : f.b = g.b := by
    have : (f.b - g.b) * (f.b + g.b) = 0 := by linear_combination hbb
    rcases mul_eq_zero.1 this with h | h
    · omega
    · omega
  exact form_ext_disc haa hb (by omega) (PEquiv.disc_eq ⟨p, q, r, s, hdet, hfg⟩).symm

theorem isReducedPD_of_prim {D : Int} {f : Form} (h : IsReducedPrim D f) : IsReducedPD f := by
  obtain ⟨_, ha, hb, hc, hs, _⟩ := h
  refine ⟨ha, ?_, by omega, hc, fun e => hs (Or.inr e)⟩
  by_contra hlt
  have hb' : f.b.natAbs = f.a.natAbs := by omega
  have := hs (Or.inl hb')
  omega

end Ymq.ClassGroup
