/-
Word-level model of the number-theoretic transform of `MultiZmodP` (src/arith_fft.rs, property C10):
the root tables built by `MultiZmodP::new`, `addsub_inplace`, `muladdsub_inplace`, `mul`, `div_pow2`,
the recursive `ntt_inplace` (input in bit-reversed order), and `convolve_modn_ntt` (residues by
`from_mint` written to bit-reversed positions, two forward transforms, pointwise product, the
bit-reversal swap loop, inverse transform, `redc` = `_crt` + `zn.redc`).

Level of detail
* a vector of `2^k` elements of `w` residues each (`&[u64]` of `w << k` words in the code) is a
  `List (List Nat)`: element `i` is the slice `v[w*i .. w*(i+1)]`; residue `j` of every element is
  taken modulo `primes[j]` (the code indexes `primes` / `primes_cycle` by the position modulo `w`);
  all residues are Montgomery forms (`R = 2^64`);
* `mg_mul64`, `mg_redc` are the word-exact C07 models (`Ymq.Mg64`); every `u64` addition and
  subtraction of the butterflies is overflow/underflow checked as in the checked profile (`none`);
* `usize::reverse_bits(i) >> (usize::BITS - logsize)` is the reversal `bitrev logsize (i mod 2^logsize)`
  of the `logsize` low bits; `none` for `logsize = 0` (shift by 64 in the checked profile, and
  `assert!(k > 0)` of `ntt_inplace` in both);
* the `debug_assert!` sanity check of the roots at the end of `MultiZmodP::new` is `rootsCheck1` (proved to pass).
No Mathlib import: this file is linked into the native driver.
-/
import Ymq.Model.Crt

namespace Ymq.Crt
open Ymq.Mg64 (W mgMul mgRedc)

/-- reversal of the `k` low bits of `i` -/
def bitrev : Nat → Nat → Nat
  | 0, _ => 0
  | k + 1, i => (i % 2) * 2 ^ k + bitrev k (i / 2)

/-- `ω = (ω * ω) % p`, `c` times -/
def sqTimes (p : Nat) : Nat → Nat → Nat
  | 0, x => x
  | c + 1, x => sqTimes p c (x * x % p)

/-- `ωs[i] = mg_mul64(p_i, g_i^(2^(32 - logsize)) mod p_i, rpowers[i][1])`: the Montgomery form of the
root of order `2^logsize` -/
def omega1 (m : Mzp) (i : Nat) : Option Nat :=
  match Ymq.Gen.Params.NTT_PRIMES[i]?, m.rpowers[i]? with
  | some (_, g), some ri =>
    match ri[1]? with
    | some r2 => mgMul64 (m.primes.getD i 0) (sqTimes (m.primes.getD i 0) (32 - m.k) g) r2
    | none => none
  | _, _ => none

def omegas (m : Mzp) : Option (List Nat) := (List.range m.w).mapM (omega1 m)

/-- `roots[i] = rpowers[i][0]` (`R mod p_i`, the Montgomery form of 1) -/
def one1 (m : Mzp) (i : Nat) : Option Nat :=
  match m.rpowers[i]? with
  | some ri => ri[0]?
  | none => none

/-- element-wise `mg_mul64` of two elements (`w` residues) -/
def mulE (m : Mzp) (x y : List Nat) : Option (List Nat) :=
  (List.range m.w).mapM fun j => mgMul64 (m.primes.getD j 0) (x.getD j 0) (y.getD j 0)

/-- `roots[j] = roots[j-1] · ωs`, `count` more elements after `cur` -/
def rootsIter (m : Mzp) (ws : List Nat) : Nat → List Nat → List (List Nat) → Option (List (List Nat))
  | 0, _, acc => some acc.reverse
  | c + 1, cur, acc =>
    match mulE m cur ws with
    | none => none
    | some nxt => rootsIter m ws c nxt (nxt :: acc)

/-- the `2^logsize` powers `ω^0, ω^1, …` (Montgomery form), element `j` = `roots[j*w .. (j+1)*w]` -/
def rootsBig (m : Mzp) : Option (List (List Nat)) :=
  match omegas m with
  | none => none
  | some ws =>
    match (List.range m.w).mapM (one1 m) with
    | none => none
    | some one => rootsIter m ws (2 ^ m.k - 1) one [one]

/-- `roots_packed[log]`: `2^(log-1)` forward roots `ω_log^idx`, then `2^(log-1)` backward roots
`ω_log^(-idx)` (`ω_log = ω^(2^(logsize - log))`) -/
def packLevel (logsize : Nat) (big : List (List Nat)) (log : Nat) : List (List Nat) :=
  let half := 2 ^ log / 2
  let fwd := (List.range half).map fun idx => big.getD (idx * 2 ^ (logsize - log)) []
  let bwd := if log = 0 then [] else
    (List.range half).map fun idx =>
      if idx = 0 then big.getD 0 [] else big.getD ((2 ^ log - idx) * 2 ^ (logsize - log)) []
  fwd ++ bwd

/-- the sanity check at the end of `MultiZmodP::new` for prime `i`:
`debug_assert!(mg_redc(pi, pi - 2, mg_mul64(pi, roots[((1 << logsize) - 1) * w + i], ωs[i])) == 1)` -/
def rootsCheck1 (m : Mzp) (last ws : List Nat) (i : Nat) : Option Unit :=
  match mgMul64 (m.primes.getD i 0) (last.getD i 0) (ws.getD i 0) with
  | none => none
  | some x =>
    match mgRedc (m.primes.getD i 0) (m.primes.getD i 0 - 2) x with
    | none => none
    | some v => if v = 1 then some () else none                     -- debug_assert!

/-- the field `roots` of `MultiZmodP` (with the `debug_assert!` sanity check of the checked profile) -/
def rootsPacked (m : Mzp) : Option (List (List (List Nat))) :=
  match omegas m, rootsBig m with
  | some ws, some big =>
    match (List.range m.w).mapM (rootsCheck1 m (big.getD (2 ^ m.k - 1) []) ws) with
    | none => none
    | some _ => some ((List.range (m.k + 1)).map (packLevel m.k big))
  | _, _ => none

/-- `(x + y, x + p - y)` each reduced once, with the `u64` checks of the checked profile -/
def addsub1 (p x y : Nat) : Option (Nat × Nat) :=
  if x + y ≥ W ∨ x + p ≥ W ∨ x + p < y then none
  else
    let add := x + y
    let sub := x + p - y
    some (if add ≥ p then add - p else add, if sub ≥ p then sub - p else sub)

/-- `addsub_inplace(x, y)` on two elements -/
def addsubE (m : Mzp) (x y : List Nat) : Option (List Nat × List Nat) :=
  if x.length ≠ y.length ∨ x.length ≠ m.w then none                 -- debug_assert!
  else
    ((List.range m.w).mapM fun j => addsub1 (m.primes.getD j 0) (x.getD j 0) (y.getD j 0)).map List.unzip

/-- one residue of `muladdsub_inplace`: `y ← mg_mul64(p, y, r)`, then the butterfly -/
def muladdsub1 (p x y r : Nat) : Option (Nat × Nat) :=
  match mgMul64 p y r with
  | none => none
  | some yr => addsub1 p x yr

/-- `muladdsub_inplace(x, y, m)` on one element: `y ← y·r`, then the butterfly -/
def muladdsubE (m : Mzp) (x y r : List Nat) : Option (List Nat × List Nat) :=
  ((List.range m.w).mapM fun j =>
    muladdsub1 (m.primes.getD j 0) (x.getD j 0) (y.getD j 0) (r.getD j 0)).map List.unzip

/-- `muladdsub_inplace` over vectors of elements -/
def muladdsubV (m : Mzp) : List (List Nat) → List (List Nat) → List (List Nat) →
    Option (List (List Nat) × List (List Nat))
  | x :: xs, y :: ys, r :: rs =>
    match muladdsubE m x y r, muladdsubV m xs ys rs with
    | some (a, b), some (as, bs) => some (a :: as, b :: bs)
    | _, _ => none
  | _, _, _ => some ([], [])

/-- `div_pow2(x, k)`: `mg_redc(p, p - 2, (x as u128) << (64 - k))` on every residue of an element -/
def divPow2E (m : Mzp) (x : List Nat) (k : Nat) : Option (List Nat) :=
  if k > 64 then none                                               -- 64 - k (u32)
  else (List.range m.w).mapM fun j =>
    mgRedc (m.primes.getD j 0) (m.primes.getD j 0 - 2) (x.getD j 0 * 2 ^ (64 - k) % 2 ^ 128)

/-- `ntt_inplace(v, depth, k, fwd)`; `rts` = the field `roots` -/
def nttInplace (m : Mzp) (rts : List (List (List Nat))) :
    Nat → List (List Nat) → Nat → Bool → Option (List (List Nat))
  | 0, _, _, _ => none                                              -- assert!(k > 0)
  | k + 1, v, depth, fwd =>
    if v.length ≠ 2 ^ (k + 1) then none                             -- assert!(v.len() == self.w << k)
    else if k = 0 then
      match v with
      | [v0, v1] =>
        match addsubE m v0 v1 with
        | none => none
        | some (a, b) =>
          if fwd then some [a, b]
          else
            match divPow2E m a (depth + 1), divPow2E m b (depth + 1) with
            | some a', some b' => some [a', b']
            | _, _ => none
      | _ => none
    else
      let half := 2 ^ k
      match rts[k + 1]? with
      | none => none                                                -- self.roots[k as usize]
      | some rk =>
        let rs := if fwd then rk.take half else rk.drop half
        match nttInplace m rts k (v.take half) (depth + 1) fwd,
              nttInplace m rts k (v.drop half) (depth + 1) fwd with
        | some a, some b =>
          if rs.length ≠ half then none                             -- &self.roots[k][..w * half]
          else (muladdsubV m a b rs).map fun r => r.1 ++ r.2
        | _, _ => none

/-- `mzp.mul(x, y)` on vectors of elements -/
def mulV (m : Mzp) : List (List Nat) → List (List Nat) → Option (List (List Nat))
  | x :: xs, y :: ys =>
    match mulE m x y, mulV m xs ys with
    | some z, some zs => some (z :: zs)
    | _, _ => none
  | [], [] => some []
  | _, _ => none                                                    -- debug_assert!(x.len() == y.len())

/-- the loop `for i in 0..size { irev = …; if i < irev { swap(f[i], f[irev]) } }` from `i` on -/
def swapLoop (logsize : Nat) : Nat → Nat → List (List Nat) → List (List Nat)
  | 0, _, v => v
  | c + 1, i, v =>
    let irev := bitrev logsize i
    let v' := if i < irev then (v.set i (v.getD irev [])).set irev (v.getD i []) else v
    swapLoop logsize c (i + 1) v'

/-- residues of the operand written to the bit-reversed positions of a zero vector -/
def scatterRev (m : Mzp) (logsize : Nat) : List (List Nat) → Nat → List (List Nat) → Option (List (List Nat))
  | [], _, f => some f
  | x :: xs, i, f =>
    match fromMint m x with
    | none => none
    | some z => scatterRev m logsize xs (i + 1) (f.set (bitrev logsize (i % 2 ^ logsize)) z)

def log2Exact : Nat → Nat → Option Nat
  | 0, _ => none
  | f + 1, l => if l = 1 then some 0 else if l % 2 = 1 ∨ l = 0 then none else (log2Exact f (l / 2)).map (· + 1)

/-- `convolve_modn_ntt(mzp, size, p1, p2, res, offset)` with `res.len() = reslen`; the operands are the
8-word vectors of the `MInt`s (Montgomery residues modulo `n`); `rinv = R⁻¹ mod n` for `zn.redc` -/
def convolveNtt (m : Mzp) (rts : List (List (List Nat))) (rinv size : Nat) (p1 p2 : List (List Nat))
    (reslen offset : Nat) : Option (List Nat) :=
  match log2Exact 64 size with
  | none => none                                                    -- assert_eq!(size & (size - 1), 0)
  | some logsize =>
    if m.k < logsize then none                                      -- assert!(mzp.k >= logsize)
    else if logsize = 0 then none                                   -- shift by 64 / assert!(k > 0)
    else
      let zero := List.replicate size (List.replicate m.w 0)
      match scatterRev m logsize p1 0 zero, scatterRev m logsize p2 0 zero with
      | some f1, some f2 =>
        match nttInplace m rts logsize f1 0 true, nttInplace m rts logsize f2 0 true with
        | some g1, some g2 =>
          match mulV m g1 g2 with
          | none => none
          | some h =>
            match nttInplace m rts logsize (swapLoop logsize size 0 h) 0 false with
            | none => none
            | some r =>
              (List.range reslen).mapM fun t =>
                if offset + t < size then redc m rinv (r.getD (offset + t) []) else some 0
        | _, _ => none
      | _, _ => none

end Ymq.Crt
