/-
`SparseMat::mulp`, one lane: under the bound the code assumes (row weight × entry bound `< 2^63`)
no `i64` operation overflows and the lane computes the sparse row–vector products modulo `p`.
-/
import Ymq.Model.Wiedemann
import Mathlib.Tactic.Ring
import Mathlib.Tactic.Linarith
import Mathlib.Algebra.Order.Ring.Int

namespace Ymq.Wied

/-- `Σ_j M_ij v_j` over ℤ for one row -/
def rowDot (col : Nat → Nat) (r : Row) : Int := sumSel (fun _ => true) (fun je => je.2 * (col je.1 : Int)) r

theorem I63_eq : I63 = 2 ^ 63 := by norm_num [I63]

theorem chkI64_some {z : Int} (h1 : -I63 ≤ z) (h2 : z < I63) : chkI64 z = some z := by
  simp [chkI64, h1, h2]

theorem asI64_small {a : Nat} (h : (a : Int) < I63) : asI64 a = a := by simp [asI64, h]

/-- generic accumulation pass: no overflow while the running value stays inside the budget -/
theorem accPass_spec (sel : Int → Bool) (term : Nat → Int → Option Int) (col : Nat → Nat)
    (c wp wn : Nat × Int → Int) :
    ∀ (r : Row) (x : Int),
      (∀ je ∈ r, sel je.2 = true → term (col je.1) je.2 = some (c je) ∧ -wn je ≤ c je ∧
        c je ≤ wp je ∧ 0 ≤ wp je ∧ 0 ≤ wn je) →
      -I63 ≤ x - sumSel sel wn r → x + sumSel sel wp r < I63 →
      accPass sel term col r x = some (x + sumSel sel c r)
  | [], x, _, _, _ => by simp [accPass, sumSel]
  | (j, e) :: r, x, h, h1, h2 => by
    have hn : ∀ (r : Row), (∀ je ∈ r, sel je.2 = true → 0 ≤ wp je ∧ 0 ≤ wn je) →
        0 ≤ sumSel sel wp r ∧ 0 ≤ sumSel sel wn r := by
      intro r
      induction r with
      | nil => intro _; simp [sumSel]
      | cons a t ih =>
        intro ha
        obtain ⟨i1, i2⟩ := ih (fun je hje => ha je (List.mem_cons_of_mem _ hje))
        unfold sumSel
        by_cases hs : sel a.2 = true
        · obtain ⟨a1, a2⟩ := ha a (List.mem_cons_self) hs
          simp only [hs, if_true]; constructor <;> linarith
        · simp only [hs]; simpa using ⟨i1, i2⟩
    obtain ⟨t1, t2⟩ := hn r (fun je hje hs => ⟨(h je (List.mem_cons_of_mem _ hje) hs).2.2.2.1,
      (h je (List.mem_cons_of_mem _ hje) hs).2.2.2.2⟩)
    unfold accPass
    by_cases hs : sel e = true
    · obtain ⟨g1, g2, g3, g4, g5⟩ := h (j, e) List.mem_cons_self hs
      simp only [sumSel, hs, if_true] at h1 h2 ⊢
      simp only at g1 g2 g3
      rw [g1]
      simp only
      rw [chkI64_some (by linarith) (by linarith)]
      simp only
      rw [accPass_spec sel term col c wp wn r (x + c (j, e))
        (fun je hje => h je (List.mem_cons_of_mem _ hje)) (by linarith) (by linarith)]
      congr 1; ring
    · simp only [sumSel, hs] at h1 h2 ⊢
      simp only [Bool.false_eq_true, if_false, zero_add] at h1 h2 ⊢
      exact accPass_spec sel term col c wp wn r x
        (fun je hje => h je (List.mem_cons_of_mem _ hje)) h1 h2


theorem sumSel_bounds (sel : Int → Bool) (c wp wn : Nat × Int → Int) :
    ∀ r : Row, (∀ je ∈ r, sel je.2 = true → -wn je ≤ c je ∧ c je ≤ wp je) →
      -sumSel sel wn r ≤ sumSel sel c r ∧ sumSel sel c r ≤ sumSel sel wp r
  | [], _ => by simp [sumSel]
  | je :: r, h => by
    obtain ⟨i1, i2⟩ := sumSel_bounds sel c wp wn r (fun a ha => h a (List.mem_cons_of_mem _ ha))
    unfold sumSel
    by_cases hs : sel je.2 = true
    · obtain ⟨a1, a2⟩ := h je List.mem_cons_self hs
      simp only [hs, if_true]; constructor <;> linarith
    · simp only [hs, Bool.false_eq_true, if_false, zero_add]; exact ⟨i1, i2⟩

theorem sumSel_zero (sel : Int → Bool) : ∀ r : Row, sumSel sel (fun _ => 0) r = 0
  | [] => rfl
  | je :: r => by unfold sumSel; rw [sumSel_zero sel r]; split <;> simp

def selP : Int → Bool := fun e => e == 1
def selM : Int → Bool := fun e => e == -1
def selX : Int → Bool := fun e => e != 1 && e != -1
def pw (e : Int) : Int := if 0 < e then e else 0
def nw (e : Int) : Int := if e < 0 then -e else 0

theorem sel_cases (e : Int) :
    (e = 1 ∧ selP e = true ∧ selM e = false ∧ selX e = false) ∨
    (e = -1 ∧ selP e = false ∧ selM e = true ∧ selX e = false) ∨
    (e ≠ 1 ∧ e ≠ -1 ∧ selP e = false ∧ selM e = false ∧ selX e = true) := by
  by_cases h1 : e = 1
  · left; subst h1; decide
  · by_cases h2 : e = -1
    · right; left; subst h2; decide
    · right; right
      refine ⟨h1, h2, ?_, ?_, ?_⟩ <;> simp [selP, selM, selX, h1, h2]

theorem rowDot_split (col : Nat → Nat) : ∀ r : Row,
    rowDot col r = sumSel selP (fun je => (col je.1 : Int)) r +
      sumSel selM (fun je => -(col je.1 : Int)) r +
      sumSel selX (fun je => je.2 * (col je.1 : Int)) r
  | [] => by simp [rowDot, sumSel]
  | je :: r => by
    have ih := rowDot_split col r
    unfold rowDot at ih ⊢
    unfold sumSel
    rw [ih]
    rcases sel_cases je.2 with ⟨h, a, b, c⟩ | ⟨h, a, b, c⟩ | ⟨_, _, a, b, c⟩
    · simp only [a, b, c, if_true, Bool.false_eq_true, if_false]; rw [h]; ring
    · simp only [a, b, c, if_true, Bool.false_eq_true, if_false]; rw [h]; ring
    · simp only [a, b, c, if_true, Bool.false_eq_true, if_false]; ring

theorem posW_split (Bd : Int) : ∀ r : Row,
    posW r * Bd = sumSel selP (fun _ => Bd) r + sumSel selX (fun je => pw je.2 * Bd) r
  | [] => by simp [posW, sumSel]
  | je :: r => by
    have ih := posW_split Bd r
    unfold posW at ih ⊢
    unfold sumSel
    rw [add_mul, ih]
    rcases sel_cases je.2 with ⟨h, a, b, c⟩ | ⟨h, a, b, c⟩ | ⟨_, _, a, b, c⟩
    · simp only [a, b, c, if_true, Bool.false_eq_true, if_false]; rw [h]; norm_num <;> try ring
    · simp only [a, b, c, if_true, Bool.false_eq_true, if_false]; rw [h]; norm_num <;> try ring
    · simp only [a, b, c, if_true, Bool.false_eq_true, if_false, pw]; ring

theorem negW_split (Bd : Int) : ∀ r : Row,
    negW r * Bd = sumSel selM (fun _ => Bd) r + sumSel selX (fun je => nw je.2 * Bd) r
  | [] => by simp [negW, sumSel]
  | je :: r => by
    have ih := negW_split Bd r
    unfold negW at ih ⊢
    unfold sumSel
    rw [add_mul, ih]
    rcases sel_cases je.2 with ⟨h, a, b, c⟩ | ⟨h, a, b, c⟩ | ⟨_, _, a, b, c⟩
    · simp only [a, b, c, if_true, Bool.false_eq_true, if_false]; rw [h]; norm_num <;> try ring
    · simp only [a, b, c, if_true, Bool.false_eq_true, if_false]; rw [h]; norm_num <;> try ring
    · simp only [a, b, c, if_true, Bool.false_eq_true, if_false, nw]; ring

theorem sumSel_nonneg (sel : Int → Bool) (f : Nat × Int → Int) (hf : ∀ je, 0 ≤ f je) :
    ∀ r : Row, 0 ≤ sumSel sel f r
  | [] => le_refl _
  | je :: r => by
    unfold sumSel
    have := sumSel_nonneg sel f hf r
    have := hf je
    split <;> linarith

theorem sumSel_mem_le (sel : Int → Bool) (f : Nat × Int → Int) (hf : ∀ je, 0 ≤ f je) :
    ∀ (r : Row) (a : Nat × Int), a ∈ r → sel a.2 = true → f a ≤ sumSel sel f r
  | je :: r, a, ha, hs => by
    unfold sumSel
    rcases List.mem_cons.mp ha with rfl | ha'
    · have := sumSel_nonneg sel f hf r
      simp only [hs, if_true]; linarith
    · have := sumSel_mem_le sel f hf r a ha' hs
      have := hf je
      split <;> linarith

theorem pw_nonneg (e : Int) : 0 ≤ pw e := by unfold pw; split <;> omega
theorem nw_nonneg (e : Int) : 0 ≤ nw e := by unfold nw; split <;> omega

/-- **one row of `mulp`**: if every entry of the lane's vector is at most `Bd < 2^63` and the
positive and the negative weight of the row times `Bd` stay below `2^63` (the code's assumption
`p * norm < 2^63` with `Bd = p - 1`), no `i64` operation overflows and the row yields
`(Σ_j M_ij v_j) mod p`. -/
theorem rowLane_spec (col : Nat → Nat) (Bd : Int) (hB0 : 0 ≤ Bd) (hcol : ∀ j, (col j : Int) ≤ Bd)
    (p : Nat) (hp0 : 0 < p) (hp : (p : Int) < I63) (r : Row)
    (hpos : posW r * Bd < I63) (hneg : negW r * Bd < I63) :
    rowLane col p r = some (rowDot col r % (p : Int)).toNat := by
  have hBI : Bd < I63 ∨ r = [] ∨ True := Or.inr (Or.inr trivial)
  have hP := posW_split Bd r
  have hN := negW_split Bd r
  have nP := sumSel_nonneg selP (fun _ => Bd) (fun _ => hB0) r
  have nM := sumSel_nonneg selM (fun _ => Bd) (fun _ => hB0) r
  have nXp := sumSel_nonneg selX (fun je => pw je.2 * Bd) (fun je => mul_nonneg (pw_nonneg _) hB0) r
  have nXn := sumSel_nonneg selX (fun je => nw je.2 * Bd) (fun je => mul_nonneg (nw_nonneg _) hB0) r
  have hcI : ∀ j, (col j : Int) < I63 ∨ Bd ≥ I63 := fun j => by
    by_cases h : Bd < I63
    · left; exact lt_of_le_of_lt (hcol j) h
    · right; exact not_lt.mp h
  -- entries with a selected coefficient force Bd < I63 through the weights
  have hc0 : ∀ j, (0 : Int) ≤ col j := fun j => Int.natCast_nonneg _
  -- pass 1
  have b1 := sumSel_bounds selP (fun je => (col je.1 : Int)) (fun _ => Bd) (fun _ => 0) r
    (fun je _ _ => ⟨by have := hc0 je.1; simpa using this, hcol je.1⟩)
  rw [sumSel_zero] at b1
  have e1 : accP1 col r 0 = some (0 + sumSel selP (fun je => (col je.1 : Int)) r) := by
    unfold accP1
    apply accPass_spec selP _ col (fun je => (col je.1 : Int)) (fun _ => Bd) (fun _ => 0) r 0
    · intro je hje hs
      have hw := sumSel_mem_le selP (fun _ => Bd) (fun _ => hB0) r je hje hs
      have : (col je.1 : Int) < I63 := by have := hcol je.1; linarith
      refine ⟨by show some (asI64 (col je.1)) = some _; rw [asI64_small this],
        by have := hc0 je.1; simpa using this, hcol je.1, hB0, le_refl _⟩
    · rw [sumSel_zero]; norm_num [I63]
    · linarith
  -- pass 2
  have b2 := sumSel_bounds selM (fun je => -(col je.1 : Int)) (fun _ => 0) (fun _ => Bd) r
    (fun je _ _ => ⟨by have := hcol je.1; simpa using this, by have := hc0 je.1; simpa using this⟩)
  rw [sumSel_zero] at b2
  have e2 : accM1 col r (0 + sumSel selP (fun je => (col je.1 : Int)) r) =
      some (0 + sumSel selP (fun je => (col je.1 : Int)) r +
        sumSel selM (fun je => -(col je.1 : Int)) r) := by
    unfold accM1
    apply accPass_spec selM _ col (fun je => -(col je.1 : Int)) (fun _ => 0) (fun _ => Bd) r
    · intro je hje hs
      have hw := sumSel_mem_le selM (fun _ => Bd) (fun _ => hB0) r je hje hs
      have : (col je.1 : Int) < I63 := by have := hcol je.1; linarith
      refine ⟨by show some (-asI64 (col je.1)) = some _; rw [asI64_small this],
        by have := hcol je.1; simpa using this, by have := hc0 je.1; simpa using this, le_refl _, hB0⟩
    · linarith
    · rw [sumSel_zero]; linarith
  -- pass 3
  have hX : ∀ je ∈ r, selX je.2 = true →
      -(nw je.2 * Bd) ≤ je.2 * (col je.1 : Int) ∧ je.2 * (col je.1 : Int) ≤ pw je.2 * Bd := by
    intro je _ _
    have h1 := hc0 je.1
    have h2 := hcol je.1
    unfold nw pw
    by_cases hs : 0 < je.2
    · have : ¬ je.2 < 0 := by omega
      simp only [hs, this, if_true, if_false]
      constructor
      · have := mul_nonneg (le_of_lt hs) h1; linarith
      · exact mul_le_mul_of_nonneg_left h2 (le_of_lt hs)
    · by_cases hs2 : je.2 < 0
      · simp only [hs, hs2, if_true, if_false]
        constructor
        · have := mul_le_mul_of_nonneg_left h2 (by omega : (0 : Int) ≤ -je.2)
          linarith
        · have := mul_nonneg (by omega : (0 : Int) ≤ -je.2) h1; linarith
      · have : je.2 = 0 := by omega
        simp [this]
  have b3 := sumSel_bounds selX (fun je => je.2 * (col je.1 : Int)) (fun je => pw je.2 * Bd)
    (fun je => nw je.2 * Bd) r hX
  have e3 : accX col r (0 + sumSel selP (fun je => (col je.1 : Int)) r +
        sumSel selM (fun je => -(col je.1 : Int)) r) = some (rowDot col r) := by
    rw [rowDot_split]
    refine (accPass_spec selX (fun a e => chkI64 (e * asI64 a)) col
      (fun je => je.2 * (col je.1 : Int)) (fun je => pw je.2 * Bd)
      (fun je => nw je.2 * Bd) r _ ?_ ?_ ?_).trans (by congr 1; ring)
    · intro je hje hs
      obtain ⟨x1, x2⟩ := hX je hje hs
      have w1 := sumSel_mem_le selX (fun je => pw je.2 * Bd)
        (fun je => mul_nonneg (pw_nonneg _) hB0) r je hje hs
      have w2 := sumSel_mem_le selX (fun je => nw je.2 * Bd)
        (fun je => mul_nonneg (nw_nonneg _) hB0) r je hje hs
      have hcj : (col je.1 : Int) < I63 ∨ je.2 = 0 := by
        by_cases h0 : je.2 = 0
        · right; exact h0
        · left
          by_contra hc
          have hBd : I63 ≤ Bd := le_trans (not_lt.mp hc) (hcol je.1)
          rcases lt_or_gt_of_ne h0 with hn' | hp'
          · have : nw je.2 * Bd ≥ I63 := by
              unfold nw; rw [if_pos hn']; nlinarith
            linarith
          · have : pw je.2 * Bd ≥ I63 := by
              unfold pw; rw [if_pos hp']; nlinarith
            linarith
      have hterm : chkI64 (je.2 * asI64 (col je.1)) = some (je.2 * (col je.1 : Int)) := by
        rcases hcj with hcj | hcj
        · rw [asI64_small hcj]
          exact chkI64_some (by linarith) (by linarith)
        · rw [hcj, zero_mul, zero_mul]
          exact chkI64_some (by norm_num [I63]) (by norm_num [I63])
      exact ⟨hterm, x1, x2, mul_nonneg (pw_nonneg _) hB0, mul_nonneg (nw_nonneg _) hB0⟩
    · linarith
    · linarith
  have hrl : rowLane col p r = remEuclid (rowDot col r) p := by
    simp only [rowLane, e1, e2, e3]
  rw [hrl]
  have hq : asI64 p = (p : Int) := asI64_small hp
  have hq1 : ¬ ((p : Int) = -1) := by
    intro h; have := Int.natCast_nonneg p; rw [h] at this; exact absurd this (by norm_num)
  have hp0' : p ≠ 0 := Nat.pos_iff_ne_zero.mp hp0
  unfold remEuclid
  simp only [hq]
  rw [if_neg (by exact_mod_cast hp0'), if_neg (fun h => hq1 h.2)]


theorem foldl_max_ge (f : Row → Nat) : ∀ (m : Mat) (acc : Nat),
    acc ≤ m.foldl (fun a r => max a (f r)) acc ∧
      ∀ r ∈ m, f r ≤ m.foldl (fun a r => max a (f r)) acc
  | [], acc => ⟨le_refl _, fun r hr => by simp at hr⟩
  | r0 :: m, acc => by
    obtain ⟨h1, h2⟩ := foldl_max_ge f m (max acc (f r0))
    simp only [List.foldl_cons]
    refine ⟨le_trans (le_max_left _ _) h1, fun r hr => ?_⟩
    rcases List.mem_cons.mp hr with rfl | hr
    · exact le_trans (le_max_right _ _) h1
    · exact h2 r hr

/-- every row weight is bounded by `norm()` -/
theorem weight_le_norm (m : Mat) (r : Row) (hr : r ∈ m) :
    posW r ≤ (norm m : Int) ∧ negW r ≤ (norm m : Int) := by
  have h := (foldl_max_ge (fun r => (max (posW r) (negW r)).toNat) m 0).2 r hr
  have h' : ((max (posW r) (negW r)).toNat : Int) ≤ (norm m : Int) := by
    unfold norm; exact_mod_cast h
  have h1 := Int.self_le_toNat (max (posW r) (negW r))
  constructor
  · exact le_trans (le_trans (le_max_left _ _) h1) h'
  · exact le_trans (le_trans (le_max_right _ _) h1) h'

/-- the code's assumption `norm · Bd < 2^63` gives the row-wise hypothesis of `rowLane_spec` -/
theorem weights_of_norm (m : Mat) (Bd : Int) (hB0 : 0 ≤ Bd) (h : (norm m : Int) * Bd < I63) :
    ∀ r ∈ m, posW r * Bd < I63 ∧ negW r * Bd < I63 := by
  intro r hr
  obtain ⟨h1, h2⟩ := weight_le_norm m r hr
  exact ⟨lt_of_le_of_lt (mul_le_mul_of_nonneg_right h1 hB0) h,
    lt_of_le_of_lt (mul_le_mul_of_nonneg_right h2 hB0) h⟩

end Ymq.Wied
