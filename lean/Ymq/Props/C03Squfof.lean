/-
C03 / C01 for `squfof::squfof` (src/squfof.rs), the sub-algorithm behind `Algo::Squfof`:
the model `Ymq.Squfof.squfof` (Ymq/Model/Squfof.lean, every overflow / underflow / division /
assertion site of the checked profile is a `none`) NEVER panics, for every `n` and every admissible
seed (`squfof_no_panic`), and every pair it returns multiplies to `n` (`squfof_sound`) and is a
proper split unless `n` is one of the 15 primes ≤ 47 (`squfof_proper`, exact:
`squfof_trivial_split_small_primes`).

The only parameter is the floating point seed of `isqrt`, `(m as f64).sqrt() as u64`: all theorems
that need it hold for EVERY seed within 1 of the floor square root (`SeedOK`, named hypothesis;
an IEEE-754 fact checked by the `squfof_seed` stream), and the run does not depend on which
admissible seed is used (`squfof_seed_irrelevant`).

HISTORY: before the repair f24afb6 (/repo) `squfof(n)` divided by zero as soon as a round `k ≥ 2`
was reached with `n·k` a perfect square (`squfof(2)`, every prime ≤ 47, `50`, `6000163058`,
`9223371873646019282`; direct calls only, `factor()` removes the primes ≤ 199 first): the guard
`nsqrt * nsqrt == n` compares with `n`, not `n·k`. Such a round is now skipped
(`attempt_skips_square`). Consequence of the skip: rounds `k ≥ n` are reachable for `n ≤ 50`, where
`p_prev` can be a multiple of `n`; the code guards `f > 1` only, so `squfof(p) = (p, 1)` for the
primes `p ≤ 47` (a trivial split; before the repair these calls panicked). Composite `n ≤ 50` and
every `n ≥ 51` get proper splits.
-/
import Ymq.Lemmas.SqufofTop
import Ymq.Lemmas.FactorClosed
import Ymq.Lemmas.FactorClosedExample

namespace Ymq.C03Squfof
open Ymq.Squfof

/-- **isqrt**: from every admissible seed `squfof::isqrt` returns the floor square root; in
particular its `n / r` never divides by zero, `r - 1` never underflows, the loop stops within the
8 iterations the model allows (3 suffice). Closes the termination gap left open in C08. -/
theorem isqrt_total {seed : Nat → Nat} (hs : SeedOK seed) {m : Nat} (hm : m < 2 ^ 64) :
    isqrt seed m = some (Nat.sqrt m) :=
  isqrt_eq hs hm

/-- the run is the same for every admissible seed -/
theorem squfof_seed_irrelevant {seed seed' : Nat → Nat} (hs : SeedOK seed) (hs' : SeedOK seed')
    (n : Nat) : squfof seed n = squfof seed' n :=
  kLoop_seed hs hs' n 50 1

/-- **C01, soundness** (every seed, every `n`, no hypothesis): a returned pair multiplies to `n`
and its first component exceeds 1 unless `n < 2` (`squfof(0) = (0, 0)`, `squfof(1) = (1, 1)`:
the square test of round 1). -/
theorem squfof_sound (seed : Nat → Nat) (n a b : Nat) (h : squfof seed n = some (some (a, b))) :
    a * b = n ∧ (2 ≤ n → 1 < a) := by
  obtain ⟨j, _, _, hres⟩ := kLoop_first n 50 1 _ h (by simp)
  rcases hres with ⟨h0, _⟩ | ⟨a', b', h1, h2⟩
  · simp at h0
  · injection h1 with h1; injection h1 with h1; injection h1 with ha hb
    subst ha hb
    obtain ⟨e, g⟩ := attempt_ret h2
    refine ⟨e, fun hn => ?_⟩
    rcases g with ⟨_, g⟩ | g
    · rcases Nat.lt_or_ge 1 a with h | h
      · exact h
      · have : a = 0 ∨ a = 1 := by omega
        rcases this with rfl | rfl <;> omega
    · exact g

/-- **C03, no panic (full strength)**: for every `n` (in particular every `n < 2^64`) and every
admissible seed `squfof(n)` reaches no overflow, underflow, division by zero or failed assertion
of the checked profile: it returns `None` or a pair. -/
theorem squfof_no_panic {seed : Nat → Nat} (hs : SeedOK seed) (n : Nat) :
    ∃ r, squfof seed n = some r := by
  cases hr : squfof seed n with
  | some r => exact ⟨r, rfl⟩
  | none =>
    exfalso
    obtain ⟨j, _, _, hres⟩ := kLoop_first n 50 1 _ hr (by simp)
    rcases hres with ⟨_, h0⟩ | ⟨a', b', h1, _⟩
    · obtain ⟨r, hr'⟩ := attempt_total hs n (1 + j)
      rw [hr'] at h0; simp at h0
    · simp at h1

/-- every single round is panic free -/
theorem attempt_no_panic {seed : Nat → Nat} (hs : SeedOK seed) (n k : Nat) :
    ∃ r, attempt seed n k = some r :=
  attempt_total hs n k

/-- the repaired case: a multiplier with `n·k < 2^64` a perfect square other than `n` itself
(`k ≥ 2`, `n ≥ 1`) is skipped (`q == 0`, squfof.rs:26); it used to divide by zero. -/
theorem attempt_skips_square {seed : Nat → Nat} (hs : SeedOK seed) {n k : Nat}
    (hlt : n * k < 2 ^ 64) (hsq : IsSquare (n * k)) (hne : n * k ≠ n) :
    attempt seed n k = some .next := by
  apply attempt_square_skips hs hlt _ hne
  obtain ⟨r, hr⟩ := hsq
  rw [hr, Nat.sqrt_eq]

/-- the shape of every returned pair for `n ≥ 51`: the two exits named in Lemmas/FactorClosed.lean,
with the fact `0 < p_prev < n` at the gcd exit PROVED (it was a named premise there):
`p_prev ≤ ⌊√(nk)⌋ < n` because `k ≤ 50 < n`. (For `n ≤ 50` the statement is false after the repair:
`squfof_trivial_split_small_primes`.) -/
theorem squfof_exit {seed : Nat → Nat} (hs : SeedOK seed) {n a b : Nat} (hn : 51 ≤ n)
    (h : squfof seed n = some (some (a, b))) : Ymq.Factor.SqufofExit n a b := by
  obtain ⟨j, hj, hnext, hres⟩ := kLoop_first n 50 1 _ h (by simp)
  rcases hres with ⟨h0, _⟩ | ⟨a', b', h1, h2⟩
  · simp at h0
  injection h1 with h1; injection h1 with h1; injection h1 with ha hb
  subst ha hb
  have hkn : 1 + j < n := by omega
  rcases Nat.lt_or_ge (n * (1 + j)) W with hlt | hge
  · by_cases hsq : Nat.sqrt (n * (1 + j)) * Nat.sqrt (n * (1 + j)) = n * (1 + j)
    · by_cases he : n * (1 + j) = n
      · rw [attempt_eq hs hlt, if_pos (by omega)] at h2
        injection h2 with h2; injection h2 with ha hb
        exact .square _ (by omega) ha.symm hb.symm
      · rw [attempt_square_skips hs hlt hsq he] at h2
        simp at h2
    · obtain ⟨r, hr, hcase⟩ := attempt_nonsquare hs hlt hsq
      rw [hr] at h2
      injection h2 with h2
      subst h2
      rcases hcase with ⟨hret, hsqn⟩ | hg
      · injection hret with ha hb
        exact .square _ hsqn ha hb
      · rcases hg with hg | ⟨pf, hp1, hp2, hg1, hret⟩
        · simp at hg
        · injection hret with ha hb
          have hlt2 : Nat.sqrt (n * (1 + j)) < n := by
            rw [Nat.sqrt_lt]
            exact Nat.mul_lt_mul_of_pos_left hkn (by omega)
          subst ha hb
          exact .gcd pf hp1 (by omega) rfl hg1 rfl
  · rw [attempt_stop hge] at h2
    simp at h2

/-- the 15 primes ≤ 47 -/
def smallPrimes47 : List Nat := [2, 3, 5, 7, 11, 13, 17, 19, 23, 29, 31, 37, 41, 43, 47]

/-- row `n` of the table for `n ≤ 50`: a pair is returned and it is proper, or it is `(n, 1)`
and `n` is a prime ≤ 47 -/
def smallRow (n : Nat) : Bool :=
  let r := ((squfof exactSeed n).getD none).getD (0, 0)
  (squfof exactSeed n == some (some r)) &&
    ((r.1 * r.2 == n && decide (1 < r.1) && decide (r.1 < n) && decide (1 < r.2) && decide (r.2 < n))
      || (r.1 == n && r.2 == 1 && smallPrimes47.contains n))

theorem smallTable : (List.range 51).all (fun n => decide (n < 2) || smallRow n) = true := by
  decide +kernel

/-- **C01, proper split**: for every `n ≥ 2` that is not one of the primes ≤ 47 a returned pair is a
factorisation into two factors strictly between 1 and `n`. The excluded set is exact
(`squfof_trivial_split_small_primes`); `factor()` hands over composites ≥ 211² only. -/
theorem squfof_proper {seed : Nat → Nat} (hs : SeedOK seed) {n a b : Nat} (hn : 2 ≤ n)
    (hp : n ∉ smallPrimes47) (h : squfof seed n = some (some (a, b))) :
    a * b = n ∧ 1 < a ∧ a < n ∧ 1 < b ∧ b < n := by
  rcases Nat.lt_or_ge n 51 with hsmall | hbig
  · rw [squfof_seed_irrelevant hs exactSeed_ok] at h
    have ht := smallTable
    rw [List.all_eq_true] at ht
    have hrow := ht n (List.mem_range.2 hsmall)
    have hn2 : decide (n < 2) = false := by simp; omega
    rw [hn2, Bool.false_or] at hrow
    unfold smallRow at hrow
    rw [h] at hrow
    simp only [Option.getD_some, beq_self_eq_true, Bool.true_and, Bool.or_eq_true,
      Bool.and_eq_true, beq_iff_eq, decide_eq_true_eq, List.contains_iff_mem] at hrow
    rcases hrow with ⟨⟨⟨⟨h1, h2⟩, h3⟩, h4⟩, h5⟩ | ⟨_, hmem⟩
    · exact ⟨h1, h2, h3, h4, h5⟩
    · exact absurd hmem hp
  · have hpk := (squfof_exit hs hbig h).pairOK hn
    obtain ⟨h1, h2, h3⟩ := hpk
    refine ⟨h1, h2, ?_, h3, ?_⟩
    · rcases Nat.lt_or_ge a n with h | h
      · exact h
      · have : n * 2 ≤ a * b := Nat.mul_le_mul h h3
        omega
    · rcases Nat.lt_or_ge b n with h | h
      · exact h
      · have : 2 * n ≤ a * b := Nat.mul_le_mul h2 h
        omega

/-- **witnesses that the exclusion in `squfof_proper` is exact**: for every prime `p ≤ 47` the
repaired code returns the trivial split `(p, 1)` (a round `k > p` finds `p_prev` divisible by `p`;
the code guards `f > 1` only). Before the repair these calls divided by zero in round `k = p`. -/
theorem squfof_trivial_split_small_primes {seed : Nat → Nat} (hs : SeedOK seed) :
    ∀ p ∈ smallPrimes47, squfof seed p = some (some (p, 1)) := by
  intro p hp
  rw [squfof_seed_irrelevant hs exactSeed_ok]
  revert p
  decide +kernel

/-- the model, on the arguments `factor()` can produce (`n ≥ 51`; every argument of
`squfof::squfof` inside `factor_impl` is a composite without prime factor ≤ 199, so `n ≥ 211²`),
as the `squfof` field of the oracle record of Model/Factor.lean. Below 51 the field answers
`None`: there the real function may return `(p, 1)`, which the contract does not allow. -/
def squfofField (seed : Nat → Nat) {σ : Type} (t : σ) (n : Nat) : Option (Nat × Nat) × σ :=
  (if n ≤ 50 then none else (squfof seed n).getD none, t)

/-- **C01 link**: an oracle whose `squfof` field answers `Some` only for `n ≥ 51` and then as the
model does satisfies `UsesSqufofExit`, the premise of the closed factor theorems
(Props/C01Closed.lean) that was justified by K/O only; the named fact `0 < p_prev < n` of
`SqufofExit.gcd` is discharged by the invariant. -/
theorem squfof_uses_exit {seed : Nat → Nat} (hs : SeedOK seed) {σ : Type} (o : Ymq.Factor.Oracle σ)
    (ho : ∀ t n a b, (o.squfof t n).1 = some (a, b) → 51 ≤ n ∧ squfof seed n = some (some (a, b))) :
    Ymq.Factor.UsesSqufofExit o := by
  intro t n a b h
  obtain ⟨hn, hm⟩ := ho t n a b h
  exact squfof_exit hs hn hm

theorem squfofField_spec (seed : Nat → Nat) {σ : Type} (t : σ) (n a b : Nat)
    (h : (squfofField seed t n).1 = some (a, b)) : 51 ≤ n ∧ squfof seed n = some (some (a, b)) := by
  unfold squfofField at h
  simp only [] at h
  by_cases hn : n ≤ 50
  · rw [if_pos hn] at h; simp at h
  · rw [if_neg hn] at h
    refine ⟨by omega, ?_⟩
    cases hr : squfof seed n with
    | none => rw [hr] at h; simp at h
    | some r =>
      rw [hr] at h
      simp only [Option.getD_some] at h
      rw [h]

/-! ### non-vacuity -/

/-- the seed hypothesis is satisfiable -/
example : SeedOK exactSeed := exactSeed_ok

/-- success in round 1 (the first number of the repository's own test) -/
example : squfof exactSeed 11111 = some (some (41, 271)) := by decide +kernel

/-- success that needs a multiplier: `58447 = 211·277` in round `k = 2`, `61601 = 229·269` in
round `k = 6` (both are inputs `factor()` can hand over) -/
example : squfof exactSeed 58447 = some (some (211, 277)) := by decide +kernel
example : squfof exactSeed 61601 = some (some (229, 269)) := by decide +kernel

/-- the LAST multiplier: `163³` fails in rounds 1..49 and is split in round `k = 50` -/
example : squfof exactSeed 4330747 = some (some (163, 26569)) := by decide +kernel

/-- the square exit -/
example : squfof exactSeed 49729 = some (some (223, 223)) := by decide +kernel

/-- failure: a prime runs through all 50 multipliers -/
example : squfof exactSeed 10007 = some none := by decide +kernel

/-- the `checked_mul` break: `n·2 ≥ 2^64` after a failed round 1 would need a long run; the break
itself, on the first multiplier that overflows -/
example : attempt exactSeed 18446744073709551557 2 = some .stop := by decide +kernel

/-- the repaired inputs answer what the real code answers now (they divided by zero before) -/
example : squfof exactSeed 2 = some (some (2, 1)) := by decide +kernel
example : squfof exactSeed 50 = some (some (2, 25)) := by decide +kernel
example : squfof exactSeed 6000163058 = some (some (2, 3000081529)) := by decide +kernel

/-- a skipped round: `50·2 = 10²` -/
example : attempt exactSeed 50 2 = some .next := by decide +kernel

/-- the hypotheses of `squfof_proper` hold for a concrete input -/
example : 211 * 277 = 58447 ∧ 1 < 211 ∧ 211 < 58447 ∧ 1 < 277 ∧ 277 < 58447 :=
  squfof_proper exactSeed_ok (by decide) (by decide)
    (by decide +kernel : squfof exactSeed 58447 = some (some (211, 277)))

/-! ### the model inside the control-flow model of `factor()` -/

open Ymq.Factor Ymq.Factor.Closed in
/-- the model oracle of Props/C01Closed.lean with its `squfof` field (there: constantly `None`)
replaced by the SQUFOF model -/
def sqOracle : Oracle Unit := { modelOracle with squfof := squfofField exactSeed }

open Ymq.Factor Ymq.Factor.Closed in
theorem sqOracle_uses_exit : UsesSqufofExit sqOracle :=
  squfof_uses_exit exactSeed_ok sqOracle (fun t n a b h => squfofField_spec exactSeed t n a b h)

open Ymq.Factor Ymq.Factor.Closed in
/-- every premise of the closed factor theorems holds for it -/
example : OracleOK sqOracle :=
  oracleOK_of_models_aux (o := sqOracle) model_pp model_finalStep model_qs64 model_rho model_pm1
    model_ecm sqOracle_uses_exit model_unexpected ⟨model_residual.unexpectedNotWhole⟩

open Ymq.Factor in
/-- `factor(4·58447, Algo::Squfof)`: trial division, then the modelled SQUFOF splits 211·277 with
the multiplier `k = 2`, the modelled `pseudoprime` accepts both parts -/
example : factor sqOracle 20 233788 .squfof () = .ok [2, 2, 211, 277] := by decide +kernel

end Ymq.C03Squfof
