"""Tokenizer, parser and Lean emitter for the small Rust expression subset in which yamaquasi's
parameter functions are written (property C20; the parser is reusable by other translators).

Supported: integer literals (`_`, type suffixes, hex), float literals with an integral value,
identifiers / paths (turbofish skipped), unary `! - * &`, binary `* / % + - << >> & ^ |`,
comparisons, `&& ||`, `as T` casts, method calls, field access `.0`, calls, indexing, tuples,
array literals, blocks with `let` / `let mut` / (compound) assignment / assignment-only `if`
statements / `assert!`, `if / else if / else`, `match` on integer (tuple) range patterns with
optional guards, closures, `return` in tail position, `unreachable!()` / `panic!()`.

Anything else raises ExtractError -- nothing is skipped silently.

The emitter produces Lean terms over `Nat` whose arithmetic goes through the checked
operations of Ymq/Model/Checked.lean (`Option Nat`); evaluation is lazy exactly where Rust's
is (`if`/`match` arms), so an underflow inside an arm is only reported for the inputs that
reach that arm.
"""
import re
from fractions import Fraction
from common import ExtractError

# ------------------------------------------------------------------ tokenizer

_INT_SUFFIX = r"(?:[ui](?:8|16|32|64|128|size))"
TOKEN_RE = re.compile(r"""
  (?P<ws>\s+)
 |(?P<float>\d[\d_]*\.\d[\d_]*(?:[eE][+-]?\d+)?(?:_?f32|_?f64)?
            |\d[\d_]*[eE][+-]?\d+(?:_?f32|_?f64)?
            |\d[\d_]*\.(?![.\w])
            |\d[\d_]*(?:f32|f64))
 |(?P<int>0x[0-9a-fA-F_]+""" + _INT_SUFFIX + r"""?|\d[\d_]*""" + _INT_SUFFIX + r"""?)
 |(?P<lifetime>'[A-Za-z_]\w*(?!'))
 |(?P<str>"(?:[^"\\]|\\.)*")
 |(?P<ident>[^\W\d]\w*)
 |(?P<op>\.\.=|<<=|>>=|\.\.|::|->|=>|==|!=|<=|>=|&&|\|\||<<|>>|\+=|-=|\*=|/=|%=|\^=|&=|\|=|[-+*/%^!&|<>=.,;:(){}\[\]\#?@$])
""", re.X)


class Tok:
    __slots__ = ("kind", "text", "pos")

    def __init__(self, kind, text, pos):
        self.kind, self.text, self.pos = kind, text, pos

    def __repr__(self):
        return f"{self.kind}:{self.text}"


def strip_comments(s):
    s = re.sub(r"/\*.*?\*/", " ", s, flags=re.S)
    return re.sub(r"//[^\n]*", "", s)


def tokenize(s):
    s = strip_comments(s)
    toks, i = [], 0
    while i < len(s):
        m = TOKEN_RE.match(s, i)
        if not m:
            raise ExtractError(f"cannot tokenize at {s[i:i + 30]!r}")
        i = m.end()
        k = m.lastgroup
        if k != "ws":
            toks.append(Tok(k, m.group(k), m.start()))
    toks.append(Tok("eof", "", len(s)))
    return toks


def int_value(text):
    t = text.replace("_", "")
    m = re.fullmatch(r"(0x[0-9a-fA-F]+|\d+)(" + _INT_SUFFIX + r")?", t)
    if not m:
        raise ExtractError(f"bad integer literal {text!r}")
    return int(m.group(1), 0), m.group(2)


def float_value(text):
    t = re.sub(r"_?(f32|f64)$", "", text.replace("_", ""))
    m = re.fullmatch(r"(\d+)(?:\.(\d*))?(?:[eE]([+-]?\d+))?", t)
    if not m:
        raise ExtractError(f"bad float literal {text!r}")
    ip, fp, ex = m.group(1), m.group(2) or "", int(m.group(3) or 0)
    v = Fraction(int(ip + fp), 10 ** len(fp)) * Fraction(10) ** ex
    if v.denominator != 1:
        raise ExtractError(f"float literal {text!r} is not integral")
    return int(v)


# ------------------------------------------------------------------ AST

class Node:
    def __init__(self, k, **kw):
        self.k = k
        self.__dict__.update(kw)

    def __repr__(self):
        return "Node(" + self.k + ", " + ", ".join(f"{a}={b!r}" for a, b in self.__dict__.items() if a != "k") + ")"


BINPREC = {
    "*": 12, "/": 12, "%": 12, "+": 11, "-": 11, "<<": 10, ">>": 10, "&": 9, "^": 8, "|": 7,
    "==": 6, "!=": 6, "<": 6, ">": 6, "<=": 6, ">=": 6, "&&": 5, "||": 4,
}
AS_PREC = 13
ASSIGN_OPS = {"=", "+=", "-=", "*=", "/=", "%=", "<<=", ">>=", "&=", "|=", "^="}


class Parser:
    def __init__(self, toks):
        self.t = toks
        self.i = 0

    # -- helpers
    def peek(self, o=0):
        return self.t[min(self.i + o, len(self.t) - 1)]

    def at(self, text):
        return self.peek().text == text and self.peek().kind in ("op", "ident")

    def next(self):
        tok = self.t[self.i]
        self.i += 1
        return tok

    def expect(self, text):
        tok = self.next()
        if tok.text != text:
            raise ExtractError(f"expected {text!r}, found {tok.text!r} (token {self.i})")
        return tok

    def accept(self, text):
        if self.at(text):
            self.i += 1
            return True
        return False

    def eof(self):
        return self.peek().kind == "eof"

    # -- types
    def parse_type(self):
        if self.accept("&"):
            if self.peek().kind == "lifetime":
                self.next()
            self.accept("mut")
            return self.parse_type()
        if self.accept("("):
            items = []
            while not self.at(")"):
                items.append(self.parse_type())
                if not self.accept(","):
                    break
            self.expect(")")
            return ("tuple", tuple(items)) if len(items) != 1 else items[0]
        if self.accept("["):
            el = self.parse_type()
            if self.accept(";"):
                self.parse_expr()
            self.expect("]")
            return ("slice", el)
        tok = self.next()
        if tok.kind != "ident":
            raise ExtractError(f"type expected, found {tok.text!r}")
        name = tok.text
        while self.accept("::"):
            name = self.next().text
        if self.at("<"):
            depth = 0
            while True:
                t = self.next()
                if t.text == "<":
                    depth += 1
                elif t.text == ">":
                    depth -= 1
                elif t.text == ">>":
                    depth -= 2
                elif t.kind == "eof":
                    raise ExtractError("unterminated generic arguments")
                if depth <= 0:
                    break
            return ("generic", name)
        return name

    # -- patterns
    def parse_pattern(self):
        alts = [self.parse_pattern1()]
        while self.accept("|"):
            alts.append(self.parse_pattern1())
        return alts[0] if len(alts) == 1 else Node("por", alts=alts)

    def parse_pattern1(self):
        if self.accept("&"):
            return self.parse_pattern1()
        if self.accept("("):
            items = []
            while not self.at(")"):
                items.append(self.parse_pattern())
                if not self.accept(","):
                    break
            self.expect(")")
            return Node("ptuple", items=items) if len(items) != 1 else items[0]
        tok = self.peek()
        if tok.kind == "int":
            self.next()
            lo, _ = int_value(tok.text)
            if self.accept("..="):
                hi, _ = int_value(self.next().text)
                return Node("prange", lo=lo, hi=hi)
            if self.accept(".."):
                if self.peek().kind == "int":
                    hi, _ = int_value(self.next().text)
                    return Node("prange", lo=lo, hi=hi - 1)
                return Node("prange", lo=lo, hi=None)
            return Node("prange", lo=lo, hi=lo)
        if tok.kind == "ident":
            self.next()
            if tok.text == "_":
                return Node("pwild")
            if tok.text == "mut":
                return Node("pbind", name=self.next().text, mut=True)
            if tok.text in ("true", "false"):
                return Node("pbool", value=tok.text == "true")
            if self.at("::") or self.at("(") or self.at("{"):
                raise ExtractError(f"unsupported pattern starting with {tok.text!r}")
            return Node("pbind", name=tok.text, mut=False)
        raise ExtractError(f"unsupported pattern at {tok.text!r}")

    # -- expressions
    def parse_expr(self, minprec=0):
        lhs = self.parse_unary()
        while True:
            tok = self.peek()
            if tok.kind == "ident" and tok.text == "as":
                if AS_PREC < minprec:
                    break
                self.next()
                lhs = Node("cast", e=lhs, ty=self.parse_type())
                continue
            if tok.kind != "op" or tok.text not in BINPREC:
                break
            p = BINPREC[tok.text]
            if p < minprec:
                break
            self.next()
            rhs = self.parse_expr(p + 1)
            lhs = Node("bin", op=tok.text, l=lhs, r=rhs)
        return lhs

    def parse_unary(self):
        tok = self.peek()
        if tok.kind == "op" and tok.text in ("!", "-", "*", "&"):
            self.next()
            if tok.text == "&":
                self.accept("mut")
            e = self.parse_unary()
            return Node("un", op=tok.text, e=e)
        if tok.kind == "op" and tok.text == "&&":
            self.next()
            return Node("un", op="&", e=Node("un", op="&", e=self.parse_unary()))
        return self.parse_postfix(self.parse_primary())

    def parse_args(self, close=")"):
        args = []
        while not self.at(close):
            args.append(self.parse_expr())
            if not self.accept(","):
                break
        self.expect(close)
        return args

    def skip_turbofish(self):
        # `::<...>`
        self.expect("<")
        depth = 1
        while depth > 0:
            t = self.next()
            if t.text == "<":
                depth += 1
            elif t.text == ">":
                depth -= 1
            elif t.text == ">>":
                depth -= 2
            elif t.kind == "eof":
                raise ExtractError("unterminated turbofish")

    def parse_postfix(self, e):
        while True:
            if self.at("."):
                nxt = self.peek(1)
                if nxt.kind == "int":
                    self.next()
                    self.next()
                    idx, suf = int_value(nxt.text)
                    if suf:
                        raise ExtractError("suffix on tuple index")
                    e = Node("field", e=e, name=idx)
                    continue
                if nxt.kind == "ident":
                    self.next()
                    self.next()
                    if self.at("::"):
                        self.next()
                        self.skip_turbofish()
                    if self.accept("("):
                        e = Node("mcall", e=e, name=nxt.text, args=self.parse_args())
                    else:
                        e = Node("field", e=e, name=nxt.text)
                    continue
                raise ExtractError(f"unexpected token after '.': {nxt.text!r}")
            if self.at("("):
                self.next()
                e = Node("call", f=e, args=self.parse_args())
                continue
            if self.at("["):
                self.next()
                idx = self.parse_expr()
                self.expect("]")
                e = Node("index", e=e, i=idx)
                continue
            if self.at("?"):
                self.next()
                e = Node("try", e=e)
                continue
            return e

    def parse_block(self):
        self.expect("{")
        stmts, value = [], None
        while not self.at("}"):
            if self.accept(";"):
                continue
            tok = self.peek()
            if tok.kind == "ident" and tok.text == "let":
                self.next()
                pat = self.parse_pattern()
                ty = self.parse_type() if self.accept(":") else None
                self.expect("=")
                e = self.parse_expr()
                self.expect(";")
                stmts.append(Node("let", pat=pat, ty=ty, e=e))
                continue
            if tok.kind == "ident" and tok.text == "return":
                self.next()
                e = None if self.at(";") or self.at("}") else self.parse_expr()
                self.accept(";")
                if not self.at("}"):
                    raise ExtractError("`return` that is not the last statement of its block")
                value = Node("return", e=e)
                break
            e = self.parse_expr()
            if self.peek().kind == "op" and self.peek().text in ASSIGN_OPS:
                op = self.next().text
                rhs = self.parse_expr()
                if not self.at("}"):
                    self.expect(";")
                stmts.append(Node("assign", op=op, target=e, e=rhs))
                continue
            if self.accept(";"):
                stmts.append(Node("expr", e=e))
                continue
            if self.at("}"):
                value = e
                break
            if e.k in ("if", "match", "block"):       # block-like expression statement
                stmts.append(Node("expr", e=e))
                continue
            raise ExtractError(f"unexpected token {self.peek().text!r} in block")
        self.expect("}")
        return Node("block", stmts=stmts, value=value)

    def parse_if(self):
        self.expect("if")
        if self.at("let"):
            raise ExtractError("`if let` is not supported")
        c = self.parse_expr()
        th = self.parse_block()
        el = None
        if self.accept("else"):
            el = self.parse_if() if self.at("if") else self.parse_block()
        return Node("if", c=c, th=th, el=el)

    def parse_match(self):
        self.expect("match")
        scrut = self.parse_expr()
        self.expect("{")
        arms = []
        while not self.at("}"):
            pat = self.parse_pattern()
            guard = None
            if self.accept("if"):
                guard = self.parse_expr()
            self.expect("=>")
            body = self.parse_expr()
            if not self.accept(",") and not self.at("}") and body.k not in ("block", "if", "match"):
                raise ExtractError("match arm not followed by ','")
            arms.append(Node("arm", pat=pat, guard=guard, body=body))
        self.expect("}")
        return Node("match", e=scrut, arms=arms)

    def parse_primary(self):
        tok = self.peek()
        if tok.kind == "int":
            self.next()
            v, suf = int_value(tok.text)
            return Node("int", v=v, suf=suf)
        if tok.kind == "float":
            self.next()
            return Node("float", v=float_value(tok.text))
        if tok.kind == "str":
            self.next()
            return Node("str", v=tok.text)
        if tok.kind == "op":
            if tok.text == "(":
                self.next()
                items, trailing = [], False
                while not self.at(")"):
                    items.append(self.parse_expr())
                    trailing = self.accept(",")
                    if not trailing:
                        break
                self.expect(")")
                if len(items) == 1 and not trailing:
                    return Node("paren", e=items[0])
                return Node("tuple", items=items)
            if tok.text == "[":
                self.next()
                return Node("array", items=self.parse_args("]"))
            if tok.text == "{":
                return self.parse_block()
            if tok.text in ("|", "||"):
                self.next()
                params = []
                if tok.text == "|":
                    while not self.at("|"):
                        params.append(self.parse_pattern1())
                        if self.accept(":"):
                            self.parse_type()
                        if not self.accept(","):
                            break
                    self.expect("|")
                return Node("closure", params=params, body=self.parse_expr())
        if tok.kind == "ident":
            if tok.text == "if":
                return self.parse_if()
            if tok.text == "match":
                return self.parse_match()
            if tok.text in ("true", "false"):
                self.next()
                return Node("bool", v=tok.text == "true")
            if tok.text in ("let", "return", "while", "for", "loop", "unsafe", "break", "continue", "move"):
                raise ExtractError(f"unsupported construct `{tok.text}` in expression position")
            self.next()
            segs = [tok.text]
            while self.at("::"):
                self.next()
                if self.at("<"):
                    self.skip_turbofish()
                    continue
                segs.append(self.next().text)
            if self.at("!") and self.peek(1).text in ("(", "[", "{"):
                self.next()
                opener = self.next().text
                closer = {"(": ")", "[": "]", "{": "}"}[opener]
                if segs[-1] in ("assert", "debug_assert"):
                    args = self.parse_args(closer)
                    return Node("assert", c=args[0], debug=segs[-1] == "debug_assert")
                if segs[-1] in ("unreachable", "panic", "todo", "unimplemented"):
                    depth = 1
                    while depth:
                        t = self.next()
                        if t.text == opener:
                            depth += 1
                        elif t.text == closer:
                            depth -= 1
                        elif t.kind == "eof":
                            raise ExtractError("unterminated macro")
                    return Node("panic", what=segs[-1])
                raise ExtractError(f"unsupported macro {segs[-1]}!")
            return Node("path", segs=segs)
        raise ExtractError(f"unexpected token {tok.text!r} ({tok.kind})")

    # -- items
    def parse_fn(self):
        """`[pub[(crate)]] [const] fn name(params) [-> ty] { body }`"""
        while self.peek().text in ("pub", "const") or (self.at("(") and self.peek(1).text in ("crate", "super")):
            if self.at("("):
                self.next(); self.next(); self.expect(")")
            else:
                self.next()
        self.expect("fn")
        name = self.next().text
        if self.at("<"):
            self.skip_turbofish()
        self.expect("(")
        params = []
        while not self.at(")"):
            if self.at("&") and self.peek(1).text == "self":
                self.next(); self.next()
                params.append(("self", "Self"))
            elif self.at("self"):
                self.next()
                params.append(("self", "Self"))
            else:
                self.accept("mut")
                pname = self.next().text
                self.expect(":")
                params.append((pname, self.parse_type()))
            if not self.accept(","):
                break
        self.expect(")")
        ret = None
        if self.accept("->"):
            ret = self.parse_type()
        body = self.parse_block()
        return Node("fn", name=name, params=params, ret=ret, body=body)


def parse_expr_text(text):
    p = Parser(tokenize(text))
    e = p.parse_expr()
    if not p.eof():
        raise ExtractError(f"trailing tokens after expression: {p.peek().text!r}")
    return e


def parse_fn_text(text):
    p = Parser(tokenize(text))
    f = p.parse_fn()
    if not p.eof():
        raise ExtractError(f"trailing tokens after function {f.name}: {p.peek().text!r}")
    return f


# ------------------------------------------------------------------ source slicing

def _match_brace(s, i, open_ch="{", close_ch="}"):
    """index just after the bracket matching s[i] (comments must already be stripped;
    string literals are skipped)."""
    assert s[i] == open_ch
    depth, j = 0, i
    while j < len(s):
        c = s[j]
        if c == '"':
            j += 1
            while s[j] != '"':
                j += 2 if s[j] == "\\" else 1
        elif c == open_ch:
            depth += 1
        elif c == close_ch:
            depth -= 1
            if depth == 0:
                return j + 1
        j += 1
    raise ExtractError("unbalanced brackets")


def find_fn(source, name, params=None):
    """text of `fn name(...) ... { ... }` (comments stripped). The name must be unique in the
    file, or made unique by `params`, a regex the text after `fn name` must start with."""
    s = strip_comments(source)
    ms = list(re.finditer(r"(?:pub(?:\([a-z]+\))?\s+)?(?:const\s+)?fn\s+" + re.escape(name) + r"\s*(?=[(<])", s))
    if params is not None:
        ms = [m for m in ms if re.match(params, s[m.end():])]
    if len(ms) != 1:
        raise ExtractError(f"function `{name}`: {len(ms)} definitions found (need exactly 1)")
    st = ms[0].start()
    # the body is the first `{` after the signature's closing parenthesis
    par = s.index("(", ms[0].end())
    after = _match_brace(s, par, "(", ")")
    b = s.index("{", after)
    if ";" in s[after:b]:
        raise ExtractError(f"function `{name}` has no body")
    return s[st:_match_brace(s, b)]


def find_const(source, name):
    """(type text, initializer text) of `const NAME: type = init;`"""
    s = strip_comments(source)
    ms = list(re.finditer(r"(?:pub(?:\([a-z]+\))?\s+)?(?:const|static)\s+" + re.escape(name) + r"\s*:", s))
    if len(ms) != 1:
        raise ExtractError(f"constant `{name}`: {len(ms)} definitions found (need exactly 1)")
    j = ms[0].end()
    eq = s.index("=", j)
    # initializer ends at the first `;` at bracket depth 0
    depth, k = 0, eq + 1
    while k < len(s):
        c = s[k]
        if c in "([{":
            depth += 1
        elif c in ")]}":
            depth -= 1
        elif c == ";" and depth == 0:
            break
        k += 1
    return s[j:eq].strip(), s[eq + 1:k].strip()


def const_table(source, name, arity):
    """rows of `const NAME: &[(..)] = &[ (a, b, c), ... ];` as tuples of integers (floats must
    be integral)."""
    _, init = find_const(source, name)
    e = parse_expr_text(init)
    while e.k == "un" and e.op == "&":
        e = e.e
    if e.k != "array":
        raise ExtractError(f"{name}: initializer is not an array literal")
    rows = []
    for it in e.items:
        if it.k != "tuple" or len(it.items) != arity:
            raise ExtractError(f"{name}: row is not a {arity}-tuple")
        rows.append(tuple(const_eval(x) for x in it.items))
    if not rows:
        raise ExtractError(f"{name}: empty table")
    return rows


def const_eval(e, env=None):
    """value of a constant integer expression (literals, + - * / << >>, parentheses, casts,
    named constants from `env`)."""
    if e.k == "int" or e.k == "float":
        return e.v
    if e.k == "paren":
        return const_eval(e.e, env)
    if e.k == "cast":
        return const_eval(e.e, env)
    if e.k == "path" and env is not None and e.segs[-1] in env:
        return env[e.segs[-1]]
    if e.k == "bin":
        a, b = const_eval(e.l, env), const_eval(e.r, env)
        if e.op == "+": return a + b
        if e.op == "-":
            if a < b: raise ExtractError("negative constant")
            return a - b
        if e.op == "*": return a * b
        if e.op == "/":
            if b == 0: raise ExtractError("constant division by zero")
            return a // b
        if e.op == "<<": return a << b
        if e.op == ">>": return a >> b
    raise ExtractError(f"not a constant integer expression: {e!r}")


def const_value(source, name, env=None):
    _, init = find_const(source, name)
    return const_eval(parse_expr_text(init), env)


# ------------------------------------------------------------------ typed Lean emitter

WIDTH = {"u8": 8, "u16": 16, "u32": 32, "u64": 64, "u128": 128, "usize": 64,
         "i8": 7, "i16": 15, "i32": 31, "i64": 63, "i128": 127, "isize": 63}
INT_TYPES = set(WIDTH)


def lean_type(ty):
    if ty in INT_TYPES or ty == "Uint":
        return "Nat"
    if ty == "bool":
        return "Bool"
    if isinstance(ty, tuple) and ty[0] == "tuple":
        return "(" + " × ".join(lean_type(t) for t in ty[1]) + ")"
    if isinstance(ty, tuple) and ty[0] == "slice":
        return f"(List {lean_type(ty[1])})"
    raise ExtractError(f"no Lean type for Rust type {ty!r}")


def proj(term, i, n):
    """i-th component of an n-tuple `term` (right nested pairs)"""
    if n == 1:
        return term
    s = term
    for _ in range(i):
        s = f"{s}.2"
    return f"{s}.1" if i < n - 1 else s


class Val:
    """a translated expression: `code` is a Lean term of type T (pure) or Option T (not pure)."""
    __slots__ = ("code", "pure", "ty")

    def __init__(self, code, pure, ty):
        self.code, self.pure, self.ty = code, pure, ty

    def opt(self):
        return self.code if not self.pure else f"(some {self.code})"


class Emitter:
    """Translates function bodies. `funcs`: name -> (lean name, [param types], ret type) of
    already translated functions; `consts`: name -> (lean term, type)."""

    def __init__(self, funcs=None, consts=None):
        self.funcs = funcs or {}
        self.consts = consts or {}
        self.n = 0
        self.ops_used = set()

    def fresh(self, base="tmp"):
        self.n += 1
        return f"{base}{self.n}"

    # ---- sequencing helper
    def seq(self, vals, k):
        """bind the non-pure `vals` to fresh names, call k(list of pure atoms) -> Val"""
        atoms, binds = [], []
        for v in vals:
            if v.pure:
                atoms.append(v.code)
            else:
                nm = self.fresh()
                binds.append((nm, v.code))
                atoms.append(nm)
        res = k(atoms)
        if not binds:
            return res
        code = res.opt()
        for nm, c in reversed(binds):
            code = f"(Option.bind {c} fun {nm} =>\n {code})"
        return Val(code, False, res.ty)

    # ---- type utilities
    @staticmethod
    def is_int(ty):
        return ty in INT_TYPES

    def unify(self, a, b, what):
        if a is None:
            return b
        if b is None:
            return a
        if a != b:
            raise ExtractError(f"type mismatch in {what}: {a} vs {b}")
        return a

    # ---- static type computation (None = untyped integer literal expression)
    def typeof(self, e, env):
        k = e.k
        if k == "int":
            return e.suf
        if k == "bool":
            return "bool"
        if k == "paren":
            return self.typeof(e.e, env)
        if k == "path":
            nm = e.segs[-1]
            if len(e.segs) == 2 and e.segs[0] in INT_TYPES and nm == "MAX":
                return e.segs[0]
            if len(e.segs) == 1 and nm in env:
                return env[nm][1]
            if nm in self.consts:
                return self.consts[nm][1]
            raise ExtractError(f"unknown name {'::'.join(e.segs)}")
        if k == "un":
            if e.op in ("*", "&"):
                return self.typeof(e.e, env)
            if e.op == "!":
                return self.typeof(e.e, env)
            raise ExtractError("unary minus is not supported")
        if k == "cast":
            return e.ty
        if k == "bin":
            if e.op in ("==", "!=", "<", ">", "<=", ">=", "&&", "||"):
                return "bool"
            if e.op in ("<<", ">>"):
                return self.typeof(e.l, env)
            lt = self.typeof(e.l, env)
            if lt == "Uint":
                return "Uint"
            return self.unify(lt, self.typeof(e.r, env), f"`{e.op}`")
        if k == "tuple":
            return ("tuple", tuple(self.typeof(x, env) for x in e.items))
        if k == "field":
            t = self.typeof(e.e, env)
            if isinstance(t, tuple) and t[0] == "tuple" and isinstance(e.name, int):
                return t[1][e.name]
            raise ExtractError(f"field access .{e.name} on {t}")
        if k == "index":
            t = self.typeof(e.e, env)
            if isinstance(t, tuple) and t[0] == "slice":
                return t[1]
            raise ExtractError("indexing a non-slice")
        if k == "mcall":
            rt = self.typeof(e.e, env)
            if e.name == "bits":
                return "u32"
            if e.name in ("min", "max"):
                return self.unify(rt, self.typeof(e.args[0], env), e.name)
            if e.name == "len":
                return "usize"
            if e.name == "partition_point":
                return "usize"
            if e.name == "leading_zeros":
                return "u32"
            if e.name in ("unsigned_abs", "abs", "clone"):
                return rt
            if e.name == "sqrt":
                return "f64"
            raise ExtractError(f"unsupported method .{e.name}()")
        if k == "call":
            nm = e.f.segs[-1] if e.f.k == "path" else None
            if nm in ("min", "max"):
                return self.unify(self.typeof(e.args[0], env), self.typeof(e.args[1], env), nm)
            if nm in self.funcs:
                return self.funcs[nm][2]
            raise ExtractError(f"call to untranslated function {nm}")
        if k == "if":
            t = self.block_type(e.th, env)
            if e.el is not None:
                t2 = self.typeof(e.el, env) if e.el.k == "if" else self.block_type(e.el, env)
                t = self.unify_tuple(t, t2)
            return t
        if k == "match":
            t = None
            for a in e.arms:
                if a.body.k == "panic":
                    continue
                env2 = dict(env)
                self.bind_pattern_types(a.pat, self.typeof(e.e, env), env2)
                t = self.unify_tuple(t, self.typeof(a.body, env2))
            return t
        if k == "block":
            return self.block_type(e, env)
        if k == "return":
            return self.typeof(e.e, env)
        if k == "panic":
            return None
        raise ExtractError(f"cannot type expression of kind {k}")

    def unify_tuple(self, a, b):
        if isinstance(a, tuple) and isinstance(b, tuple) and a[0] == "tuple" and b[0] == "tuple":
            return ("tuple", tuple(self.unify_tuple(x, y) for x, y in zip(a[1], b[1])))
        return self.unify(a, b, "branches")

    def bind_pattern_types(self, pat, ty, env):
        if pat.k == "pbind":
            env[pat.name] = (pat.name, ty)
        elif pat.k == "ptuple":
            if not (isinstance(ty, tuple) and ty[0] == "tuple" and len(ty[1]) == len(pat.items)):
                raise ExtractError("tuple pattern against non-tuple")
            for p, t in zip(pat.items, ty[1]):
                self.bind_pattern_types(p, t, env)

    def block_type(self, b, env):
        env = dict(env)
        for s in b.stmts:
            if s.k == "let":
                t = s.ty or self.typeof(s.e, env)
                self.bind_pattern_types(s.pat, t, env)
        if b.value is None:
            raise ExtractError("block without value in value position")
        return self.typeof(b.value, env)

    @staticmethod
    def fill(ty, expect):
        """replace unknown (None) integer types by the expected one"""
        if ty is None:
            return expect
        if isinstance(ty, tuple) and ty[0] == "tuple":
            ex = expect[1] if isinstance(expect, tuple) and expect[0] == "tuple" else [None] * len(ty[1])
            return ("tuple", tuple(Emitter.fill(t, x) for t, x in zip(ty[1], ex)))
        return ty

    # ---- expressions
    def expr(self, e, env, expect=None):
        """-> Val. `expect` is the type imposed by the context on untyped literals."""
        k = e.k
        if k == "int":
            ty = e.suf or expect
            if ty is None:
                ty = "i32"                     # Rust's fallback for an unconstrained literal
            if ty == "f64":
                return Val(str(e.v), True, "f64")
            if ty not in INT_TYPES:
                raise ExtractError(f"integer literal in context {ty}")
            if e.v >= 2 ** WIDTH[ty]:
                raise ExtractError(f"literal {e.v} does not fit {ty}")
            return Val(str(e.v), True, ty)
        if k == "bool":
            return Val("true" if e.v else "false", True, "bool")
        if k == "paren":
            return self.expr(e.e, env, expect)
        if k == "path":
            nm = e.segs[-1]
            if len(e.segs) == 2 and e.segs[0] in INT_TYPES and nm == "MAX":
                return Val(str(2 ** WIDTH[e.segs[0]] - 1), True, e.segs[0])
            if len(e.segs) == 1 and nm in env:
                return Val(env[nm][0], True, env[nm][1])
            if nm in self.consts:
                return Val(self.consts[nm][0], True, self.consts[nm][1])
            raise ExtractError(f"unknown name {'::'.join(e.segs)}")
        if k == "un":
            if e.op in ("*", "&"):
                return self.expr(e.e, env, expect)
            if e.op == "!":
                v = self.expr(e.e, env)
                if v.ty != "bool" or not v.pure:
                    raise ExtractError("`!` on a non-boolean or effectful operand")
                return Val(f"(!{v.code})", True, "bool")
            raise ExtractError("unary minus is not supported")
        if k == "cast":
            return self.cast(e, env)
        if k == "bin":
            return self.binop(e, env, expect)
        if k == "tuple":
            ex = expect[1] if isinstance(expect, tuple) and expect[0] == "tuple" else [None] * len(e.items)
            vals = [self.expr(x, env, t) for x, t in zip(e.items, ex)]
            return self.seq(vals, lambda a: Val("(" + ", ".join(a) + ")", True,
                                                ("tuple", tuple(v.ty for v in vals))))
        if k == "field":
            v = self.expr(e.e, env)
            if not (isinstance(v.ty, tuple) and v.ty[0] == "tuple" and isinstance(e.name, int)):
                raise ExtractError(f"field access .{e.name} on {v.ty}")
            n = len(v.ty[1])
            return self.seq([v], lambda a: Val(proj(a[0], e.name, n), True, v.ty[1][e.name]))
        if k == "index":
            v = self.expr(e.e, env)
            i = self.expr(e.i, env, "usize")
            if not (isinstance(v.ty, tuple) and v.ty[0] == "slice"):
                raise ExtractError("indexing a non-slice")
            # out-of-range index = panic
            return self.seq([v, i], lambda a: Val(f"({a[0]}[{a[1]}]?)", False, v.ty[1]))
        if k == "mcall":
            return self.mcall(e, env, expect)
        if k == "call":
            return self.call(e, env, expect)
        if k == "if":
            return self.ifexpr(e, env, expect)
        if k == "match":
            return self.matchexpr(e, env, expect)
        if k == "block":
            return self.block(e, env, expect)
        if k == "return":
            return self.expr(e.e, env, expect)
        if k == "panic":
            return Val("none", False, expect)
        raise ExtractError(f"unsupported expression kind {k}")

    def cast(self, e, env):
        to = e.ty
        inner = e.e
        # ((X) as f64).sqrt() as uN
        x = inner
        while x.k == "paren":
            x = x.e
        if x.k == "mcall" and x.name == "sqrt" and not x.args:
            y = x.e
            while y.k == "paren":
                y = y.e
            if y.k == "cast" and y.ty == "f64" and to in INT_TYPES:
                v = self.expr(y.e, env)
                if v.ty not in INT_TYPES:
                    raise ExtractError("sqrt of a non-integer")
                self.ops_used.add("f64-sqrt")
                return self.seq([v], lambda a: Val(
                    f"(Option.bind (csqrtF64 {a[0]}) fun r => ccast {WIDTH[to]} r)", False, to))
            raise ExtractError("unsupported use of .sqrt()")
        v = self.expr(inner, env, None if to not in INT_TYPES else to)
        if v.ty == "f64" or to == "f64":
            raise ExtractError("float cast outside the `(x as f64).sqrt() as uN` pattern")
        if to not in INT_TYPES or v.ty not in INT_TYPES:
            raise ExtractError(f"unsupported cast {v.ty} as {to}")
        if WIDTH[to] >= WIDTH[v.ty]:
            return Val(v.code, v.pure, to)          # widening: value unchanged
        self.ops_used.add("narrowing-cast")
        return self.seq([v], lambda a: Val(f"(ccast {WIDTH[to]} {a[0]})", False, to))

    def binop(self, e, env, expect):
        op = e.op
        if op in ("&&", "||"):
            l, r = self.expr(e.l, env), self.expr(e.r, env)
            if not (l.ty == "bool" and r.ty == "bool"):
                raise ExtractError(f"`{op}` with non-boolean operands")
            if r.pure:
                return self.seq([l], lambda a: Val(f"({a[0]} {op} {r.code})", True, "bool"))
            # short circuit: the right operand is evaluated only when needed
            if op == "&&":
                return self.seq([l], lambda a: Val(f"(if {a[0]} then {r.code} else some false)", False, "bool"))
            return self.seq([l], lambda a: Val(f"(if {a[0]} then some true else {r.code})", False, "bool"))
        lt, rt = self.typeof(e.l, env), self.typeof(e.r, env)
        if lt == "Uint":
            # bit length abstraction: bits(n >> k) = bits(n) - k (truncated), exact
            if op != ">>":
                raise ExtractError(f"operator {op} on a big integer is not abstracted")
            l = self.expr(e.l, env)
            r = self.expr(e.r, env, "u32")
            return self.seq([l, r], lambda a: Val(f"({a[0]} - {a[1]})", True, "Uint"))
        if op in ("==", "!=", "<", ">", "<=", ">="):
            ty = self.unify(lt, rt, f"`{op}`") or "i32"
            l, r = self.expr(e.l, env, ty), self.expr(e.r, env, ty)
            lop = {"==": "==", "!=": "!=", "<": "<", ">": ">", "<=": "≤", ">=": "≥"}[op]
            return self.seq([l, r], lambda a: Val(f"(decide ({a[0]} {lop} {a[1]}))" if op not in ("==", "!=")
                                                  else f"({a[0]} {lop} {a[1]})", True, "bool"))
        if op in ("<<", ">>"):
            ty = lt or expect or "i32"
            l = self.expr(e.l, env, ty)
            r = self.expr(e.r, env, rt or "u32")
            if ty not in INT_TYPES:
                raise ExtractError(f"shift of {ty}")
            fn = "cshl" if op == "<<" else "cshr"
            self.ops_used.add(fn)
            return self.seq([l, r], lambda a: Val(f"({fn} {WIDTH[ty]} {a[0]} {a[1]})", False, ty))
        ty = self.unify(lt, rt, f"`{op}`") or expect or "i32"
        if ty not in INT_TYPES:
            raise ExtractError(f"arithmetic on {ty}")
        l, r = self.expr(e.l, env, ty), self.expr(e.r, env, ty)
        w = WIDTH[ty]
        if op in ("&", "|", "^"):
            lop = {"&": "&&&", "|": "|||", "^": "^^^"}[op]
            return self.seq([l, r], lambda a: Val(f"({a[0]} {lop} {a[1]})", True, ty))
        fn = {"+": f"cadd {w}", "-": "csub", "*": f"cmul {w}", "/": "cdiv", "%": "cmod"}[op]
        self.ops_used.add(fn.split()[0])
        return self.seq([l, r], lambda a: Val(f"({fn} {a[0]} {a[1]})", False, ty))

    def mcall(self, e, env, expect):
        nm = e.name
        if nm == "bits" and not e.args:
            v = self.expr(e.e, env)
            if v.ty != "Uint":
                raise ExtractError(".bits() on something that is not an abstracted big integer")
            return Val(v.code, v.pure, "u32")
        if nm in ("unsigned_abs", "abs", "clone") and not e.args:
            v = self.expr(e.e, env)
            if v.ty != "Uint":
                raise ExtractError(f".{nm}() is only supported on abstracted big integers")
            return v
        if nm in ("min", "max") and len(e.args) == 1:
            ty = self.unify(self.typeof(e.e, env), self.typeof(e.args[0], env), nm) or expect or "i32"
            l, r = self.expr(e.e, env, ty), self.expr(e.args[0], env, ty)
            return self.seq([l, r], lambda a: Val(f"({nm} {a[0]} {a[1]})", True, ty))
        if nm == "len" and not e.args:
            v = self.expr(e.e, env)
            if not (isinstance(v.ty, tuple) and v.ty[0] == "slice"):
                raise ExtractError(".len() on a non-slice")
            return self.seq([v], lambda a: Val(f"({a[0]}.length)", True, "usize"))
        if nm == "leading_zeros" and not e.args:
            v = self.expr(e.e, env)
            if v.ty not in INT_TYPES or v.ty.startswith("i"):
                raise ExtractError(".leading_zeros() on a non-unsigned value")
            return self.seq([v], lambda a: Val(f"(clz {WIDTH[v.ty]} {a[0]})", True, "u32"))
        if nm == "partition_point" and len(e.args) == 1 and e.args[0].k == "closure":
            v = self.expr(e.e, env)
            if not (isinstance(v.ty, tuple) and v.ty[0] == "slice"):
                raise ExtractError(".partition_point() on a non-slice")
            cl = e.args[0]
            if len(cl.params) != 1:
                raise ExtractError("partition_point closure must take one argument")
            row = self.fresh("row")
            env2 = dict(env)
            self.bind_closure_param(cl.params[0], row, v.ty[1], env2)
            body = self.expr(cl.body, env2)
            if not body.pure or body.ty != "bool":
                raise ExtractError("partition_point predicate must be a pure boolean expression")
            return self.seq([v], lambda a: Val(f"(partitionPoint (fun {row} => {body.code}) {a[0]})", True, "usize"))
        raise ExtractError(f"unsupported method .{nm}()")

    def bind_closure_param(self, pat, term, ty, env):
        if pat.k == "pbind":
            env[pat.name] = (term, ty)
        elif pat.k == "pwild":
            pass
        elif pat.k == "ptuple":
            n = len(pat.items)
            if not (isinstance(ty, tuple) and ty[0] == "tuple" and len(ty[1]) == n):
                raise ExtractError("closure tuple pattern does not match the element type")
            for i, p in enumerate(pat.items):
                self.bind_closure_param(p, proj(term, i, n), ty[1][i], env)
        else:
            raise ExtractError("unsupported closure parameter pattern")

    def call(self, e, env, expect):
        if e.f.k != "path":
            raise ExtractError("call of a non-path")
        nm = e.f.segs[-1]
        if nm in ("min", "max") and len(e.args) == 2:
            ty = self.unify(self.typeof(e.args[0], env), self.typeof(e.args[1], env), nm) or expect or "i32"
            l, r = self.expr(e.args[0], env, ty), self.expr(e.args[1], env, ty)
            return self.seq([l, r], lambda a: Val(f"({nm} {a[0]} {a[1]})", True, ty))
        if nm in self.funcs:
            lname, ptys, rty = self.funcs[nm]
            if len(ptys) != len(e.args):
                raise ExtractError(f"call of {nm} with {len(e.args)} arguments, expected {len(ptys)}")
            vals = []
            for a, pt in zip(e.args, ptys):
                v = self.expr(a, env, pt if pt in INT_TYPES else None)
                if v.ty != pt:
                    raise ExtractError(f"argument of {nm}: {v.ty} where {pt} expected")
                vals.append(v)
            return self.seq(vals, lambda a: Val("(" + " ".join([lname] + a) + ")", False, rty))
        raise ExtractError(f"call to untranslated function {'::'.join(e.f.segs)}")

    def cond(self, c, env):
        v = self.expr(c, env)
        if v.ty != "bool":
            raise ExtractError("condition is not boolean")
        return v

    def ifexpr(self, e, env, expect):
        ty = self.fill(self.typeof(e, env), expect)
        c = self.cond(e.c, env)
        th = self.block(e.th, env, ty)
        if e.el is None:
            raise ExtractError("`if` without `else` in value position")
        el = self.ifexpr(e.el, env, ty) if e.el.k == "if" else self.block(e.el, env, ty)
        rty = self.fill(th.ty, ty)
        if th.pure and el.pure:
            return self.seq([c], lambda a: Val(f"(if {a[0]} then {th.code} else {el.code})", True, rty))
        return self.seq([c], lambda a: Val(f"(if {a[0]} then {th.opt()}\n else {el.opt()})", False, rty))

    def pattern_cond(self, pat, atom, ty, env):
        """-> Lean Bool term (or None = always) ; binds pattern variables in env"""
        if pat.k == "pwild":
            return None
        if pat.k == "pbind":
            env[pat.name] = (atom, ty)
            return None
        if pat.k == "pbool":
            return atom if pat.value else f"(!{atom})"
        if pat.k == "prange":
            if ty not in INT_TYPES:
                raise ExtractError("range pattern on a non-integer")
            if pat.hi is not None and pat.hi < pat.lo:
                raise ExtractError("empty range pattern")
            top = pat.hi if pat.hi is not None else pat.lo
            if top >= 2 ** WIDTH[ty]:
                raise ExtractError("range pattern exceeds the scrutinee type")
            conds = []
            if pat.lo > 0:
                conds.append(f"decide ({pat.lo} ≤ {atom})")
            if pat.hi is not None:
                conds.append(f"decide ({atom} ≤ {pat.hi})")
            if not conds:
                return None
            return "(" + " && ".join(conds) + ")"
        if pat.k == "por":
            cs = []
            for p in pat.alts:
                c = self.pattern_cond(p, atom, ty, env)
                if c is None:
                    return None
                cs.append(c)
            return "(" + " || ".join(cs) + ")"
        if pat.k == "ptuple":
            n = len(pat.items)
            if not (isinstance(ty, tuple) and ty[0] == "tuple" and len(ty[1]) == n):
                raise ExtractError("tuple pattern against a non-tuple scrutinee")
            cs = [self.pattern_cond(p, proj(atom, i, n), ty[1][i], env) for i, p in enumerate(pat.items)]
            cs = [c for c in cs if c is not None]
            if not cs:
                return None
            return "(" + " && ".join(cs) + ")"
        raise ExtractError(f"unsupported pattern {pat.k}")

    def matchexpr(self, e, env, expect):
        ty = self.fill(self.typeof(e, env), expect)
        scrut = self.expr(e.e, env)
        sty = self.fill(scrut.ty, "i32")

        def build(a):
            atom = a[0]
            code = "none"            # rustc checks exhaustiveness; falling through is unreachable
            closed = False
            arms = []
            for arm in e.arms:
                env2 = dict(env)
                c = self.pattern_cond(arm.pat, atom, sty, env2)
                if arm.guard is not None:
                    g = self.cond(arm.guard, env2)
                    if not g.pure:
                        raise ExtractError("effectful match guard")
                    c = g.code if c is None else f"({c} && {g.code})"
                body = self.expr(arm.body, env2, ty)
                arms.append((c, body))
                if c is None:
                    closed = True
                    break
            allpure = all(b.pure for _, b in arms) and closed
            if allpure:
                code = arms[-1][1].code
                for c, b in reversed(arms[:-1]):
                    code = f"(if {c} then {b.code} else {code})"
                return Val(code, True, self.fill(arms[0][1].ty, ty))
            if closed:
                code = arms[-1][1].opt()
                rest = arms[:-1]
            else:
                rest = arms
            for c, b in reversed(rest):
                code = f"(if {c} then {b.opt()}\n else {code})"
            return Val(code, False, ty)
        return self.seq([scrut], build)

    # ---- blocks / statements
    def block(self, b, env, expect=None):
        env = dict(env)
        return self.stmts(b.stmts, b.value, env, expect)

    def stmts(self, stmts, value, env, expect):
        if not stmts:
            if value is None:
                raise ExtractError("block without a value")
            return self.expr(value, env, expect)
        s, rest = stmts[0], stmts[1:]
        if s.k == "let":
            rhs_expect = s.ty
            v = self.expr(s.e, env, rhs_expect)
            ty = self.fill(v.ty, s.ty) if s.ty is None else s.ty
            if s.ty is not None and self.fill(v.ty, s.ty) != s.ty:
                raise ExtractError(f"let type annotation {s.ty} vs expression type {v.ty}")
            return self.bind_let(s.pat, v, ty, env, lambda env2: self.stmts(rest, value, env2, expect))
        if s.k == "assign":
            tgt = s.target
            if tgt.k != "path" or len(tgt.segs) != 1 or tgt.segs[0] not in env:
                raise ExtractError("assignment to something that is not a local variable")
            name = tgt.segs[0]
            rhs = s.e if s.op == "=" else Node("bin", op=s.op[:-1], l=tgt, r=s.e)
            v = self.expr(rhs, env, env[name][1])
            return self.bind_let(Node("pbind", name=name, mut=True), v, env[name][1], env,
                                 lambda env2: self.stmts(rest, value, env2, expect))
        if s.k == "expr" and s.e.k == "assert":
            c = self.cond(s.e.c, env)
            k = self.stmts(rest, value, env, expect)
            return self.seq([c], lambda a: Val(f"(if {a[0]} then {k.opt()}\n else none)", False, k.ty))
        if s.k == "expr" and s.e.k == "if":
            # statement `if c { x op= e; ... } [else { ... }]` : rebinding of the assigned variables
            names = []
            self.assigned_vars(s.e, names)
            if not names:
                raise ExtractError("`if` statement without effect on local variables")
            for blk in self.if_blocks(s.e):
                if blk.value is not None:
                    raise ExtractError("value in a statement-`if` block")
            tys = [env[n][1] for n in names]
            if len(names) == 1:
                result = Node("path", segs=[names[0]])
                pat = Node("pbind", name=names[0], mut=True)
                ty = tys[0]
            else:
                result = Node("tuple", items=[Node("path", segs=[n]) for n in names])
                pat = Node("ptuple", items=[Node("pbind", name=n, mut=True) for n in names])
                ty = ("tuple", tuple(tys))

            def as_value_if(n):
                th = Node("block", stmts=n.th.stmts, value=result)
                if n.el is None:
                    el = Node("block", stmts=[], value=result)
                elif n.el.k == "if":
                    el = Node("block", stmts=[], value=as_value_if(n.el))
                else:
                    el = Node("block", stmts=n.el.stmts, value=result)
                return Node("if", c=n.c, th=th, el=el)
            v = self.expr(as_value_if(s.e), env, ty)
            return self.bind_let(pat, v, ty, env, lambda env2: self.stmts(rest, value, env2, expect))
        raise ExtractError(f"unsupported statement kind {s.k}" + (f" ({s.e.k})" if s.k == "expr" else ""))

    def if_blocks(self, n):
        out = [n.th]
        if n.el is not None:
            out += self.if_blocks(n.el) if n.el.k == "if" else [n.el]
        return out

    def assigned_vars(self, n, acc):
        for blk in self.if_blocks(n):
            for s in blk.stmts:
                if s.k != "assign":
                    raise ExtractError("statement-`if` block containing something else than assignments")
                t = s.target
                if t.k != "path" or len(t.segs) != 1:
                    raise ExtractError("assignment to a non-variable")
                if t.segs[0] not in acc:
                    acc.append(t.segs[0])

    def bind_let(self, pat, v, ty, env, k):
        """let pat = v; continuation k(env')"""
        if pat.k == "pwild":
            res = k(env)
            return self.seq([v], lambda a: res)
        if pat.k == "pbind":
            if v.pure and re.fullmatch(r"[\w.']+", v.code):
                env2 = dict(env)
                env2[pat.name] = (v.code, ty)
                return k(env2)
            nm = self.lean_ident(pat.name)
            env2 = dict(env)
            env2[pat.name] = (nm, ty)
            res = k(env2)
            if v.pure:
                return Val(f"(let {nm} := {v.code};\n {res.code})", res.pure, res.ty)
            return Val(f"(Option.bind {v.code} fun {nm} =>\n {res.opt()})", False, res.ty)
        if pat.k == "ptuple":
            n = len(pat.items)
            if not (isinstance(ty, tuple) and ty[0] == "tuple" and len(ty[1]) == n):
                raise ExtractError("tuple pattern in `let` against a non-tuple")
            tmp = self.fresh("p")
            env2 = dict(env)
            for i, p in enumerate(pat.items):
                if p.k == "pbind":
                    env2[p.name] = (proj(tmp, i, n), ty[1][i])
                elif p.k != "pwild":
                    raise ExtractError("nested pattern in `let`")
            res = k(env2)
            if v.pure:
                return Val(f"(let {tmp} := {v.code};\n {res.code})", res.pure, res.ty)
            return Val(f"(Option.bind {v.code} fun {tmp} =>\n {res.opt()})", False, res.ty)
        raise ExtractError("unsupported `let` pattern")

    @staticmethod
    def lean_ident(name):
        if not re.fullmatch(r"[A-Za-z_]\w*", name):
            raise ExtractError(f"identifier {name!r}")
        return name + "'" if name in ("at", "from", "to", "end", "fun", "def", "open", "by", "do", "then", "show", "have", "in") else name

    # ---- functions
    def function(self, f, lean_name, uint_params=(), doc=None):
        """-> (Lean `def` text, [param types], ret type). Parameters whose type is `Uint`/`Int`
        (listed in uint_params) are replaced by their bit length."""
        env, binders, ptys = {}, [], []
        for pname, pty in f.params:
            if pname == "self":
                continue
            if pname in uint_params:
                ty = "Uint"
                ln = pname + "_bits"
            else:
                ty = pty
                ln = self.lean_ident(pname)
            if isinstance(ty, tuple) and ty[0] == "generic":
                raise ExtractError(f"parameter {pname} of {f.name} has an unsupported type")
            env[pname] = (ln, ty)
            binders.append(f"({ln} : {lean_type(ty)})")
            ptys.append(ty)
        for u in uint_params:
            if u not in env:
                raise ExtractError(f"{f.name}: no parameter named {u}")
        if f.ret is None:
            raise ExtractError(f"{f.name} has no return type")
        self.n = 0
        body = self.block(f.body, env, f.ret)
        if self.fill(body.ty, f.ret) != f.ret:
            raise ExtractError(f"{f.name}: body has type {body.ty}, signature says {f.ret}")
        text = ""
        if doc:
            text += f"/-- {doc} -/\n"
        text += f"def {lean_name} " + " ".join(binders) + f" : Option {lean_type(f.ret)} :=\n {body.opt()}\n"
        return text, ptys, f.ret
