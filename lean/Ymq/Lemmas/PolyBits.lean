/-
Bit-level facts used by `Poly::next` (C12): the `u32` min trick and the Gray-code step.
-/
import Mathlib.Tactic.Ring
import Mathlib.Tactic.Linarith
import Mathlib.Data.Nat.Bitwise
import Ymq.Model.SiqsPoly
namespace Ymq.PolyBits
open Ymq.SiqsPoly

theorem stepUp_eq (r d p : Nat) (hr : r < p) (hd : d < p) (hp : p < 2 ^ 31) :
    stepUp p d r = (r + d) % p := by
  unfold stepUp W32
  dsimp only
  by_cases h : r + d < p
  · rw [Nat.mod_eq_of_lt h]; omega
  · have : (r + d) % p = r + d - p := by
      rw [Nat.mod_eq_sub_mod (by omega), Nat.mod_eq_of_lt (by omega)]
    rw [this]; omega

theorem stepDown_eq (r d p : Nat) (hr : r < p) (hd : d < p) (hp : p < 2 ^ 31) :
    stepDown p d r = (r + p - d) % p := by
  unfold stepDown W32
  dsimp only
  by_cases h : d ≤ r
  · have : (r + p - d) % p = r - d := by
      have : r + p - d = (r - d) + p := by omega
      rw [this, Nat.add_mod_right, Nat.mod_eq_of_lt (by omega)]
    rw [this]; omega
  · rw [Nat.mod_eq_of_lt (a := r + p - d) (by omega)]; omega

/-- Gray code -/
def gray (n : Nat) : Nat := n ^^^ (n >>> 1)

/-- number of trailing zero bits of a non-zero number (0 for 0) -/
def tzN : Nat → Nat
  | 0 => 0
  | n + 1 => if (n + 1) % 2 = 1 then 0 else 1 + tzN ((n + 1) / 2)
decreasing_by omega

theorem gray_xor_succ (n : Nat) : gray n ^^^ gray (n + 1) = 2 ^ tzN (n + 1) := by
  induction n using Nat.strong_induction_on with
  | _ n ih =>
    have hX : ∀ X : Nat, X = 2 * (X / 2) + X % 2 := fun X => by omega
    simp only [gray, Nat.shiftRight_eq_div_pow, pow_one]
    rw [hX (n ^^^ n / 2 ^^^ (n + 1 ^^^ (n + 1) / 2))]
    rw [Nat.xor_div_two, Nat.xor_div_two, Nat.xor_div_two, Nat.xor_mod_two_eq, Nat.add_mod,
      Nat.xor_mod_two_eq (m := n), Nat.xor_mod_two_eq (m := n + 1)]
    rcases Nat.even_or_odd' n with ⟨k, rfl | rfl⟩
    · have h1 : (2 * k + 1) / 2 = k := by omega
      have h2 : 2 * k / 2 = k := by omega
      rw [h1, h2, Nat.xor_self]
      unfold tzN
      simp
      omega
    · have h1 : (2 * k + 1 + 1) / 2 = k + 1 := by omega
      have h2 : (2 * k + 1) / 2 = k := by omega
      have := ih k (by omega)
      simp only [gray, Nat.shiftRight_eq_div_pow, pow_one] at this
      rw [h1, h2, this]
      have : tzN (2 * k + 1 + 1) = 1 + tzN (k + 1) := by
        rw [tzN]; simp [h1]; omega
      rw [this, pow_add]; omega

theorem tzN_pos_spec : ∀ m : Nat, 0 < m → 2 ^ tzN m ∣ m ∧ ¬ 2 ^ (tzN m + 1) ∣ m := by
  intro m
  induction m using Nat.strong_induction_on with
  | _ m ih =>
    intro hm
    obtain ⟨k, rfl⟩ : ∃ k, m = k + 1 := ⟨m - 1, by omega⟩
    rw [tzN]
    by_cases hodd : (k + 1) % 2 = 1
    · simp only [hodd, if_true, pow_zero, one_dvd, zero_add, pow_one, true_and]
      omega
    · simp only [hodd, if_false]
      obtain ⟨q, hq⟩ : ∃ q, (k + 1) / 2 = q := ⟨_, rfl⟩
      rw [hq]
      have hk : k + 1 = 2 * q := by omega
      obtain ⟨h1, h2⟩ := ih q (by omega) (by omega)
      rw [hk]
      constructor
      · rw [Nat.add_comm 1, pow_succ, Nat.mul_comm]
        exact Nat.mul_dvd_mul_left 2 h1
      · intro hd
        apply h2
        have e : 2 ^ (1 + tzN q + 1) = 2 * 2 ^ (tzN q + 1) := by
          rw [Nat.add_comm 1, pow_succ (2) (tzN q + 1)]; ring
        rw [e] at hd
        exact (Nat.mul_dvd_mul_iff_left (by norm_num)).mp hd

theorem tzAux_eq_tzN : ∀ (f m : Nat), 0 < m → m < 2 ^ f → tzAux f m = tzN m := by
  intro f
  induction f with
  | zero => intro m h0 h1; simp at h1; omega
  | succ f ih =>
    intro m h0 h1
    obtain ⟨k, rfl⟩ : ∃ k, m = k + 1 := ⟨m - 1, by omega⟩
    rw [tzAux, tzN]
    by_cases hodd : (k + 1) % 2 = 1
    · simp [hodd]
    · simp only [hodd, if_false]
      rw [ih ((k + 1) / 2) (by omega) (by rw [pow_succ] at h1; omega)]

theorem tz64_eq_tzN (m : Nat) (h0 : 0 < m) (h1 : m < 2 ^ 64) : tz64 m = tzN m := by
  unfold tz64
  rw [if_neg (by omega)]
  exact tzAux_eq_tzN 64 m h0 h1

theorem tzN_two_pow (t : Nat) : tzN (2 ^ t) = t := by
  induction t with
  | zero => show tzN (0 + 1) = 0; rw [tzN]; simp
  | succ t ih =>
    have hpos : 0 < 2 ^ t := Nat.pos_of_ne_zero (by positivity)
    obtain ⟨k, hk⟩ : ∃ k, 2 ^ (t + 1) = k + 1 := ⟨2 ^ (t + 1) - 1, by have : 0 < 2 ^ (t+1) := by positivity
                                                                      omega⟩
    rw [hk, tzN, ← hk]
    have h1 : 2 ^ (t + 1) % 2 = 0 := by rw [pow_succ]; omega
    have h2 : 2 ^ (t + 1) / 2 = 2 ^ t := by rw [pow_succ]; omega
    simp [h1, h2, ih]; omega

/-- `Poly::next`: the Gray codes of `idx` and `idx + 1` differ exactly in bit `tz(idx + 1)`;
the value computed by the code is that bit and the assertion of the code holds. -/
theorem gray_step_aux (idx : Nat) (h : idx + 1 < 2 ^ 64) :
    let pg := idx ^^^ (idx >>> 1)
    let ng := (idx + 1) ^^^ ((idx + 1) >>> 1)
    let bit := tz64 (pg ^^^ ng)
    bit = tzN (idx + 1) ∧ bit < 64 ∧ ng = pg ^^^ (1 <<< bit) ∧
      (∀ i, ng.testBit i = (pg.testBit i ^^ decide (bit = i))) := by
  intro pg ng bit
  have hx : pg ^^^ ng = 2 ^ tzN (idx + 1) := gray_xor_succ idx
  obtain ⟨hd, _⟩ := tzN_pos_spec (idx + 1) (by omega)
  have ht : tzN (idx + 1) < 64 := by
    by_contra hc
    have : 2 ^ 64 ∣ idx + 1 := Nat.dvd_trans (pow_dvd_pow 2 (by omega)) hd
    have := Nat.le_of_dvd (by omega) this
    omega
  have hbit : bit = tzN (idx + 1) := by
    show tz64 (pg ^^^ ng) = _
    rw [hx, tz64_eq_tzN _ (by positivity) (Nat.pow_lt_pow_right (by norm_num) ht), tzN_two_pow]
  have hng : ng = pg ^^^ (1 <<< bit) := by
    rw [Nat.one_shiftLeft, hbit, ← hx, ← Nat.xor_assoc, Nat.xor_self, Nat.zero_xor]
  refine ⟨hbit, hbit ▸ ht, hng, ?_⟩
  intro i
  rw [hng, Nat.testBit_xor, Nat.one_shiftLeft, Nat.testBit_two_pow]

/-! ### integer square root -/

theorem isqrtAux_spec : ∀ (k r n : Nat), r * r ≤ n → n < (r + 2 ^ k) * (r + 2 ^ k) →
    isqrtAux k r n * isqrtAux k r n ≤ n ∧ n < (isqrtAux k r n + 1) * (isqrtAux k r n + 1) := by
  intro k
  induction k with
  | zero => intro r n h1 h2; simpa [isqrtAux] using ⟨h1, h2⟩
  | succ k ih =>
    intro r n h1 h2
    rw [isqrtAux]
    split
    · rename_i hle
      apply ih _ _ hle
      have : r + 2 ^ k + 2 ^ k = r + 2 ^ (k + 1) := by rw [pow_succ]; ring
      rw [this]; exact h2
    · rename_i hlt
      exact ih _ _ h1 (by omega)

/-- `isqrt` is the floor square root (the specification of `num_integer::sqrt`) -/
theorem isqrt_spec (n : Nat) : isqrt n * isqrt n ≤ n ∧ n < (isqrt n + 1) * (isqrt n + 1) := by
  unfold isqrt
  apply isqrtAux_spec
  · simp
  · have h := Nat.lt_log2_self (n := n)
    have : 2 ^ (n.log2 + 1) ≤ 2 ^ (n.log2 / 2 + 1) * 2 ^ (n.log2 / 2 + 1) := by
      rw [← pow_add]; exact Nat.pow_le_pow_right (by norm_num) (by omega)
    simp only [Nat.zero_add]
    omega

end Ymq.PolyBits
