/-
SIQS (C12): from the outputs of `select_siqs_factors` / `select_a` to the hypotheses of the CRT and totality
theorems (`afsOf` recovers the chosen primes), and the end-to-end totality statement.
-/
import Ymq.Lemmas.PolySelectA
import Ymq.Lemmas.PolyWalkTotal
import Mathlib.Algebra.BigOperators.Group.Finset.Basic
namespace Ymq.PolySelect
open Ymq.SiqsPoly Ymq.SiqsSelect Ymq.PolySizes Ymq.PolyCrt Ymq.PolySiqs

/-- `withIdx`, filtered on the index and mapped on the value, as a map over the indices -/
theorem withIdx_filter_map {α β} (d : α) (m : Nat → Bool) (g : α → β) : ∀ (l : List α) (k : Nat),
    ((withIdx k l).filter fun ip => m ip.1).map (fun ip => g ip.2)
      = ((List.range' k l.length).filter m).map fun i => g (l.getD (i - k) d) := by
  intro l
  induction l with
  | nil => intro k; simp [withIdx]
  | cons x xs ih =>
    intro k
    simp only [withIdx, List.length_cons, List.range'_succ, List.filter_cons]
    have hrest := ih (k + 1)
    have e : (List.map (fun i => g ((x :: xs).getD (i - k) d)) (List.filter m (List.range' (k + 1) xs.length)))
        = List.map (fun i => g (xs.getD (i - (k + 1)) d)) (List.filter m (List.range' (k + 1) xs.length)) := by
      apply List.map_congr_left
      intro i hi
      have := (List.mem_range'_1.mp (List.mem_filter.mp hi).1).1
      have e2 : i - k = (i - (k + 1)) + 1 := by omega
      rw [e2]; simp
    by_cases hm : m k = true
    · simp only [hm, if_true, List.map_cons, Nat.sub_self, List.getD_cons_zero]
      rw [hrest, e]
    · simp only [hm, Bool.false_eq_true, if_false]
      rw [hrest, e]

/-- a product of `k` selected primes with distinct indices determines its factors: `afsOf` recovers them -/
theorem isProd_afs {n : Int} {sel : List Prime} {f : Factors} {k A : Nat} (hs : SelOk n sel)
    (hf : mkFactors n sel = some f) (hA : IsProd (sel.map (·.p)) k A) :
    A = ((afsOf f A).map (·.2.p)).prod ∧ (afsOf f A).length = k := by
  obtain ⟨idxs, hnd, hlen, hlt, hprod⟩ := hA
  simp only [List.length_map] at hlt
  have hfs : f.factors = sel := by
    unfold mkFactors at hf
    simp only [Option.bind_eq_bind] at hf
    cases htbl : mkInverses sel with
    | none => simp [htbl] at hf
    | some tbl => simp only [htbl, Option.bind_some, Option.some.injEq] at hf; rw [← hf]
  -- the value of the product in terms of `sel`
  have hgetD : ∀ i, (sel.map (·.p)).getD i 0 = (sel.getD i ⟨0, 0⟩).p := by
    intro i
    simp only [List.getD_eq_getElem?_getD, List.getElem?_map]
    cases sel[i]? <;> rfl
  have hprod' : A = (idxs.map fun i => (sel.getD i ⟨0, 0⟩).p).prod := by
    rw [hprod]; congr 1; exact List.map_congr_left (fun i _ => hgetD i)
  -- which entries pass the filter of `afsOf`
  have hfilter : ∀ ip ∈ withIdx 0 sel, (ip.2.p != 0 && A % ip.2.p == 0) = idxs.contains ip.1 := by
    rintro ⟨i, q⟩ hip
    obtain ⟨i', hi', hi0, hq⟩ := (mem_withIdx sel 0 i q).mp hip
    simp only [Nat.zero_add] at hi0; subst hi0; subst hq
    have hpi : Nat.Prime sel[i].p := hs.prime _ (List.getElem_mem hi')
    have hgi : (sel.getD i ⟨0, 0⟩) = sel[i] := by
      rw [List.getD_eq_getElem?_getD, List.getElem?_eq_getElem hi']; rfl
    by_cases hmem : i ∈ idxs
    · have hdvd : sel[i].p ∣ A := by
        rw [hprod']
        apply List.dvd_prod
        exact List.mem_map.mpr ⟨i, hmem, by rw [hgi]⟩
      have : idxs.contains i = true := by simpa using hmem
      rw [this]
      simp only [Bool.and_eq_true, bne_iff_ne, ne_eq, beq_iff_eq]
      exact ⟨hpi.pos.ne', Nat.mod_eq_zero_of_dvd hdvd⟩
    · have : idxs.contains i = false := by simpa using hmem
      rw [this]
      simp only [Bool.and_eq_false_iff, bne_eq_false_iff_eq, beq_eq_false_iff_ne, ne_eq]
      right
      intro hmod
      have hdvd : sel[i].p ∣ A := Nat.dvd_of_mod_eq_zero hmod
      rw [hprod'] at hdvd
      obtain ⟨y, hy, hpy⟩ := (Nat.Prime.prime hpi).dvd_prod_iff.mp hdvd
      obtain ⟨j, hj, rfl⟩ := List.mem_map.mp hy
      have hjlt := hlt j hj
      have hgj : (sel.getD j ⟨0, 0⟩) = sel[j] := by
        rw [List.getD_eq_getElem?_getD, List.getElem?_eq_getElem hjlt]; rfl
      rw [hgj] at hpy
      have hpj : Nat.Prime sel[j].p := hs.prime _ (List.getElem_mem hjlt)
      have heq := (Nat.prime_dvd_prime_iff_eq hpi hpj).mp hpy
      have := (List.Nodup.getElem_inj_iff hs.nodup (i := i) (j := j)
        (hi := by simpa using hi') (hj := by simpa using hjlt)).mp (by simpa using heq)
      exact hmem (this ▸ hj)
  have hafs : afsOf f A = (withIdx 0 sel).filter fun ip => idxs.contains ip.1 := by
    unfold afsOf; rw [hfs]
    exact List.filter_congr hfilter
  -- the filtered index list is a permutation of `idxs`
  have hperm : ((List.range' 0 sel.length).filter fun i => idxs.contains i).Perm idxs := by
    apply (List.perm_ext_iff_of_nodup ((List.nodup_range' (s := 0) (n := sel.length)).filter _) hnd).mpr
    intro i
    simp only [List.mem_filter, List.mem_range'_1, List.contains_iff_mem, zero_le, true_and, Nat.zero_add]
    constructor
    · rintro ⟨_, h⟩; simpa using h
    · intro h; exact ⟨hlt i h, by simpa using h⟩
  constructor
  · rw [hafs, withIdx_filter_map ⟨0, 0⟩ (fun i => idxs.contains i) (fun q => q.p) sel 0, hprod']
    simp only [Nat.sub_zero]
    exact ((hperm.map _).prod_eq).symm
  · rw [hafs]
    have := congrArg List.length (withIdx_filter_map ⟨0, 0⟩ (fun i => idxs.contains i) (fun q : Prime => q.p) sel 0)
    simp only [List.length_map] at this
    rw [this, hperm.length_eq, hlen]

/-- `select_a`: every returned value is a product of `nfacs` selected primes with distinct indices; on the
sampling branch it lies strictly inside the tolerance window of some divisor `d ≤ a_tolerance_divisor` -/
theorem selectA_sound {n : Int} {tgt nfacs want fuel : Nat} {ps as : List Nat} (hnf : 0 < nfacs)
    (h : selectA n tgt nfacs want ps fuel = some as) :
    ∀ A ∈ as, IsProd ps nfacs A ∧
      (¬ (nfacs ≤ Ymq.Gen.SiqsSel.smallNf ∧ bitlen tgt ≤ Ymq.Gen.SiqsSel.smallBits) →
        ∃ d, (tolWindow tgt d).1 < A ∧ A < (tolWindow tgt d).2) := by
  unfold selectA at h
  rw [if_neg (by omega)] at h
  split at h
  · cases h
  · rename_i div hdiv
    split at h
    · cases h
    · split at h
      · rename_i hsmall
        intro A hA
        exact ⟨selectSmall_sound h A hA, fun hns => absurd hsmall hns⟩
      · intro A hA
        obtain ⟨h1, d, _, h2, h3⟩ := sampleLoop_ok tgt nfacs want div ps hnf fuel 0 _ div [] as (le_refl _)
          (by simp) h A hA
        exact ⟨h1, fun _ => ⟨d, h2, h3⟩⟩

/-- the windows: `A < 4·target` always; `target ≤ 4A` unless the divisor is 1; `3·target ≤ 4A` from divisor 4 on -/
theorem tolWindow_bounds {tgt d A : Nat} (h1 : (tolWindow tgt d).1 < A) (h2 : A < (tolWindow tgt d).2) :
    A ≤ 4 * tgt ∧ (d ≠ 1 → tgt ≤ 4 * A) ∧ (4 ≤ d → 3 * tgt ≤ 4 * A) := by
  unfold tolWindow at h1 h2
  split at h1
  · rename_i h0
    simp only [h0, if_true] at h2
    simp only at h1 h2
    exact ⟨by omega, fun _ => by omega, fun h4 => by omega⟩
  · rename_i h0
    simp only [h0, if_false] at h2
    simp only at h1 h2
    have hdle : tgt / d ≤ tgt := Nat.div_le_self _ _
    refine ⟨by omega, ?_, ?_⟩
    · intro hd1
      have : tgt / d ≤ tgt / 2 := Nat.div_le_div_left (by omega) (by norm_num)
      omega
    · intro h4
      have : tgt / d ≤ tgt / 4 := Nat.div_le_div_left h4 (by norm_num)
      omega

theorem mkFactors_isSome {n : Int} {sel : List Prime} (hs : SelOk n sel) : ∃ f, mkFactors n sel = some f := by
  have hrow : ∀ p ∈ sel, ∃ row, allSome (sel.map fun q => if p.p = q.p then some 0 else invMod p.p q.p) = some row := by
    intro p hp
    apply allSome_isSome
    intro x hx
    obtain ⟨q, hq, rfl⟩ := List.mem_map.mp hx
    by_cases he : p.p = q.p
    · exact ⟨0, by rw [if_pos he]⟩
    · rw [if_neg he]
      have hc : Nat.gcd p.p q.p = 1 := (Nat.coprime_primes (hs.prime p hp) (hs.prime q hq)).mpr he
      exact Ymq.PolyInv.invMod_isSome (hs.prime q hq).pos hc
  have htb : ∃ tbl, allSome (sel.map fun (p : Prime) => allSome (sel.map fun (q : Prime) =>
      if p.p = q.p then some 0 else invMod p.p q.p)) = some tbl := by
    apply allSome_isSome
    intro x hx
    obtain ⟨p, hp, rfl⟩ := List.mem_map.mp hx
    exact hrow p hp
  obtain ⟨tbl, htbl⟩ := htb
  exact ⟨{ n := n, factors := sel, inverses := tbl }, by
    unfold mkFactors mkInverses; rw [htbl]; rfl⟩

theorem prod_odd : ∀ (l : List Nat), (∀ x ∈ l, x % 2 = 1) → l.prod % 2 = 1 := by
  intro l
  induction l with
  | nil => intro _; rfl
  | cons x xs ih =>
    intro h
    have h1 := h x List.mem_cons_self
    have h2 := ih (fun y hy => h y (List.mem_cons_of_mem _ hy))
    rw [List.prod_cons, Nat.mul_mod, h1, h2]

/-- end to end: from the outputs of `select_siqs_factors` and `select_a` to the totality of the walk -/
theorem select_walk_total {n : Int} {fb sel : List Prime} {nfacs mm want fuel tgt A : Nat} {as : List Nat}
    (hprime : ∀ q ∈ fb, Nat.Prime q.p) (hsmall : ∀ q ∈ fb, q.p < 2 ^ 24)
    (hroot : ∀ q ∈ fb, q.r < q.p ∧ (q.r : Int) * q.r ≡ n [ZMOD q.p])
    (hnd : (fb.map (·.p)).Nodup) (h2 : ∀ q ∈ fb.drop 1, q.p ≠ 2)
    (hnf : 0 < nfacs) (hnf32 : nfacs ≤ 32)
    (hsel : selectFactors fb n nfacs mm = some (tgt, sel))
    (has : selectA n tgt nfacs want (sel.map (·.p)) fuel = some as) (hA : A ∈ as)
    (hn0 : 0 < n) (hn : n < 2 ^ 448) (hm1 : 32768 ≤ mm) (hm2 : mm < 2 ^ 20)
    (hlo : tgt ≤ 4 * A) (hhi : A ≤ 4 * tgt) (h34 : nfacs ≥ 5 → 3 * tgt ≤ 4 * A) :
    ∃ f pa, mkFactors n sel = some f ∧ prepareA f A fb (-((mm : Int) / 2)) = some pa ∧
      pa.factors.length = nfacs ∧
      ∀ idx, idx < 2 ^ (nfacs - 1) → ∃ pol, polyAt (mkSieve n mm) pa idx = some pol := by
  obtain ⟨htgt, _, hsub, hr, _, _⟩ := selectFactors_some hnf hsel
  obtain ⟨hs, hz⟩ := sel_ok hprime hroot hnd hsub hr
  obtain ⟨f, hf⟩ := mkFactors_isSome hs
  obtain ⟨hprodA, _⟩ := selectA_sound hnf has A hA
  obtain ⟨ha, hlen⟩ := isProd_afs hs hf hprodA
  have hne : afsOf f A ≠ [] := by
    intro he; rw [he] at hlen; simp at hlen; omega
  have hodd : A % 2 = 1 := by
    rw [ha]
    apply prod_odd
    intro x hx
    obtain ⟨y, hy, rfl⟩ := List.mem_map.mp hx
    have hys := (afs_mem_sel (a := A) hf).2 y hy
    have hyf := hsub.subset hys
    have hp := hprime _ ((List.drop_sublist 1 fb).subset hyf)
    exact hp.eq_two_or_odd.resolve_left (h2 _ hyf)
  have d : SizeDom n mm A (afsOf f A).length :=
    ⟨hn0, hn, hm1, hm2, htgt ▸ hlo, htgt ▸ hhi, by rw [hlen]; exact hnf32⟩
  obtain ⟨pa, hpa⟩ := prepareA_isSome (fb := fb) hs hf ha hne
    (fun q hq => ⟨(hprime q hq).pos.ne', hsmall q hq⟩) d
  obtain ⟨_, _, _, _, _, hfac, _⟩ := prepareA_some hpa
  have hlen' : pa.factors.length = (afsOf f A).length := by rw [hfac]; simp
  have hne' : pa.factors.isEmpty = false := by
    rw [hfac]
    cases h : afsOf f A with
    | nil => exact absurd h hne
    | cons x xs => simp
  have w : WalkDom n sel fb f A mm pa :=
    ⟨hprime, hs, hz, hf, ha, fun _ => hodd, hpa, hne', hlen' ▸ d,
      fun h5 => htgt ▸ h34 (by rw [← hlen, ← hlen']; exact h5)⟩
  refine ⟨f, pa, hf, hpa, by rw [hlen', hlen], ?_⟩
  intro idx hidx
  exact walk_total_aux w idx (by rw [hlen', hlen]; exact hidx)

end Ymq.PolySelect
