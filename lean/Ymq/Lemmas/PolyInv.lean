/-
The exact modular inverse `invMod` of the polynomial models (specification of
`arith::inv_mod64`, `Inverter::invert`, `arith_gcd::inv_mod`): soundness and completeness.
-/
import Mathlib.Tactic.Ring
import Mathlib.Tactic.Linarith
import Mathlib.Data.Int.ModEq
import Mathlib.Data.Nat.Prime.Basic
import Ymq.Model.SiqsPoly

namespace Ymq.PolyInv
open Ymq.SiqsPoly

theorem xgcd_spec (a : Int) (p : Int) : ∀ (f r0 : Nat) (s0 : Int) (r1 : Nat) (s1 : Int), r1 < f →
    p ∣ s0 * a - r0 → p ∣ s1 * a - r1 →
    (xgcd f r0 s0 r1 s1).1 = Nat.gcd r0 r1 ∧
      p ∣ (xgcd f r0 s0 r1 s1).2 * a - ((xgcd f r0 s0 r1 s1).1 : Int) := by
  intro f
  induction f with
  | zero => intro r0 s0 r1 s1 h; omega
  | succ f ih =>
    intro r0 s0 r1 s1 hf h0 h1
    rw [xgcd]
    by_cases hr : r1 = 0
    · subst hr
      simp only [if_true]
      exact ⟨by simp, h0⟩
    · simp only [hr, if_false]
      have hstep : p ∣ (s0 - ((r0 / r1 : Nat) : Int) * s1) * a - ((r0 % r1 : Nat) : Int) := by
        have e : ((r0 % r1 : Nat) : Int) = (r0 : Int) - ((r0 / r1 : Nat) : Int) * r1 := by
          have h := Nat.div_add_mod r0 r1
          have hz : ((r1 * (r0 / r1) + r0 % r1 : Nat) : Int) = (r0 : Int) := by exact_mod_cast h
          push_cast at hz ⊢
          linarith
        rw [e]
        have : (s0 - ((r0 / r1 : Nat) : Int) * s1) * a - ((r0 : Int) - ((r0 / r1 : Nat) : Int) * r1)
            = (s0 * a - r0) - ((r0 / r1 : Nat) : Int) * (s1 * a - r1) := by ring
        rw [this]
        exact Int.dvd_sub h0 (Dvd.dvd.mul_left h1 _)
      have hlt : r0 % r1 < f := by
        have := Nat.mod_lt r0 (Nat.pos_of_ne_zero hr); omega
      obtain ⟨g, hg⟩ := ih r1 s1 (r0 % r1) (s0 - ((r0 / r1 : Nat) : Int) * s1) hlt h1 hstep
      refine ⟨?_, hg⟩
      rw [g, Nat.gcd_comm r0 r1, Nat.gcd_rec r1 r0, Nat.gcd_comm]

private theorem start_inv (a p : Nat) :
    (p : Int) ∣ (1 : Int) * (a : Int) - ((a % p : Nat) : Int) := by
  push_cast; rw [one_mul]; exact (Int.modEq_iff_dvd.mp (Int.mod_modEq _ _))

/-- a returned inverse is reduced and is an inverse; the operands are coprime -/
theorem invMod_some {a p x : Nat} (hp : 0 < p) (h : invMod a p = some x) :
    x < p ∧ a * x % p = 1 % p ∧ Nat.gcd a p = 1 := by
  unfold invMod at h
  dsimp only at h
  obtain ⟨hg, hd⟩ := xgcd_spec (a : Int) (p : Int) (p + 1) p 0 (a % p) 1 (by have := Nat.mod_lt a hp; omega) (by simp) (start_inv a p)
  split at h
  · rename_i hone
    injection h with h
    rw [hone] at hd hg
    have hp' : (0 : Int) < p := by exact_mod_cast hp
    have hx0 : 0 ≤ (xgcd (p + 1) p 0 (a % p) 1).2 % (p : Int) := Int.emod_nonneg _ (by omega)
    have hxp : (xgcd (p + 1) p 0 (a % p) 1).2 % (p : Int) < p := Int.emod_lt_of_pos _ hp'
    have hxi : (x : Int) = (xgcd (p + 1) p 0 (a % p) 1).2 % (p : Int) := by
      rw [← h]; exact (Int.toNat_of_nonneg hx0)
    refine ⟨by omega, ?_, ?_⟩
    · have h1 : ((1 : Nat) : Int) ≡ (xgcd (p + 1) p 0 (a % p) 1).2 * a [ZMOD p] :=
        Int.modEq_iff_dvd.mpr hd
      have h2 : (x : Int) ≡ (xgcd (p + 1) p 0 (a % p) 1).2 [ZMOD p] := hxi ▸ Int.mod_modEq _ _
      have h3 : ((a * x : Nat) : Int) ≡ ((1 : Nat) : Int) [ZMOD p] := by
        push_cast
        calc (a : Int) * x ≡ a * (xgcd (p + 1) p 0 (a % p) 1).2 [ZMOD p] := Int.ModEq.mul_left _ h2
          _ = (xgcd (p + 1) p 0 (a % p) 1).2 * a := by ring
          _ ≡ 1 [ZMOD p] := by simpa using h1.symm
      exact Int.natCast_modEq_iff.mp h3
    · have h4 : Nat.gcd p (a % p) = 1 := hg.symm
      rw [Nat.gcd_comm, ← Nat.gcd_rec] at h4
      rw [Nat.gcd_comm]; exact h4
  · exact absurd h (by simp)

/-- coprime operands always have an inverse -/
theorem invMod_isSome {a p : Nat} (hp : 0 < p) (h : Nat.gcd a p = 1) : ∃ x, invMod a p = some x := by
  unfold invMod
  dsimp only
  obtain ⟨hg, _⟩ := xgcd_spec (a : Int) (p : Int) (p + 1) p 0 (a % p) 1 (by have := Nat.mod_lt a hp; omega) (by simp) (start_inv a p)
  have : (xgcd (p + 1) p 0 (a % p) 1).1 = 1 := by
    rw [hg, Nat.gcd_comm, ← Nat.gcd_rec, Nat.gcd_comm]; exact h
  rw [if_pos this]
  exact ⟨_, rfl⟩

theorem invMod_none {a p : Nat} (hp : 0 < p) (h : invMod a p = none) : Nat.gcd a p ≠ 1 := by
  intro hc
  obtain ⟨x, hx⟩ := invMod_isSome hp hc
  rw [h] at hx; cases hx

/-- the inverse modulo a prime of a residue that is not a multiple of the prime -/
theorem invMod_prime {a p : Nat} (hp : Nat.Prime p) (ha : a % p ≠ 0) :
    ∃ x, invMod a p = some x ∧ x < p ∧ a * x % p = 1 := by
  have hc : Nat.gcd a p = 1 := by
    rw [Nat.gcd_comm]
    exact (Nat.Prime.coprime_iff_not_dvd hp).mpr (fun h => ha (Nat.mod_eq_zero_of_dvd h))
  obtain ⟨x, hx⟩ := invMod_isSome hp.pos hc
  obtain ⟨h1, h2, _⟩ := invMod_some hp.pos hx
  exact ⟨x, hx, h1, by rw [h2, Nat.mod_eq_of_lt hp.one_lt]⟩

/-- a multiple of the modulus has no inverse (modulus at least 2) -/
theorem invMod_zero {a p : Nat} (hp : 2 ≤ p) (ha : a % p = 0) : invMod a p = none := by
  cases h : invMod a p with
  | none => rfl
  | some x =>
    obtain ⟨_, _, hg⟩ := invMod_some (by omega) h
    have : p ∣ Nat.gcd a p := Nat.dvd_gcd (Nat.dvd_of_mod_eq_zero ha) (dvd_refl p)
    rw [hg] at this
    have := Nat.le_of_dvd (by omega) this
    omega

end Ymq.PolyInv
